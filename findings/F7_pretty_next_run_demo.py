import time_machine, datetime
from aioswitcher.schedule import Days, tools
# Wednesday 2026-09-23 15:00 local
with time_machine.travel(datetime.datetime(2026,9,23,15,0), tick=False):
    print(tools.pretty_next_run("13:00", {Days.WEDNESDAY, Days.FRIDAY}))   # expected: Due next Friday
    print(tools.pretty_next_run("13:00", {Days.WEDNESDAY, Days.THURSDAY})) # expected: Due tomorrow
    print(tools.pretty_next_run("13:00", {Days.MONDAY, Days.WEDNESDAY}))   # expected: Due next Monday
    print(tools.pretty_next_run("13:00", {Days.WEDNESDAY}))                # expected: Due next Wednesday
    print(tools.pretty_next_run("16:00", {Days.WEDNESDAY, Days.FRIDAY}))   # expected: Due today
