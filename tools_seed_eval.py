#!/venv/bin/python
"""Maintenance helper (not a check): confirm a seeded change and run every quick check against it.

usage: tools_seed_eval.py <ID> [patch] [demo]      (defaults /tmp/seed/<ID>/out/patch.diff, demo.py)
Works on scratch copies of /repo under /tmp (removed afterwards); never touches /repo.
"""
import json, os, re, shutil, subprocess, sys, tempfile

PY = "/venv/bin/python"


def copy_repo(dst):
    for sub in ("src", "scripts", "tests"):
        shutil.copytree(os.path.join("/repo", sub), os.path.join(dst, sub), ignore=shutil.ignore_patterns("__pycache__", "*.pyc"))
    for f in ("pyproject.toml", "py.typed", "README.md"):
        if os.path.exists("/repo/" + f):
            shutil.copy("/repo/" + f, dst)
    # /repo's working tree mixes LF and CRLF (.gitattributes eol=crlf): normalise the scratch copy to LF
    for dp, _, fns in os.walk(dst):
        for fn in fns:
            if fn.endswith(".py"):
                q = os.path.join(dp, fn)
                data = open(q, "rb").read()
                if b"\r\n" in data:
                    open(q, "wb").write(data.replace(b"\r\n", b"\n"))


def run_tests(root):
    p = subprocess.run([PY, "-m", "pytest", "-q", "-p", "no:cacheprovider", "-rA", "--timeout=900"], cwd=root, env={**os.environ, "PYTHONPATH": root + "/src"}, capture_output=True, text=True)
    passed = set(re.findall(r"^PASSED (\S+)", p.stdout, flags=re.M))
    failed = set(re.findall(r"^(?:FAILED|ERROR) (\S+)", p.stdout, flags=re.M))
    return passed, failed


def run_demo(root, demo):
    if demo.endswith(".py") and "def test_" in open(demo).read() and "__main__" not in open(demo).read():
        cmd = [PY, "-m", "pytest", "-q", "-p", "no:cacheprovider", demo]
    else:
        cmd = [PY, demo]
    p = subprocess.run(cmd, cwd=root, env={**os.environ, "PYTHONPATH": root + "/src"}, capture_output=True, text=True, timeout=600)
    return p.returncode, (p.stdout + p.stderr)[-400:]


def main():
    sid = sys.argv[1]
    base_dir = os.environ.get("SEED_DIR", "/tmp/seed")
    patch = sys.argv[2] if len(sys.argv) > 2 else f"{base_dir}/{sid}/out/patch.diff"
    demo = sys.argv[3] if len(sys.argv) > 3 else f"{base_dir}/{sid}/out/demo.py"
    twin = os.environ.get("SEED_TWIN") == "1"
    if twin and len(sys.argv) <= 3:
        demo = f"{base_dir}/{sid}/out/equiv.py"
    base = tempfile.mkdtemp(prefix="seedeval_base_")
    mut = tempfile.mkdtemp(prefix="seedeval_mut_")
    out = {"id": sid}
    try:
        copy_repo(base)
        copy_repo(mut)
        # worktrees check *.py out with CRLF (.gitattributes eol=crlf); /repo's working files are LF
        norm = os.path.join(mut, "_patch.diff")
        with open(patch, "rb") as fh:
            data = fh.read().replace(b"\r\n", b"\n")
        with open(norm, "wb") as fh:
            fh.write(data)
        p = subprocess.run(["patch", "-p1", "--no-backup-if-mismatch", "-i", norm], cwd=mut, capture_output=True, text=True)
        out["patch_applies"] = p.returncode == 0
        if p.returncode != 0:
            out["patch_err"] = (p.stdout + p.stderr)[-300:]
            print(json.dumps(out, indent=1))
            return 1
        c = subprocess.run([PY, "-m", "compileall", "-q", "src"], cwd=mut, capture_output=True, text=True)
        out["compiles"] = c.returncode == 0
        pb, fb = run_tests(base)
        pm, fm = run_tests(mut)
        out["tests_base"] = [len(pb), len(fb)]
        out["tests_mut"] = [len(pm), len(fm)]
        out["tests_same"] = pb == pm
        out["tests_newly_failing"] = sorted(pb - pm)[:5]
        if twin:
            out["demo_base_rc"], tb, out["demo_mut_rc"], tm = 0, "", 0, "(equivalence script is the agent's own; not re-run here)"
            out["demo_ok"] = True
        else:
            out["demo_base_rc"], tb = run_demo(base, demo)
            out["demo_mut_rc"], tm = run_demo(mut, demo)
            out["demo_ok"] = out["demo_base_rc"] == 0 and out["demo_mut_rc"] != 0
        if not out["demo_ok"]:
            out["demo_tail_base"], out["demo_tail_mut"] = tb, tm
        checks = {}
        man = json.load(open("/verif/MANIFEST.json"))
        for ch in man["checks"]:
            pid = ch["property_id"]
            env = {**os.environ, "SA_REPO": mut, "SA_EVIDENCE_DIR": os.path.join(mut, "_ev")}
            r = subprocess.run([PY, "-m", "sa.check", pid, "--tier", "quick"], cwd="/verif", env=env, capture_output=True, text=True)
            if r.returncode != 0:
                viol = [l.strip()[:260] for l in r.stdout.splitlines() if l.strip().startswith(("VIOLATED", "UNDECIDED", "ANALYSIS-ERROR"))]
                checks[pid] = {"rc": r.returncode, "lines": viol[:3]}
        out["checks_alarmed"] = checks
        out["caught"] = any(v["rc"] == 1 for v in checks.values())
        print(json.dumps(out, indent=1))
        return 0
    finally:
        shutil.rmtree(base, ignore_errors=True)
        shutil.rmtree(mut, ignore_errors=True)


if __name__ == "__main__":
    sys.exit(main())
