"""Reference layouts (spec/*.json) -> canonical hexshape terms.

A layout entry describes *bytes on the wire* and how they are decoded; this module
builds the canonical term the abstract interpreter must arrive at for a getter
that implements the entry.  kinds:
  hex{first,n}            lower-case hex text of bytes first..first+n-1
  utf8{first,n,rstrip}    UTF-8 decode of the bytes (optionally .rstrip(rstrip))
  ipv4{first}             dotted quad of 4 bytes in wire order
  mac{first}              6 bytes, upper-case hex joined by ':'
  uint_le{first,n}        unsigned little-endian integer
  uint8{byte}
  scaled{of,div}          of / div
  iso_time{of}            HH:MM:SS of seconds `of` (via the seconds_to_iso_time normal form)
  flag{byte|nibble, eq, then, else}   member chosen by comparing the hex text of a byte (or one nibble) with a literal
  table{enum, attr, first, n | nibble, default}  enum member whose attr equals the hex text
  amps{of}                round(of / 220.0, 1)
"""
from __future__ import annotations

from typing import Any, Dict, Optional, Tuple

from . import terms as T
from .model import EnumRef, Program
from .terms import Term, c


def hx(src: Term, a: int, b: int) -> Term:
    return ("hx", src, a, b)


def hextext(src: Term, first: int, n: int) -> Term:
    return T.seq("s", (hx(src, 2 * first, 2 * (first + n)),))


def nibtext(src: Term, nib: int) -> Term:
    return T.seq("s", (hx(src, nib, nib + 1),))


def iso_time(x: Term) -> Term:
    from .lib import arith   # the same arithmetic normaliser the interpreter uses (digit extraction is canonical)
    mins = arith("floordiv", x, c(60))
    return ("seq", "s", (("txt", ("app", ".isoformat", ("app", "datetime.time",
            ("kw", "hour", arith("floordiv", mins, c(60))),
            ("kw", "minute", arith("mod", mins, c(60))),
            ("kw", "second", arith("mod", x, c(60)))))),))


def enum_table(prog: Program, enum_key: str, attr: str) -> Tuple[Tuple[Term, Term], ...]:
    ci = prog.cls(enum_key)
    assert ci.enum is not None
    out = []
    for m in ci.enum.members:
        v = ci.enum.attr(m, attr)
        out.append((T.seq("s", (("L", str(v)),)), ("enum", EnumRef(ci.key, m))))
    return tuple(out)


def member(prog: Program, enum_key: str, name: str) -> Term:
    return ("enum", EnumRef(prog.cls(enum_key).key, name))


def term_of(prog: Program, e: Dict[str, Any], src: Term) -> Term:
    from .interp import ite
    k = e["kind"]
    if k == "hex":
        return hextext(src, e["first"], e["n"])
    if k == "utf8":
        raw = (hx(src, 2 * e["first"], 2 * (e["first"] + e["n"])),)
        t: Term = ("seq", "s", (("txt", ("decode", raw)),))
        if e.get("rstrip") is not None:
            t = ("seq", "s", (("txt", ("app", "rstrip", t, c(e["rstrip"]))),))
        return t
    if k == "ipv4":
        return ("seq", "s", (("txt", ("app", "inet_ntoa", T.seq("raw", (hx(src, 2 * e["first"], 2 * e["first"] + 8),)))),))
    if k == "mac":
        atoms = []
        for i in range(6):
            if i:
                atoms.append(("L", ":"))
            atoms.append(("HX", src, 2 * (e["first"] + i), 2 * (e["first"] + i) + 2))
        return T.seq("s", atoms)
    if k == "uint_le":
        atoms = [hx(src, 2 * (e["first"] + i), 2 * (e["first"] + i) + 2) for i in reversed(range(e["n"]))]
        return ("uint", T.normalise_atoms(tuple(atoms)))
    if k == "uint8":
        return ("uint", (hx(src, 2 * e["byte"], 2 * e["byte"] + 2),))
    if k == "scaled":
        return ("app", "truediv", term_of(prog, e["of"], src), c(e["div"]))
    if k == "iso_time":
        return iso_time(term_of(prog, e["of"], src))
    if k == "amps":
        return ("app", "round", ("app", "truediv", term_of(prog, e["of"], src), c(220.0)), c(1))
    if k == "flag":
        key = nibtext(src, e["nibble"]) if "nibble" in e else hextext(src, e["byte"], 1)
        lit = T.seq("s", (("L", e["eq"]),))
        return ite(("cmp", "==", key, lit), member(prog, e["enum"], e["then"]), member(prog, e["enum"], e["else"]))
    if k == "table":
        key = nibtext(src, e["nibble"]) if "nibble" in e else hextext(src, e["first"], e["n"])
        tab = enum_table(prog, e["enum"], e.get("attr", "value"))
        look = ("lookup", tab, key)
        if e.get("default"):
            return ite(("cmp", "in", key, ("tuple", tuple(kk for kk, _ in tab))), look, member(prog, e["enum"], e["default"]))
        return look
    if k == "legacy_position":
        # int(hex[2:4]) (decimal!) + int(hex[0:2], 16): equals byte `byte` while byte+1 is zero
        b = e["byte"]
        return T.Lin({("dec", (hx(src, 2 * b + 2, 2 * b + 4),)): 1, ("uint", (hx(src, 2 * b, 2 * b + 2),)): 1}, 0).term()
    if k == "const":
        return member(prog, e["enum"], e["member"])
    raise ValueError(f"unknown layout kind {k}")


def nibble_ranges(v: Any, src: Term, acc: Optional[list] = None) -> list:
    """All (lo,hi) nibble ranges of `src` read by a term."""
    acc = [] if acc is None else acc
    if isinstance(v, tuple):
        if len(v) == 4 and v[0] in ("hx", "HX") and v[1] == src and isinstance(v[2], int):
            acc.append((v[2], v[3]))
            return acc
        if len(v) == 4 and v[0] == "ite":
            # the guard of a choice is not field data (e.g. "remaining time if the state byte says ON")
            nibble_ranges(v[2], src, acc)
            nibble_ranges(v[3], src, acc)
            return acc
        for x in v:
            nibble_ranges(x, src, acc)
    elif isinstance(v, T.Lin):
        for t in v.coef:
            nibble_ranges(t, src, acc)
    return acc
