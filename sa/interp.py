"""Path-sensitive abstract interpreter over the repository's syntax trees.

The abstract state at a program point is a *set of guarded states* (disjunctive
completion): each carries an environment of hexshape terms, a small heap, the
guard (conjunction of branch conditions, kept symbolic - never solved), and the
ordered list of externally visible events (socket writes, reads, callbacks,
attribute stores, log/warn calls).  Repository functions are analysed by
inlining (bounded depth); library operations by the transfer functions in
``sa.lib``.  No repository code is imported or executed, no input is chosen
and no solver is consulted.
"""
from __future__ import annotations

import ast
import copy
import os
import string
from dataclasses import dataclass, field
from typing import Any, Callable, Dict, List, Optional, Tuple

from . import terms as T
from .model import AnalysisError, ClassInfo, EnumRef, FunctionInfo, Module, NotConst, Program
from .terms import Lin, Term, c, is_c, is_top, top

EXC_PARENTS = {
    "BaseException": None,
    "Exception": "BaseException",
    "ArithmeticError": "Exception",
    "OverflowError": "ArithmeticError",
    "ZeroDivisionError": "ArithmeticError",
    "LookupError": "Exception",
    "KeyError": "LookupError",
    "IndexError": "LookupError",
    "ValueError": "Exception",
    "UnicodeError": "ValueError",
    "UnicodeDecodeError": "UnicodeError",
    "UnicodeEncodeError": "UnicodeError",
    "binascii.Error": "ValueError",
    "json.JSONDecodeError": "ValueError",
    "TypeError": "Exception",
    "AttributeError": "Exception",
    "RuntimeError": "Exception",
    "NotImplementedError": "RuntimeError",
    "OSError": "Exception",
    "FileNotFoundError": "OSError",
    "ConnectionError": "OSError",
    "ConnectionRefusedError": "ConnectionError",
    "struct.error": "Exception",
    "StopIteration": "Exception",
    "AssertionError": "Exception",
    "asyncio.CancelledError": "BaseException",
    "KeyboardInterrupt": "BaseException",
}


def exc_is_subclass(name: str, parent: str) -> bool:
    cur: Optional[str] = name
    seen = 0
    while cur is not None and seen < 20:
        if cur == parent:
            return True
        cur = EXC_PARENTS.get(cur, "Exception" if cur not in EXC_PARENTS and cur != "BaseException" else None)
        seen += 1
    return False


@dataclass
class HeapObj:
    kind: str  # 'obj' | 'list' | 'set' | 'dict'
    cls: Optional[ClassInfo] = None
    fields: Dict[str, Term] = field(default_factory=dict)
    items: List[Any] = field(default_factory=list)
    symbolic: bool = False
    name: str = ""
    fresh: bool = True
    absent: Tuple[str, ...] = ()   # attribute names the model knows to be unset on this instance

    def copy(self) -> "HeapObj":
        return HeapObj(self.kind, self.cls, dict(self.fields), list(self.items), self.symbolic, self.name, self.fresh, self.absent)


@dataclass
class Event:
    kind: str  # 'call' | 'store' | 'await'
    target: str
    args: Tuple[Any, ...] = ()
    kwargs: Tuple[Tuple[str, Any], ...] = ()
    where: str = ""
    func: str = ""
    awaited: bool = False
    result: Any = None
    pc_len: int = 0

    def __repr__(self) -> str:
        a = ", ".join(T.show(x) for x in self.args)
        return f"{self.kind}:{self.target}({a})@{self.where}"


class State:
    def __init__(self) -> None:
        self.env: Dict[str, Term] = {}
        self.heap: Dict[int, HeapObj] = {}
        self.pc: List[Term] = []
        self.events: List[Event] = []
        self.pending: List[Tuple[str, Term, str, int]] = []
        self.counters: Dict[str, int] = {}
        self.minlen: Dict[Term, int] = {}  # guaranteed minimum length (in bytes) of a bytes source
        self.notes: List[str] = []
        self.class_objs: Dict[Tuple[str, str], Term] = {}   # class-level attribute values read on this path (one object per class attribute)
        self.cm_stack: List[Tuple[Dict[str, Term], int]] = []   # (caller environment, yields so far) per generator context manager being run

    def fork(self) -> "State":
        s = State()
        s.env = dict(self.env)
        s.heap = {k: v.copy() for k, v in self.heap.items()}
        s.pc = list(self.pc)
        s.events = list(self.events)
        s.pending = list(self.pending)
        s.counters = dict(self.counters)
        s.minlen = dict(self.minlen)
        s.notes = list(self.notes)
        s.cm_stack = [(dict(e), n) for e, n in self.cm_stack]
        s.class_objs = dict(self.class_objs)
        return s

    def fresh(self, base: str) -> str:
        n = self.counters.get(base, 0)
        self.counters[base] = n + 1
        return f"{base}#{n}"

    def alloc(self, obj: HeapObj) -> Term:
        oid = len(self.heap) + 1
        while oid in self.heap:
            oid += 1
        self.heap[oid] = obj
        return ("obj", oid)

    def may_raise(self, exc: str, cond: Term, where: str) -> None:
        self.pending.append((exc, cond, where, len(self.events)))


@dataclass
class Ctx:
    fi: Optional[FunctionInfo]
    module: Module
    depth: int
    where_stack: Tuple[str, ...] = ()
    cm: Any = None   # set while the body of a generator context manager runs: what to do at its `yield`

    def loc(self, node: ast.AST) -> str:
        q = self.fi.qualname if self.fi else "<module>"
        return f"{self.module.relpath}:{getattr(node, 'lineno', 0)} {q}"


@dataclass
class Outcome:
    state: State
    kind: str  # 'return' | 'raise'
    value: Any

    @property
    def exc_name(self) -> str:
        return self.value[1] if self.kind == "raise" else ""


def _walk_own(stmts: Any) -> Any:
    """The nodes of a statement list, not descending into nested function / class definitions or lambdas."""
    todo = list(stmts)
    while todo:
        n = todo.pop()
        yield n
        for ch in ast.iter_child_nodes(n):
            if not isinstance(ch, (ast.FunctionDef, ast.AsyncFunctionDef, ast.ClassDef, ast.Lambda)):
                todo.append(ch)


def is_generator(fi: FunctionInfo) -> bool:
    return any(isinstance(n, (ast.Yield, ast.YieldFrom)) for n in _walk_own(fi.node.body))


class NeedSplit(Exception):
    """Raised by a transfer function that needs the truth of a condition the path has not decided (a selector of
    itertools.compress): exec_stmt re-executes the statement once with the condition and once with its negation."""

    def __init__(self, cond: Term) -> None:
        super().__init__("case split needed")
        self.cond = cond


class Infeasible(Exception):
    """Raised when an evaluation finds that the path condition is contradictory (every entry of a table is excluded
    by the guards although the look-up is known to succeed): exec_stmt ends the path without successors."""


class Unsupported(Exception):
    pass


# decorators a `def` may carry without the name being bound to something that behaves differently from the function
# itself as far as this analysis goes (descriptors are handled where attributes are read, caches and generator-based
# context managers where they are called)
_TRANSPARENT_DECORATORS = {"staticmethod", "classmethod", "property", "setter", "getter", "deleter", "final", "abstractmethod", "override", "overload",
                           "cache", "lru_cache", "cached_property", "memoize", "memoized", "contextmanager", "asynccontextmanager", "wraps", "no_type_check"}


class Interp:
    def __init__(
        self,
        prog: Program,
        stubs: Optional[Dict[str, Any]] = None,
        max_depth: int = 7,
        unroll: int = 2,
        max_paths: int = 6000,
    ) -> None:
        self.prog = prog
        self.stubs = stubs or {}
        self.max_depth = max_depth
        self.unroll = unroll
        self.max_paths = max_paths
        self.calls_resolved: List[Tuple[str, str]] = []
        self.calls_unresolved: List[Tuple[str, str]] = []
        self.functions_visited: Dict[str, int] = {}
        self.paths = 0
        self.steps = 0
        self.max_steps = 300000
        import time as _time
        self._t0 = _time.process_time()       # (CPU time: a budget must not depend on how busy the machine is)
        self.max_seconds = float(os.environ.get("SA_MAX_SECONDS", "90"))   # wall-clock budget of one interpreter (resource limit: exit 2)
        from . import lib

        self.lib = lib

    # ------------------------------------------------------------------
    # entry points
    def new_state(self) -> State:
        return State()

    _DEFAULT_PURE_CALLS = {"set", "list", "dict", "tuple", "frozenset", "bytes", "bytearray", "timedelta", "field", "int", "str", "float", "bool", "object", "Lock"}

    def default_value(self, fi: FunctionInfo, name: str, dnode: ast.AST, st: State, ctx: Ctx) -> Term:
        """The value of a parameter default.  Python evaluates a default ONCE, when the `def` is executed (at import):
        a default that calls something whose result depends on when it is called (a clock reading, a counter, an
        environment lookup) is that one import-time value at every later call - modelled as a named unknown that is
        equal to nothing computed during a call.  Literals, names, and constructor calls of plain containers are
        evaluated in place (a mutable default is one shared object: judged by the rules that care, e.g. C03 R3.3)."""
        for n in ast.walk(dnode):
            if isinstance(n, ast.Call):
                fn = ast.unparse(n.func).split(".")[-1]
                if fn not in self._DEFAULT_PURE_CALLS:
                    r = None
                    try:
                        r = self.prog.resolve_expr(fi.module, n.func)
                    except Exception:  # noqa: BLE001
                        r = None
                    if r and r[0] == "class":
                        continue          # an instance of a repository class / enum member built at import
                    T.HAZARDS.setdefault(("IMPORTTIME", f"{fi.key}.{name}"),
                                         f"the default of parameter {name} of {fi.qualname} is `{ast.unparse(dnode)[:60]}`: evaluated once at import, not at each call")
                    # the same expression, evaluated apart from this call: what it reads from the clock is a reading
                    # taken at import, a different occurrence from every reading of the call
                    try:
                        sub = State()
                        v = self.eval(dnode, sub, ctx)
                    except (AnalysisError, Unsupported, NeedSplit):
                        v = None
                    tag = f"import:{fi.qualname}.{name}"

                    def ren(x: Any) -> Any:
                        if isinstance(x, tuple):
                            if len(x) == 2 and x[0] == "occ" and isinstance(x[1], str):
                                return ("occ", f"{tag}:{x[1]}")
                            if x[:1] == ("obj",):
                                raise AnalysisError("object")
                            return tuple(ren(y) for y in x)
                        return x
                    if v is not None and not any(e.kind == "call" and not _benign_event(e, sub) for e in sub.events):      # (had it raised, the module would not import)
                        try:
                            return ren(v)
                        except AnalysisError:
                            pass
                    return ("sym", f"import-time:{fi.qualname}.{name}", "any")
        return self.eval(dnode, st, ctx)

    def _attr_type_from_init(self, cls: ClassInfo, attr: str) -> Any:
        """Type of an instance attribute the model of the instance does not list, from what __init__ stores there
        (an annotation, or a constructor call of a repository class): "any" when nothing is found."""
        for k_ in cls.mro():
            im_ = k_.methods.get("__init__")
            if im_ is None or not im_.params:
                continue
            for n_ in ast.walk(im_.node):
                tg_ = n_.targets[0] if isinstance(n_, ast.Assign) and len(n_.targets) == 1 else (n_.target if isinstance(n_, ast.AnnAssign) else None)
                if not (isinstance(tg_, ast.Attribute) and tg_.attr == attr and isinstance(tg_.value, ast.Name) and tg_.value.id == im_.params[0]):
                    continue
                if isinstance(n_, ast.AnnAssign):
                    return self.type_of_annotation(n_.annotation, k_.module)
                if isinstance(n_.value, ast.Call):
                    try:
                        r_ = self.prog.resolve_expr(k_.module, n_.value.func)
                    except Exception:  # noqa: BLE001
                        r_ = None
                    if r_ and r_[0] == "class" and r_[1].enum is None:
                        return ("obj", r_[1].key)
        return "any"

    def sym_object(self, st: State, cls: Optional[ClassInfo], name: str, fields: Optional[Dict[str, Term]] = None) -> Term:
        return st.alloc(HeapObj("obj", cls, dict(fields or {}), [], True, name, False))

    def run(self, fi: FunctionInfo, args: Dict[str, Term], st: Optional[State] = None) -> List[Outcome]:
        st = st or State()
        ctx = Ctx(fi, fi.module, 0)
        outs = self._invoke(fi, args, st, ctx)
        self._note_opaque(fi, outs)
        self._close_guards(outs)
        for o in outs:
            # a remembered result handed out of the analysed entry point (directly or inside the returned object)
            vals = [o.value] if o.kind == "return" else []
            if o.kind == "return" and isinstance(o.value, tuple) and o.value[:1] == ("obj",) and o.value[1] in o.state.heap:
                ho_ = o.state.heap[o.value[1]]
                vals += list(ho_.fields.values()) + [x for x in ho_.items if isinstance(x, tuple)]
            for v_ in vals:
                if isinstance(v_, tuple) and v_[:1] == ("obj",) and v_[1] in o.state.heap and o.state.heap[v_[1]].name.startswith("memo:"):
                    T.HAZARDS[("CACHED", o.state.heap[v_[1]].name[5:])] = f"the remembered result of the memoised {o.state.heap[v_[1]].name[5:]} is returned by {fi.qualname} to callers outside the analysis"
        return outs

    def _close_guards(self, outs: List[Outcome]) -> None:
        """Append to each outcome's guard list the literals that follow from it by flattening conjunctions and unit
        resolution (frames.flat_pc): rules that look for a literal among the guards then find `q` on a path guarded
        by `(not p or q)` and `p`.  Only consequences are added (at the end: positions recorded in events stay valid)."""
        from .frames import flat_pc
        import time as _time
        for o in outs:
            if _time.process_time() - self._t0 > 2 * self.max_seconds:
                raise AnalysisError(f"analysis budget exceeded ({int(2 * self.max_seconds)} s in one interpreter, {len(outs)} paths: the guards grew too large to handle)")
            if any(isinstance(g, tuple) and g and g[0] in ("and", "or") for g in o.state.pc):
                have = list(o.state.pc)
                for g in flat_pc(have):
                    if g not in have and not (isinstance(g, tuple) and g and g[0] == "or"):
                        o.state.pc.append(g)
                        have.append(g)

    def _note_opaque(self, fi: Any, outs: List[Outcome]) -> None:
        """Record opaque values that survive into the outcomes (see terms.OPAQUE_SEEN)."""
        acc: set = set()
        seen: set = set()
        for o in outs:
            # (the memo is by object identity: only objects that stay alive during the scan are passed in)
            for g in o.state.pc:
                T.opaque_markers(g, acc, seen)
            T.opaque_markers(o.value, acc, seen)
            for e in o.state.events:
                T.opaque_markers(e.args, acc, seen)
                for _, v in e.kwargs:
                    T.opaque_markers(v, acc, seen)
                if "opq:" in e.target or "TOP[" in e.target:
                    acc.add("RECV:" + e.target.split("#")[0][:60])
            for ho in o.state.heap.values():
                for v in ho.fields.values():
                    T.opaque_markers(v, acc, seen)
                for it in ho.items:
                    T.opaque_markers(it, acc, seen)
        for m in acc:
            n, _ = T.OPAQUE_SEEN.get(m, (0, ""))
            T.OPAQUE_SEEN[m] = (n + 1, fi if isinstance(fi, str) else fi.qualname)

    def _invoke(self, fi: FunctionInfo, bound: Dict[str, Term], st: State, ctx: Ctx) -> List[Outcome]:
        if ctx.depth > self.max_depth:
            raise AnalysisError(f"inlining depth exceeded at {fi.key}")
        if not getattr(fi, "raw_view", False) and getattr(fi.node, "decorator_list", None):
            wrapping = [d for d in fi.node.decorator_list if ast.unparse(d).split("(")[0].split(".")[-1] not in _TRANSPARENT_DECORATORS]
            if wrapping:
                return self._invoke_decorated(fi, wrapping, bound, st, ctx)
        self.functions_visited[fi.key] = self.functions_visited.get(fi.key, 0) + 1
        cdecos = [d for d in fi.decorators if d.split("(")[0].split(".")[-1] in ("cache", "lru_cache", "cached_property", "memoize", "memoized")]
        cached_entry = None
        if cdecos and is_generator(fi):
            T.HAZARDS[("ONESHOT", fi.key)] = (f"{fi.qualname} is a generator function decorated with {cdecos}: the cache remembers the generator OBJECT, so every call after the first "
                                               f"with an equal key gets the same, already exhausted generator and sees no items")
        if cdecos and self._const_like_args(bound, st):
            cached_entry = (len(st.events), cdecos)     # judged after the body ran, see _memo_is_constant_table
        elif cdecos:
            T.HAZARDS[("CACHED", fi.key)] = (f"{fi.qualname} is decorated with {cdecos} and was inlined as if it were not: calls after the first with an equal key return the "
                                              f"remembered result (the key of a method is `self` by its __hash__/__eq__), which this analysis does not model")
        saved_env = st.env
        st.env = dict(getattr(fi, "closure", None) or {})       # (a nested function sees the variables of its definition site)
        st.env.update(bound)
        nctx = Ctx(fi, fi.module, ctx.depth + 1, ctx.where_stack + (fi.qualname.split(".")[-1],))
        # defaults
        for name, dnode in fi.defaults().items():
            if name not in st.env:
                st.env[name] = self.default_value(fi, name, dnode, st, Ctx(None, fi.module, ctx.depth + 1))
        for p in fi.params:
            if p not in st.env:
                raise AnalysisError(f"missing argument {p} for {fi.key}")
        body = [s for s in fi.node.body]
        gen: Optional[Term] = None
        if is_generator(fi):
            # A generator function is run eagerly and its result is the list of the values it yields.  That equals the
            # lazy run when the body has no observable effect and the object is consumed whole in the statement that
            # created it (iter_items checks this); anything else is not modelled.
            if fi.is_async:
                raise AnalysisError(f"asynchronous generator {fi.key} outside `async with` is not modelled")
            gen = st.alloc(HeapObj("list", None, {}, [], False, "gen:" + fi.qualname, True))
            st.env["$gen"] = gen
            n_events = len(st.events)
        results = self.exec_block(body, st, nctx)
        if cached_entry is not None and not self._memo_is_constant_table(fi, results, cached_entry[0]):
            T.HAZARDS[("CACHED", fi.key)] = (f"{fi.qualname} is decorated with {cached_entry[1]} and was inlined as if it were not: calls after the first with an equal key return the "
                                              f"remembered result, and the result is not a constant table of constant arguments (the one memoisation this analysis proves transparent)")
        outs: List[Outcome] = []
        for s, sig in results:
            s.env = dict(saved_env)  # every path continues with its own copy of the caller's environment
            if gen is not None:
                eff = [e for e in s.events[n_events:] if not _benign_event(e, s)]
                if eff:
                    raise AnalysisError(f"generator {fi.key} has observable effects ({eff[0]!r}): lazy evaluation order is not modelled")
                if sig is None or (sig[0] == "return" and is_c(sig[1]) and sig[1][1] is None):
                    s.heap[gen[1]].fields["$born"] = c(getattr(self, "cur_serial", None))
                    outs.append(Outcome(s, "return", gen))
                    continue
                if sig[0] == "return":
                    raise AnalysisError(f"generator {fi.key} returns a value")
            if sig is None:
                outs.append(Outcome(s, "return", c(None)))
            elif sig[0] == "return":
                outs.append(Outcome(s, "return", sig[1]))
            elif sig[0] == "raise":
                outs.append(Outcome(s, "raise", sig[1]))
            else:
                raise AnalysisError(f"stray {sig[0]} in {fi.key}")
        return outs

    def _invoke_decorated(self, fi: FunctionInfo, wrapping: List[ast.expr], bound: Dict[str, Term], st: State, ctx: Ctx) -> List[Outcome]:
        """A call of a function whose `def` carries decorators that are not known to be transparent.

        The name is bound to what the decorators return, so that is what is called: the decorators are applied once
        (import time, in a scratch state, innermost first) to the undecorated function, the result must be a function
        of the repository (typically a closure around the undecorated one), and the call goes to it with the same
        arguments.  A decorator that cannot be followed, has effects, or returns something else is not modelled (exit 2)."""
        memo = self.__dict__.setdefault("_decorated_memo", {})
        if fi.key not in memo:
            raw = copy.copy(fi)
            raw.raw_view = True                                  # type: ignore[attr-defined]
            if getattr(fi, "closure", None) is not None:
                raw.closure = fi.closure                          # type: ignore[attr-defined]
            value: Term = ("func", raw)
            scratch = self.new_state()
            scratch.env = dict(getattr(fi, "closure", None) or {})      # (a nested def: its decorators see the defining scope)
            mctx = Ctx(None, fi.module, 0)
            try:
                for d in reversed(fi.node.decorator_list):
                    if not any(d is w for w in wrapping):
                        continue
                    dv = self.eval(d, scratch, mctx)
                    value = self.call(dv, [value], {}, scratch, mctx, d)
            except (NeedSplit, Infeasible) as exc:
                raise AnalysisError(f"decorators of {fi.key} could not be followed ({type(exc).__name__})")
            eff = [e for e in scratch.events if not _benign_event(e, scratch)]
            if eff and value != ("func", raw):
                # (a decorator that returns the function itself - a registering one - is transparent for the call; what it
                #  did at import time is the business of the import-time replay of the registry it filled)
                raise AnalysisError(f"decorators of {fi.key} have effects at import time ({eff[0]!r}): not modelled")
            if not (isinstance(value, tuple) and value and ((value[0] == "lambda" and isinstance(value[1], (ast.FunctionDef, ast.AsyncFunctionDef))) or value[0] == "func")):
                raise AnalysisError(f"decorators of {fi.key} do not return a repository function ({T.show(value)[:80]}): not modelled")
            if value[0] == "lambda":
                if any(isinstance(x, tuple) and x and x[0] == "obj" for x in (value[4] or {}).values()):
                    raise AnalysisError(f"the function the decorators of {fi.key} return captures an object built at import time: not modelled")
                value = ("func", self.closure_function(value))
            memo[fi.key] = value
        target = memo[fi.key]
        a = fi.node.args
        if a.vararg or a.kwarg or a.kwonlyargs:
            raise AnalysisError(f"decorated function {fi.key} with star / keyword-only parameters: not modelled")
        args: List[Term] = []
        kwargs: Dict[str, Term] = {}
        for p_ in fi.params:
            if p_ in bound and not kwargs:
                args.append(bound[p_])
            elif p_ in bound:
                kwargs[p_] = bound[p_]
            else:
                kwargs["$gap"] = c(None)
        kwargs.pop("$gap", None)
        return self.call_user_forking(target, args, kwargs, st, ctx, fi.node, False)

    # -- class-level attributes ----------------------------------------------
    _MUTATORS = {"append", "extend", "insert", "pop", "remove", "clear", "update", "setdefault", "add", "discard", "popitem", "sort", "reverse", "__setitem__", "__delitem__"}

    def _class_attr_mutated(self, attr: str) -> Optional[str]:
        """Where some function of the package mutates `<expr>.attr` in place (item store / delete, mutator method, augmented assignment)."""
        memo = self.__dict__.setdefault("_mutated_memo", {})
        if attr in memo:
            return memo[attr]
        found = None
        for m in self.prog.all_modules(True):
            for fi in m.all_functions():
                for n in ast.walk(fi.node):
                    tg: List[ast.AST] = []
                    if isinstance(n, ast.Assign):
                        tg = [t for t in n.targets if isinstance(t, ast.Subscript)]
                    elif isinstance(n, ast.AugAssign):
                        tg = [n.target]
                    elif isinstance(n, ast.Delete):
                        tg = [t for t in n.targets if isinstance(t, ast.Subscript)]
                    for t in tg:
                        b = t.value if isinstance(t, ast.Subscript) else t
                        if isinstance(b, ast.Attribute) and b.attr == attr:
                            found = found or f"{m.relpath}:{n.lineno} {fi.qualname}"
                    if isinstance(n, ast.Call) and isinstance(n.func, ast.Attribute) and n.func.attr in self._MUTATORS and isinstance(n.func.value, ast.Attribute) and n.func.value.attr == attr:
                        found = found or f"{m.relpath}:{n.lineno} {fi.qualname}"
        memo[attr] = found
        return found

    def class_attr_value(self, ci: ClassInfo, attr: str, init: ast.AST, st: State, ctx: Ctx, node: ast.AST) -> Term:
        """Value of an attribute found on the class, not on the instance.  It is ONE object for all instances and all
        calls: a one-shot iterator there is drained by its first consumer, and a container mutated in place through
        instances is state shared by all of them (both are hazards, see terms.HAZARDS)."""
        key = (ci.key, attr)
        if key in st.class_objs:
            return st.class_objs[key]
        v = self.eval(init, st, Ctx(None, ci.module, ctx.depth))
        lazy = isinstance(v, tuple) and v and (v[0] in ("filterobj", "lazymap", "map", "zipobj", "enumobj", "revbytes") or (v[0] == "mapobj" and len(v) == 3) or (v[0] == "condlist" and len(v) == 3 and v[2] == "once")
                                              or (v[0] == "obj" and v[1] in st.heap and st.heap[v[1]].name.startswith(("gen:", "iter:"))))
        if lazy and ctx.fi is not None:
            T.HAZARDS[("ONESHOT", f"{ci.key}.{attr}")] = (f"class-level {ci.name}.{attr} = {ast.unparse(init)[:80]} is a one-shot iterator shared by every instance; {ctx.fi.qualname} consumes it: "
                                                         f"the first use drains it and every later use (of any instance) sees it empty")
            if v[0] == "obj":
                st.heap[v[1]].fields["$born"] = c(getattr(self, "cur_serial", None))
        if isinstance(v, tuple) and v and v[0] == "obj" and v[1] in st.heap and st.heap[v[1]].kind in ("list", "set", "dict"):
            ho = st.heap[v[1]]
            where_m = self._class_attr_mutated(attr)
            if where_m is not None:
                # content at the time of the call is whatever all instances have put there so far
                T.HAZARDS[("SHARED", f"{ci.key}.{attr}")] = (f"{ci.name}.{attr} is created once in the class body ({ast.unparse(init)[:60]}) and mutated in place at {where_m}: "
                                                            f"it is one container shared by every instance, so what one instance stores is seen by all others")
                ho.symbolic = True
                ho.items = []
            ho.name = f"{ci.name}.{attr}"
            ho.fresh = False
        st.class_objs[key] = v
        return v

    # -- memoised functions -------------------------------------------------
    # A cache decorator changes nothing observable when the function is a constant table: constant arguments (classes,
    # enum members, literals), no effect, one returning path whose value is built from constants only, and a result
    # nobody mutates or lets escape.  The first three are checked here; the result object is then marked "memo:" and
    # every mutation / escape of a marked object stops the analysis (frozen_guard).  Anything else keeps the hazard.
    def _const_like(self, v: Term, st: State, depth: int = 0) -> bool:
        if not isinstance(v, tuple) or not v or depth > 6:
            return False
        if v[0] in ("c", "enum", "class", "func", "builtin", "ext"):
            return True
        if v[0] == "seq":
            return all(isinstance(a, tuple) and a[:1] == ("L",) for a in v[2])    # literal text
        if v[0] == "tuple":
            return all(self._const_like(x, st, depth + 1) for x in v[1])
        if v[0] in ("clist", "cset"):
            return all(self._const_like(x, st, depth + 1) for x in v[1])
        if v[0] == "cdict":
            return all(self._const_like(k, st, depth + 1) and self._const_like(x, st, depth + 1) for k, x in v[1])
        if v[0] == "obj":
            ho = st.heap.get(v[1])
            if ho is None or ho.symbolic or ho.kind == "obj":
                return False
            if ho.kind == "dict":
                return all(self._const_like(k, st, depth + 1) and self._const_like(x, st, depth + 1) for k, x in ho.items)
            return all(self._const_like(x, st, depth + 1) for x in ho.items)
        return False

    def _const_like_args(self, bound: Dict[str, Term], st: State) -> bool:
        return all(v[0] in ("c", "enum", "class") or (v[0] == "tuple" and all(x[0] in ("c", "enum", "class") for x in v[1])) for v in bound.values())

    def _memo_is_constant_table(self, fi: FunctionInfo, results: List[Tuple[State, Any]], n_events: int) -> bool:
        if len(results) != 1:
            return False
        s, sig = results[0]
        if sig is None or sig[0] != "return" or s.pending:
            return False
        if any(not _benign_event(e, s) or e.kind == "store" for e in s.events[n_events:]):
            return False
        v = sig[1]
        if not self._const_like(v, s):
            return False
        if v[0] == "obj":
            s.heap[v[1]].name = "memo:" + fi.qualname
        return True

    def frozen_guard(self, v: Term, st: State, what: str, where: str) -> None:
        """Stop when the remembered result of a memoised function is mutated, or handed to code the analysis does not see."""
        if isinstance(v, tuple) and v and v[0] == "obj":
            ho = st.heap.get(v[1])
            if ho is not None and ho.name.startswith("memo:"):
                raise AnalysisError(f"the remembered result of the memoised {ho.name[5:]} is {what} at {where}: every later caller would see it (not modelled)")

    # ------------------------------------------------------------------
    # statements
    def exec_block(self, stmts: List[ast.stmt], st: State, ctx: Ctx) -> List[Tuple[State, Any]]:
        live: List[State] = [st]
        done: List[Tuple[State, Any]] = []
        for stmt in stmts:
            nxt: List[State] = []
            for s in live:
                for s2, sig in self.exec_stmt(stmt, s, ctx):
                    if sig is None:
                        nxt.append(s2)
                    else:
                        done.append((s2, sig))
            live = nxt
            self.paths = max(self.paths, len(live) + len(done))
            if len(live) + len(done) > self.max_paths:
                raise AnalysisError(f"path budget exceeded in {ctx.fi.key if ctx.fi else '?'}")
            if not live:
                break
        return done + [(s, None) for s in live]

    def _flush(self, st: State, ctx: Ctx, node: ast.AST) -> List[Tuple[State, Any]]:
        """Turn pending may-raise conditions into forked raising paths."""
        out: List[Tuple[State, Any]] = []
        pend = st.pending
        st.pending = []
        cur = st
        for exc, cond, where, nev in pend:
            if is_c(cond) and cond[1] is False:
                continue
            if decided_by(cur.pc, cond) is False:
                continue  # already excluded on this path (same guard raised earlier)
            if isinstance(cond, tuple) and len(cond) == 4 and cond[0] == "cmp" and cond[1] in ("<", "<=", ">", ">=", "==", "!=") and is_c(cond[3]) and isinstance(cond[3][1], int) and not isinstance(cond[3][1], bool):
                # interval reading of the guards (hull over disjunctions): len(m) in {159,165,168} excludes len(m) < 2
                from .frames import int_bounds_from_guard
                lo_, hi_ = int_bounds_from_guard(list(cur.pc), cond[2])
                k_ = cond[3][1]
                never = ((cond[1] == "<" and lo_ is not None and lo_ >= k_) or (cond[1] == "<=" and lo_ is not None and lo_ > k_)
                         or (cond[1] == ">" and hi_ is not None and hi_ <= k_) or (cond[1] == ">=" and hi_ is not None and hi_ < k_)
                         or (cond[1] == "==" and ((lo_ is not None and lo_ > k_) or (hi_ is not None and hi_ < k_))))
                if never:
                    continue
            r = cur.fork()
            del r.events[nev:]  # the operation raised before the later events happened
            r.pc.append(cond)
            self.__dict__.setdefault("raise_stacks", {}).setdefault(where, set()).add(ctx.where_stack)
            out.append((r, ("raise", ("exc", exc, (), where, None))))
            if is_c(cond) and cond[1] is True:
                return out  # always raises
            cur.pc.append(neg(cond))
        out.append((cur, None))
        return out

    def exec_stmt(self, node: ast.stmt, st: State, ctx: Ctx) -> List[Tuple[State, Any]]:
        self.steps += 1
        if self.steps > self.max_steps:
            raise AnalysisError(f"analysis budget exceeded ({self.max_steps} abstract statements) at {ctx.loc(node)}")
        if self.steps % 64 == 0:
            import time as _time
            from .frames import check_deadline
            check_deadline(f"at {ctx.loc(node)}")
            if _time.process_time() - self._t0 > self.max_seconds:
                raise AnalysisError(f"analysis budget exceeded ({int(self.max_seconds)} s in one interpreter: the guards grew too large to handle) at {ctx.loc(node)}")
        m = getattr(self, "st_" + type(node).__name__, None)
        if m is None:
            raise AnalysisError(f"unsupported statement {type(node).__name__} at {ctx.loc(node)}")
        self._serial = getattr(self, "_serial", 0) + 1
        prev_serial = getattr(self, "cur_serial", None)
        self.cur_serial = self._serial
        snap: Optional[State] = None
        if self._may_need_split(node) and not os.environ.get("SA_NOSNAP"):
            snap = st.fork()
        try:
            if isinstance(node, (ast.Return, ast.Assign, ast.Expr, ast.AnnAssign)) and getattr(node, "value", None) is not None:
                hoisted = self._hoist_nested_awaits(node)
                if hoisted is not None:
                    return self.exec_block(hoisted, st, ctx)
            return m(node, st, ctx)
        except Infeasible:
            return []
        except NeedSplit as ns:
            if snap is None or getattr(self, "_split_depth", 0) >= 12 or decided_by(snap.pc, ns.cond) is not None:
                raise AnalysisError(f"value-dependent selection at {ctx.loc(node)} needs a case split this statement is not prepared for")
            other = snap.fork()
            snap.pc.append(ns.cond)
            other.pc.append(neg(ns.cond))
            self._split_depth = getattr(self, "_split_depth", 0) + 1
            try:
                return self.exec_stmt(node, snap, ctx) + self.exec_stmt(node, other, ctx)
            finally:
                self._split_depth -= 1
        finally:
            self.cur_serial = prev_serial

    def _may_need_split(self, node: ast.stmt) -> bool:
        """Simple statements that contain a call are executed on a snapshot-backed state (see NeedSplit)."""
        r = getattr(node, "_sa_split", None)      # (on the node itself: ids of synthesised statements get reused)
        if r is None:
            if isinstance(node, (ast.For, ast.AsyncFor)):
                # (a loop over what a call returns: the call may need the split; re-running the whole loop under each case is the same program)
                r = any(isinstance(n, ast.Call) for n in ast.walk(node.iter))
                node._sa_split = r            # type: ignore[attr-defined]
                return r
            r = node._sa_split = (not isinstance(node, (ast.If, ast.For, ast.While, ast.With, ast.Try, ast.FunctionDef, ast.AsyncFunctionDef, ast.ClassDef, ast.AsyncFor, ast.AsyncWith, ast.Match, ast.Pass, ast.Break, ast.Continue, ast.Global, ast.Nonlocal, ast.Import, ast.ImportFrom))
                                  and any(isinstance(n, (ast.Call, ast.IfExp)) for n in ast.walk(node)))
        return r

    def _hoist_nested_awaits(self, node: Any) -> Optional[List[ast.stmt]]:
        """`return C(await f(x))` -> `$aw1 = await f(x); return C($aw1)`.  An awaited call nested inside the
        arguments of other calls is lifted to its own statement (so that it is inlined with forking and its
        effects are kept) when everything Python evaluates before it is a plain name / attribute / constant."""
        root = node.value
        if not any(isinstance(n, ast.Await) for n in ast.walk(root)) or isinstance(root, ast.Await):
            return None

        def simple(e: ast.AST) -> bool:
            return isinstance(e, (ast.Name, ast.Constant)) or (isinstance(e, ast.Attribute) and simple(e.value))

        def find(e: ast.AST) -> Optional[Tuple[ast.Call, int]]:
            # e is a Call whose func is simple; look for the first non-simple argument
            if not isinstance(e, ast.Call) or not simple(e.func) or e.keywords:
                return None
            for i, a in enumerate(e.args):
                if simple(a):
                    continue
                if isinstance(a, ast.Await) and isinstance(a.value, ast.Call):
                    return (e, i)
                return find(a)
            return None

        hit = find(root)
        if hit is None:
            return None
        call, i = hit
        self._comp_n = getattr(self, "_comp_n", 0) + 1
        tmp = f"$aw{self._comp_n}"
        aw = call.args[i]
        import copy as _copy
        new_node = _copy.deepcopy(node)
        # locate the same call in the copy by position
        target = None
        for n_old, n_new in zip(ast.walk(node), ast.walk(new_node)):
            if n_old is call:
                target = n_new
                break
        if target is None:
            return None
        target.args[i] = ast.copy_location(ast.Name(id=tmp, ctx=ast.Load()), aw)
        pre = ast.copy_location(ast.Assign(targets=[ast.Name(id=tmp, ctx=ast.Store())], value=aw), node)
        ast.fix_missing_locations(pre)
        ast.fix_missing_locations(new_node)
        return [pre, new_node]

    def st_Match(self, node: Any, st: State, ctx: Ctx) -> List[Tuple[State, Any]]:
        """`match subject:` over value / singleton / or / wildcard / capture / class-with-keyword patterns is the
        if/elif chain with the same tests in the same order; anything else (sequence, mapping, star patterns) is
        outside the vocabulary."""
        self._comp_n = getattr(self, "_comp_n", 0) + 1
        tmp = f"$match{self._comp_n}"
        subj = ast.Name(id=tmp, ctx=ast.Load())

        def test_of(p: Any, pre: List[ast.stmt]) -> ast.expr:
            if isinstance(p, ast.MatchValue):
                return ast.Compare(left=subj, ops=[ast.Eq()], comparators=[p.value])
            if isinstance(p, ast.MatchSingleton):
                return ast.Compare(left=subj, ops=[ast.Is()], comparators=[ast.Constant(value=p.value)])
            if isinstance(p, ast.MatchOr):
                return ast.BoolOp(op=ast.Or(), values=[test_of(q, pre) for q in p.patterns])
            if isinstance(p, ast.MatchAs) and p.pattern is None:
                if p.name is not None:
                    pre.append(ast.Assign(targets=[ast.Name(id=p.name, ctx=ast.Store())], value=subj))
                return ast.Constant(value=True)
            if isinstance(p, ast.MatchClass) and not p.patterns and all(isinstance(q, (ast.MatchValue, ast.MatchSingleton)) for q in p.kwd_patterns):
                tests: List[ast.expr] = [ast.Call(func=ast.Name(id="isinstance", ctx=ast.Load()), args=[subj, p.cls], keywords=[])]
                for a_, q in zip(p.kwd_attrs, p.kwd_patterns):
                    left = ast.Attribute(value=subj, attr=a_, ctx=ast.Load())
                    if isinstance(q, ast.MatchValue):
                        tests.append(ast.Compare(left=left, ops=[ast.Eq()], comparators=[q.value]))
                    else:
                        tests.append(ast.Compare(left=left, ops=[ast.Is()], comparators=[ast.Constant(value=q.value)]))
                return ast.BoolOp(op=ast.And(), values=tests) if len(tests) > 1 else tests[0]
            if isinstance(p, ast.MatchSequence):
                # [p0, p1, *rest, pk]: a list / tuple (not text) of matching length whose items match
                stars = [i for i, q in enumerate(p.patterns) if isinstance(q, ast.MatchStar)]
                if len(stars) > 1:
                    raise AnalysisError(f"unsupported match pattern (two stars) at {ctx.loc(node)}")
                n_fixed = len(p.patterns) - len(stars)
                L = ast.Load()
                tests2: List[ast.expr] = [ast.Call(func=ast.Name(id="isinstance", ctx=L), args=[subj, ast.Tuple(elts=[ast.Name(id="list", ctx=L), ast.Name(id="tuple", ctx=L)], ctx=L)], keywords=[]),
                                          ast.Compare(left=ast.Call(func=ast.Name(id="len", ctx=L), args=[subj], keywords=[]), ops=[ast.GtE() if stars else ast.Eq()], comparators=[ast.Constant(value=n_fixed)])]
                for i, q in enumerate(p.patterns):
                    if isinstance(q, ast.MatchStar):
                        if q.name is not None:
                            after = len(p.patterns) - i - 1
                            sl = ast.Slice(lower=ast.Constant(value=i), upper=(ast.UnaryOp(op=ast.USub(), operand=ast.Constant(value=after)) if after else None), step=None)
                            pre.append(ast.Assign(targets=[ast.Name(id=q.name, ctx=ast.Store())], value=ast.Subscript(value=subj, slice=sl, ctx=L)))
                        continue
                    idx = i if not stars or i < stars[0] else i - len(p.patterns)
                    item = ast.Subscript(value=subj, slice=ast.Constant(value=idx) if idx >= 0 else ast.UnaryOp(op=ast.USub(), operand=ast.Constant(value=-idx)), ctx=L)
                    if isinstance(q, ast.MatchAs) and q.pattern is None:
                        if q.name is not None:
                            pre.append(ast.Assign(targets=[ast.Name(id=q.name, ctx=ast.Store())], value=item))
                    elif isinstance(q, ast.MatchValue):
                        tests2.append(ast.Compare(left=item, ops=[ast.Eq()], comparators=[q.value]))
                    elif isinstance(q, ast.MatchSingleton):
                        tests2.append(ast.Compare(left=item, ops=[ast.Is()], comparators=[ast.Constant(value=q.value)]))
                    else:
                        raise AnalysisError(f"unsupported pattern {type(q).__name__} inside a sequence pattern at {ctx.loc(node)}")
                return ast.BoolOp(op=ast.And(), values=tests2)
            raise AnalysisError(f"unsupported match pattern {type(p).__name__} at {ctx.loc(node)}")

        def build(i: int) -> List[ast.stmt]:
            if i == len(node.cases):
                return []
            case = node.cases[i]
            pre: List[ast.stmt] = []
            t = test_of(case.pattern, pre)
            rest = build(i + 1)
            if case.guard is None:
                return [ast.If(test=t, body=pre + list(case.body), orelse=rest)]
            if not pre:
                return [ast.If(test=ast.BoolOp(op=ast.And(), values=[t, case.guard]), body=list(case.body), orelse=rest)]
            # a capture is bound before its guard is evaluated (and stays bound when the guard fails)
            inner = ast.If(test=case.guard, body=list(case.body), orelse=rest)
            if isinstance(t, ast.Constant) and t.value is True:
                return pre + [inner]
            return [ast.If(test=t, body=pre + [inner], orelse=rest)]

        stmts: List[ast.stmt] = [ast.Assign(targets=[ast.Name(id=tmp, ctx=ast.Store())], value=node.subject)]
        stmts.extend(build(0))
        for s_ in stmts:
            if not hasattr(s_, "lineno"):
                ast.copy_location(s_, node)
            ast.fix_missing_locations(s_)
        return self.exec_block(stmts, st, ctx)

    def st_Pass(self, node: ast.Pass, st: State, ctx: Ctx) -> List[Tuple[State, Any]]:
        return [(st, None)]

    def st_Global(self, node: ast.Global, st: State, ctx: Ctx) -> List[Tuple[State, Any]]:
        st.events.append(Event("global", ",".join(node.names), (), (), ctx.loc(node), ctx.fi.key if ctx.fi else ""))
        return [(st, None)]

    st_Nonlocal = st_Global

    def st_Expr(self, node: ast.Expr, st: State, ctx: Ctx) -> List[Tuple[State, Any]]:
        if isinstance(node.value, ast.Constant):
            return [(st, None)]
        if isinstance(node.value, (ast.Yield, ast.YieldFrom)):
            return self._yield_stmt(node.value, st, ctx)
        out = []
        for s, v, sig in self.eval_forking(node.value, st, ctx):
            out.append((s, sig))
        return out

    def _yield_stmt(self, y: ast.AST, st: State, ctx: Ctx) -> List[Tuple[State, Any]]:
        """`yield v` / `yield from xs` as a statement (the value sent back is not used)."""
        if ctx.cm is not None:
            if isinstance(y, ast.YieldFrom):
                raise AnalysisError(f"yield from in a generator context manager at {ctx.loc(y)}")
            out: List[Tuple[State, Any]] = []
            if y.value is None:
                for s, sig in self._flush(st, ctx, y):
                    if sig is not None:
                        out.append((s, sig))
                    else:
                        out.extend(ctx.cm(s, c(None)))
                return out
            # the yielded expression stands at statement level: repository calls in it fork the path (as in `return f(x)`)
            for s, v, sig in self.eval_forking(y.value, st, ctx):
                if sig is not None:
                    out.append((s, sig))
                else:
                    out.extend(ctx.cm(s, v))
            return out
        g = st.env.get("$gen")
        if g is None:
            raise AnalysisError(f"yield outside a modelled generator at {ctx.loc(y)}")
        if isinstance(y, ast.YieldFrom):
            yv = self.eval(y.value, st, ctx)
            items = self.iter_items(yv, st, ctx, y)
            if items is None:
                raise AnalysisError(f"yield from an iterable of unknown length at {ctx.loc(y)}")
            st.heap[g[1]].items.extend(items)
        else:
            yv = self.eval(y.value, st, ctx) if y.value is not None else c(None)    # (first: a nested call may replace the heap entry)
            st.heap[g[1]].items.append(yv)
        return self._flush(st, ctx, y)

    def st_Return(self, node: ast.Return, st: State, ctx: Ctx) -> List[Tuple[State, Any]]:
        if node.value is None:
            return [(st, ("return", c(None)))]
        self._cur = (st, ctx)
        des = self._desugar_comp(node)
        if des is not None:
            return self.exec_block(des, st, ctx)
        out = []
        for s, v, sig in self.eval_forking(node.value, st, ctx):
            if sig is not None:
                out.append((s, sig))
            elif ctx.depth == 1 and isinstance(v, tuple) and (v[:1] == ("ite",) or (v[:1] == ("seq",) and len(v) == 3 and len(v[2]) == 1 and isinstance(v[2][0], tuple) and v[2][0][:1] == ("alt",))):
                # the analysed function returns `f(a if c else b)`: one returning path per choice, as for `if c: return f(a)`
                for s2, v2 in self.split_value(v, s, ctx, any_cond=True):
                    out.append((s2, ("return", v2)))
            else:
                out.append((s, ("return", v)))
        return out

    def st_Raise(self, node: ast.Raise, st: State, ctx: Ctx) -> List[Tuple[State, Any]]:
        if node.exc is None:
            cur = st.env.get("$exc")
            if cur is None:
                raise AnalysisError(f"bare raise outside handler at {ctx.loc(node)}")
            return [(st, ("raise", cur))]
        out = []
        for s, v, sig in self.eval_forking(node.exc, st, ctx):
            if sig is not None:
                out.append((s, sig))
                continue
            cause = None
            if node.cause is not None:
                cause = self.eval(node.cause, s, ctx)
            ev = self._as_exc(v, ctx.loc(node), cause)
            self.__dict__.setdefault("raise_stacks", {}).setdefault(ctx.loc(node), set()).add(ctx.where_stack)
            out.append((s, ("raise", ev)))
        return out

    def _as_exc(self, v: Term, where: str, cause: Any) -> Term:
        if isinstance(v, tuple) and v and v[0] == "exc":
            return ("exc", v[1], v[2], where, cause if cause is not None else v[4])
        if isinstance(v, tuple) and v and v[0] in ("ext", "builtin"):
            return ("exc", v[1].split("builtins.")[-1], (), where, cause)
        return ("exc", "Exception", (v,), where, cause)

    def _desugar_comp(self, node: Any) -> Optional[List[ast.stmt]]:
        """`x = {k: await f(k) for k in it}` / `return {d for d in it if p(d)}` (or list/dict) -> explicit loop,
        so that awaited calls and element filters fork properly (statement-level forking)."""
        v = node.value
        cur0 = getattr(self, "_cur", None)
        if (isinstance(v, ast.Call) and isinstance(v.func, ast.Name) and v.func.id in ("set", "list") and len(v.args) == 1 and not v.keywords
                and cur0 is not None and v.func.id not in cur0[0].env and self.prog.resolve_name(cur0[1].module, v.func.id) is None):
            # set(<generator expression>) / list(map(f, xs)): the comprehension of the same kind
            a0 = v.args[0]
            kind = ast.SetComp if v.func.id == "set" else ast.ListComp
            if isinstance(a0, ast.GeneratorExp):
                v = ast.copy_location(kind(elt=a0.elt, generators=a0.generators), v)
            elif (isinstance(a0, ast.Call) and isinstance(a0.func, ast.Name) and a0.func.id == "map" and len(a0.args) == 2 and not a0.keywords and not isinstance(a0.args[1], ast.Starred)
                  and "map" not in cur0[0].env and self.prog.resolve_name(cur0[1].module, "map") is None and isinstance(a0.args[0], (ast.Name, ast.Attribute))):
                self._comp_n = getattr(self, "_comp_n", 0) + 1
                tv = f"$m{self._comp_n}"
                elt = ast.Call(func=a0.args[0], args=[ast.Name(id=tv, ctx=ast.Load())], keywords=[])
                v = ast.copy_location(kind(elt=elt, generators=[ast.comprehension(target=ast.Name(id=tv, ctx=ast.Store()), iter=a0.args[1], ifs=[], is_async=0)]), v)
                ast.fix_missing_locations(v)
        if not isinstance(v, (ast.DictComp, ast.ListComp, ast.SetComp)) or len(v.generators) != 1:
            return None
        g = v.generators[0]
        has_await = any(isinstance(n, ast.Await) for n in ast.walk(v))
        cur = getattr(self, "_cur", None)
        builds = cur is not None and not isinstance(v, ast.DictComp) and self._elt_needs_loop(v.elt, g, cur[1])
        if not has_await and not builds and not g.ifs:
            return None
        if not has_await and not builds and not self._concrete_iter_hint(g.iter):
            return None
        self._comp_n = getattr(self, "_comp_n", 0) + 1
        tmp = f"$comp{self._comp_n}"
        if isinstance(v, ast.DictComp):
            init: ast.expr = ast.Dict(keys=[], values=[])
            body: ast.stmt = ast.Assign(targets=[ast.Subscript(value=ast.Name(id=tmp, ctx=ast.Load()), slice=v.key, ctx=ast.Store())], value=v.value)
        elif isinstance(v, ast.ListComp):
            init = ast.List(elts=[], ctx=ast.Load())
            body = ast.Expr(value=ast.Call(func=ast.Attribute(value=ast.Name(id=tmp, ctx=ast.Load()), attr="append", ctx=ast.Load()), args=[v.elt], keywords=[]))
        else:
            init = ast.Call(func=ast.Name(id="set", ctx=ast.Load()), args=[], keywords=[])
            body = ast.Expr(value=ast.Call(func=ast.Attribute(value=ast.Name(id=tmp, ctx=ast.Load()), attr="add", ctx=ast.Load()), args=[v.elt], keywords=[]))
        for cond in reversed(g.ifs):
            body = ast.If(test=cond, body=[body], orelse=[])
        stmts: List[ast.stmt] = [
            ast.Assign(targets=[ast.Name(id=tmp, ctx=ast.Store())], value=init),
            ast.For(target=g.target, iter=g.iter, body=[body], orelse=[]),
            (ast.Return(value=ast.Name(id=tmp, ctx=ast.Load())) if isinstance(node, ast.Return) else
             ast.Assign(targets=node.targets, value=ast.Name(id=tmp, ctx=ast.Load()))),
        ]
        for s_ in stmts:
            ast.copy_location(s_, node)
            ast.fix_missing_locations(s_)
        return stmts

    def _elt_needs_loop(self, elt: ast.AST, g: ast.comprehension, ctx: Ctx) -> bool:
        tname = g.target.id if isinstance(g.target, ast.Name) else None
        for n in ast.walk(elt):
            if not isinstance(n, ast.Call):
                continue
            f = n.func
            if isinstance(f, ast.Attribute) and isinstance(f.value, ast.Name) and f.value.id == tname and f.attr not in ("upper", "lower", "decode", "encode", "hex", "strip", "rstrip", "lstrip", "format"):
                return True
            if isinstance(f, (ast.Name, ast.Attribute)):
                try:
                    r = self.prog.resolve_expr(ctx.module, f)
                except Exception:  # noqa: BLE001
                    r = None
                if r and r[0] in ("class", "func") and not (r[0] == "class" and r[1].enum is not None):
                    return True
        return False

    def _concrete_iter_hint(self, it: ast.expr) -> bool:
        """Filtered comprehension: unroll into a loop only over an enum class / literal / range (concrete items);
        over a symbolic collection the expression form map(e, filter(p, xs)) is kept instead."""
        cur = getattr(self, "_cur", None)
        if isinstance(it, (ast.Tuple, ast.List)):
            return True
        if isinstance(it, ast.Call) and isinstance(it.func, ast.Name) and it.func.id == "range":
            return True
        if isinstance(it, (ast.Name, ast.Attribute)) and cur is not None:
            st, ctx = cur
            if isinstance(it, ast.Name) and it.id in st.env:
                return self.iter_items(st.env[it.id], st, ctx, it) is not None
            try:
                r = self.prog.resolve_expr(ctx.module, it)
            except Exception:  # noqa: BLE001
                r = None
            return bool(r and r[0] == "class" and r[1].enum is not None)
        return False

    def split_value(self, v: Term, s: State, ctx: Ctx, any_cond: bool = False) -> List[Tuple[State, Term]]:
        """A value that is a two-way choice on a condition the path has not decided (`a or b`, a conditional expression
        evaluated inside a comprehension / argument list, ...) - also as an item of a tuple - forks the path on that
        condition, as the same choice written as a statement would.  Only in the analysed entry function (depth <= 1)."""
        if ctx.depth > 1:
            return [(s, v)]

        def as_ite(x: Term) -> Term:
            # a text that is one conditional alternative is the conditional of the two texts
            if isinstance(x, tuple) and len(x) == 3 and x[0] == "seq" and len(x[2]) == 1 and isinstance(x[2][0], tuple) and len(x[2][0]) == 4 and x[2][0][0] == "alt":
                return ("ite", x[2][0][1], x[2][0][2], x[2][0][3])
            return x

        def resolve(x: Term, s1: State) -> Term:
            for _ in range(8):
                x = as_ite(x)
                if isinstance(x, tuple) and len(x) == 4 and x[0] == "ite":
                    d = decided_by(s1.pc, x[1]) if not is_c(x[1]) else bool(x[1][1])
                    if d is None:
                        return x
                    x = x[2] if d else x[3]
                else:
                    break
            if isinstance(x, tuple) and x[:1] == ("tuple",):
                return ("tuple", tuple(resolve(y, s1) for y in x[1])) + tuple(x[2:])
            return x

        def on_argument(cnd: Term) -> bool:
            # the truth of / a comparison with a constant of a plain argument symbol (not of anything read from the environment)
            def arg_sym(t: Any) -> bool:
                return isinstance(t, tuple) and len(t) == 3 and t[0] == "sym" and isinstance(t[1], str) and "#" not in t[1] and ":" not in t[1] and "." not in t[1] and "[" not in t[1]
            if isinstance(cnd, tuple) and cnd[:1] == ("not",) and len(cnd) == 2:
                return on_argument(cnd[1])
            if isinstance(cnd, tuple) and cnd[:1] == ("truthy",) and len(cnd) == 2:
                return arg_sym(cnd[1])
            if isinstance(cnd, tuple) and cnd[:1] == ("cmp",) and len(cnd) == 4:
                return arg_sym(cnd[2]) and is_c(cnd[3])
            return False

        def first_cond(x: Term) -> Optional[Term]:
            x = as_ite(x)
            if isinstance(x, tuple) and len(x) == 4 and x[0] == "ite" and _is_cond(x[1]) and (any_cond or on_argument(x[1])):
                return x[1]
            if isinstance(x, tuple) and x[:1] == ("tuple",):
                for y in x[1]:
                    r = first_cond(y)
                    if r is not None:
                        return r
            return None

        work = [(s, v)]
        for _round in range(10):
            nxt: List[Tuple[State, Term]] = []
            changed = False
            for s1, v1 in work:
                v1 = resolve(v1, s1)
                cnd = first_cond(v1)
                if cnd is None:
                    nxt.append((s1, v1))
                    continue
                s2 = s1.fork()
                s1.pc.append(cnd)
                s2.pc.append(neg(cnd))
                nxt.extend([(s1, v1), (s2, v1)])
                changed = True
            work = nxt
            if not changed:
                break
            if len(work) > 256:
                raise AnalysisError(f"too many value-level case splits at {ctx.fi.key if ctx.fi else '?'}")
        return [(s1, resolve(v1, s1)) for s1, v1 in work]

    def st_Assign(self, node: ast.Assign, st: State, ctx: Ctx) -> List[Tuple[State, Any]]:
        self._cur = (st, ctx)
        des = self._desugar_comp(node)
        if des is not None:
            return self.exec_block(des, st, ctx)
        out = []
        for s0, v0, sig in self.eval_forking(node.value, st, ctx):
            if sig is not None:
                out.append((s0, sig))
                continue
            for s, v in self.split_value(v0, s0, ctx):
                for tgt in node.targets:
                    self.assign(tgt, v, s, ctx)
                out.extend(self._flush(s, ctx, node))
        return out

    def st_AnnAssign(self, node: ast.AnnAssign, st: State, ctx: Ctx) -> List[Tuple[State, Any]]:
        if node.value is None:
            return [(st, None)]
        out = []
        for s, v, sig in self.eval_forking(node.value, st, ctx):
            if sig is not None:
                out.append((s, sig))
                continue
            self.assign(node.target, v, s, ctx)
            out.extend(self._flush(s, ctx, node))
        return out

    def st_AugAssign(self, node: ast.AugAssign, st: State, ctx: Ctx) -> List[Tuple[State, Any]]:
        load = ast.copy_location(_as_load(node.target), node)
        cur = self.eval(load, st, ctx)
        self.frozen_guard(cur, st, "the target of an augmented assignment", ctx.loc(node))
        rhs = self.eval(node.value, st, ctx)
        if isinstance(node.op, ast.Add) and cur[0] == "obj" and st.heap[cur[1]].kind == "list" and not st.heap[cur[1]].symbolic and not st.heap[cur[1]].name.startswith(("gen:", "iter:")):
            more = self.iter_items(rhs, st, ctx, node)
            if more is not None:
                st.heap[cur[1]].items.extend(more)       # list += iterable extends the list in place (aliases see it)
                return self._flush(st, ctx, node)
        if isinstance(node.op, ast.Add) and cur[0] == "obj" and st.heap[cur[1]].name == "bytearray":
            # bytearray += bytes extends the buffer in place (aliases see it)
            self.lib.call_method(self, cur, "extend", [rhs], {}, st, ctx, node, False)
            return self._flush(st, ctx, node)
        v = self.binop(node.op, cur, rhs, st, ctx, node)
        self.assign(node.target, v, st, ctx)
        return self._flush(st, ctx, node)

    def assign(self, tgt: ast.AST, v: Term, st: State, ctx: Ctx) -> None:
        if isinstance(tgt, ast.Name):
            st.env[tgt.id] = v
        elif isinstance(tgt, (ast.Tuple, ast.List)) and any(isinstance(e, ast.Starred) for e in tgt.elts):
            # a, *rest, z = value
            k = next(i for i, e in enumerate(tgt.elts) if isinstance(e, ast.Starred))
            before, star, after = tgt.elts[:k], tgt.elts[k], tgt.elts[k + 1:]
            items = self.iter_items(v, st, ctx, tgt)
            if items is not None:
                if len(items) < len(before) + len(after):
                    st.may_raise("ValueError", c(True), ctx.loc(tgt))
                    items = items + [top("never: bad unpack")] * (len(before) + len(after) - len(items))
                for t, x in zip(before, items):
                    self.assign(t, x, st, ctx)
                mid = items[len(before):len(items) - len(after)]
                self.assign(star.value, st.alloc(HeapObj("list", None, {}, list(mid))), st, ctx)
                for t, x in zip(after, items[len(items) - len(after):]):
                    self.assign(t, x, st, ctx)
            elif isinstance(v, tuple) and v and v[0] == "splitlist" and not after:
                # head, *rest = s.split(sep): split never returns an empty list
                if len(before) > 1:
                    st.may_raise("ValueError", ("cmp", "<", ("nparts", v), c(len(before))), ctx.loc(tgt))
                for i, t in enumerate(before):
                    self.assign(t, ("seq", "s", (("txt", ("part", v, i)),)), st, ctx)
                self.assign(star.value, ("splitrest", v, len(before)), st, ctx)
            else:
                raise AnalysisError(f"starred assignment of a value of unknown length at {ctx.loc(tgt)}")
        elif isinstance(tgt, (ast.Tuple, ast.List)):
            items = self.unpack(v, len(tgt.elts), st, ctx, tgt)
            for t, x in zip(tgt.elts, items):
                self.assign(t, x, st, ctx)
        elif isinstance(tgt, ast.Attribute):
            base = self.eval(tgt.value, st, ctx)
            self.store_attr(base, tgt.attr, v, st, ctx, tgt)
        elif isinstance(tgt, ast.Subscript):
            base = self.eval(tgt.value, st, ctx)
            idx = self.eval(tgt.slice, st, ctx)
            self.store_item(base, idx, v, st, ctx, tgt)
        else:
            raise AnalysisError(f"unsupported assignment target at {ctx.loc(tgt)}")

    def unpack(self, v: Term, n: int, st: State, ctx: Ctx, node: ast.AST) -> List[Term]:
        if isinstance(v, tuple) and v and v[0] == "tuple":
            if len(v[1]) != n:
                st.may_raise("ValueError", c(True), ctx.loc(node))
                return [top("never: bad unpack")] * n
            return list(v[1])
        if isinstance(v, tuple) and v and v[0] == "obj" and st.heap[v[1]].kind == "list":
            items = st.heap[v[1]].items
            if len(items) == n:
                return list(items)
        if isinstance(v, tuple) and v and v[0] == "splitlist":
            # unpacking a str.split() result into n names: ValueError unless exactly n parts
            st.may_raise("ValueError", ("cmp", "!=", ("nparts", v), c(n)), ctx.loc(node))
            return [("seq", "s", (("txt", ("part", v, i, n)),)) for i in range(n)]
        if isinstance(v, tuple) and v and v[0] in ("mapobj", "lazymap", "clist", "cset", "cdict", "lookup", "obj", "seq", "app"):
            its = self.iter_items(v, st, ctx, node)
            if its is not None:
                if len(its) != n:
                    st.may_raise("ValueError", c(True), ctx.loc(node))
                    return [top("never: bad unpack")] * n
                return list(its)
        return [("item", v, c(i)) for i in range(n)]

    def store_attr(self, base: Term, attr: str, v: Term, st: State, ctx: Ctx, node: ast.AST) -> None:
        self.frozen_guard(v, st, "stored in an attribute", ctx.loc(node))
        desc = self.describe(base, st)
        st.events.append(Event("store", f"{desc}.{attr}", (v,), (), ctx.loc(node), ctx.fi.key if ctx.fi else "", result=base, pc_len=len(st.pc)))
        if base[0] == "obj":
            st.heap[base[1]].fields[attr] = v
            return
        if base[0] == "class" and getattr(self, "_class_replay", None) is not None:
            self._class_replay[(base[1].key, attr)] = v
            return
        # store on something we do not model: recorded as event only

    def store_item(self, base: Term, idx: Term, v: Term, st: State, ctx: Ctx, node: ast.AST) -> None:
        self.frozen_guard(base, st, "assigned into", ctx.loc(node))
        self.frozen_guard(v, st, "stored in a container", ctx.loc(node))
        desc = self.describe(base, st)
        st.events.append(Event("storeitem", desc, (idx, v), (), ctx.loc(node), ctx.fi.key if ctx.fi else "", result=base, pc_len=len(st.pc)))
        if base[0] == "obj":
            ho = st.heap[base[1]]
            if ho.kind == "dict":
                ho.items = [(k, x) for (k, x) in ho.items if k != idx] + [(idx, v)]
                return
            if ho.kind == "obj" and ho.symbolic:
                return

    def describe(self, base: Term, st: State) -> str:
        if base[0] == "obj":
            ho = st.heap[base[1]]
            if ho.name:
                return ho.name
            return f"<{ho.cls.name if ho.cls else ho.kind}>"
        return T.show(base)

    # -- control flow
    def st_If(self, node: ast.If, st: State, ctx: Ctx) -> List[Tuple[State, Any]]:
        out: List[Tuple[State, Any]] = []
        # (remembered on the node itself: statements synthesised for `match` are short-lived, their ids get reused)
        flag = getattr(node, "_sa_if_split", None)
        if flag is None:
            flag = any(isinstance(n, ast.BoolOp) for n in ast.walk(node.test)) and any(isinstance(n, ast.Call) for n in ast.walk(node.test))
            node._sa_if_split = flag          # type: ignore[attr-defined]
        snap = st.fork() if flag else None
        try:
            forks = self.cond_forking(node.test, st, ctx)
        except NeedSplit as ns:
            # an operand of `and` / `or` in the test does something observable: one run per outcome of the operands before it
            if snap is None or getattr(self, "_split_depth", 0) >= 12 or decided_by(snap.pc, ns.cond) is not None:
                raise AnalysisError(f"value-dependent selection at {ctx.loc(node)} needs a case split this statement is not prepared for")
            other = snap.fork()
            snap.pc.append(ns.cond)
            other.pc.append(neg(ns.cond))
            self._split_depth = getattr(self, "_split_depth", 0) + 1
            try:
                return self.st_If(node, snap, ctx) + self.st_If(node, other, ctx)
            finally:
                self._split_depth -= 1
        for s, cond, sig in forks:
            if sig is not None:
                out.append((s, sig))
                continue
            if not is_c(cond):
                d = decided_by(s.pc, cond)
                if d is not None:
                    cond = c(d)
            if is_c(cond):
                out.extend(self.exec_block(node.body if cond[1] else node.orelse, s, ctx))
                continue
            s_true = s
            s_false = s.fork()
            s_true.pc.append(cond)
            s_false.pc.append(neg(cond))
            out.extend(self.exec_block(node.body, s_true, ctx))
            out.extend(self.exec_block(node.orelse, s_false, ctx))
        return out

    def cond_forking(self, test: ast.AST, st: State, ctx: Ctx) -> List[Tuple[State, Term, Any]]:
        out = []
        v = self.eval(test, st, ctx)
        cond = self.truth(v, st)
        for s, sig in self._flush(st, ctx, test):
            out.append((s, cond, sig))
        return out

    def _while_reads_chunks(self, node: ast.While, st: State, ctx: Ctx) -> Optional[List[Tuple[State, Any]]]:
        """`while chunk := stream.read(n): body` over an in-memory stream at a known position, where the body neither
        touches the stream nor breaks, is `for chunk in <consecutive n-chunks of the rest of the buffer>: body`."""
        t = node.test
        if not (isinstance(t, ast.NamedExpr) and isinstance(t.target, ast.Name) and isinstance(t.value, ast.Call)):
            return None
        call_ = t.value
        if (isinstance(call_.func, ast.Attribute) and call_.func.attr == "read" and isinstance(call_.func.value, ast.Name) and len(call_.args) == 1 and not call_.keywords):
            rname, n_node, want = call_.func.value.id, call_.args[0], "bytesio"
        elif (isinstance(call_.func, ast.Name) and call_.func.id == "bytes" and len(call_.args) == 1 and not call_.keywords and isinstance(call_.args[0], ast.Call)
              and len(call_.args[0].args) == 2 and not call_.args[0].keywords and isinstance(call_.args[0].args[0], ast.Name)
              and self.eval(call_.func, st, ctx) == ("builtin", "bytes") and self.eval(call_.args[0].func, st, ctx) == ("ext", "itertools.islice")):
            # `while chunk := bytes(islice(it, n))` over an iterator of a byte string: the same consecutive n-chunks
            rname, n_node, want = call_.args[0].args[0].id, call_.args[0].args[1], "byteiter"
        else:
            return None
        rv = st.env.get(rname)
        if not (isinstance(rv, tuple) and rv[0] == "obj" and st.heap[rv[1]].name == want):
            return None
        n = self.eval(n_node, st, ctx)
        ho = st.heap[rv[1]]
        pos = ho.fields["pos"]
        if not (is_c(n) and isinstance(n[1], int) and not isinstance(n[1], bool) and n[1] > 0 and is_c(pos) and isinstance(pos[1], int)):
            return None
        for b in _walk_own(node.body + node.orelse):
            if isinstance(b, ast.Break) or (isinstance(b, ast.Name) and b.id == rname):
                return None
        buf = ho.fields["buf"]
        rest = buf if pos[1] == 0 else self.lib.slice_value(self, buf, pos, None, st, ctx, node)
        seq = T.to_seq(rest)
        if seq is None or is_top(rest):
            return None
        st.env["$chunks"] = ("chunks", seq, n[1])
        loop = ast.copy_location(ast.For(target=ast.Name(id=t.target.id, ctx=ast.Store()), iter=ast.Name(id="$chunks", ctx=ast.Load()), body=node.body, orelse=node.orelse, type_comment=None), node)
        ast.fix_missing_locations(loop)
        out: List[Tuple[State, Any]] = []
        for s, sig in self.st_For(loop, st, ctx):
            s.env.pop("$chunks", None)
            if sig is None:
                s.env[t.target.id] = c(b"" if seq[1] in ("b", "raw") else "")
                s.heap[rv[1]].fields["pos"] = self.lib.length(self, buf, s, ctx, node)   # at the end of the buffer
            out.append((s, sig))
        return out

    def _while_iterates_bits(self, node: ast.While, st: State, ctx: Ctx) -> Optional[List[ast.stmt]]:
        """The lowest-set-bit walk
               while r:  b = r & -r;  <body using b, not r>;  r ^= b        (or r -= b, r &= r - 1)
        over a bounded non-negative r visits the set bits of r in ascending order, which is
               for $bit in (1, 2, 4, ...):  if r0 & $bit:  b = $bit; <body>
               r = 0
        (two's complement: r & -r is the lowest set bit of r > 0; clearing it strictly decreases r, so the loop ends)."""
        t = node.test
        if isinstance(t, ast.Compare) and len(t.ops) == 1 and isinstance(t.ops[0], (ast.NotEq, ast.Gt)) and isinstance(t.comparators[0], ast.Constant) and t.comparators[0].value == 0 and type(t.comparators[0].value) is int:
            t = t.left
        if not isinstance(t, ast.Name) or node.orelse or len(node.body) < 2:
            return None
        r = t.id
        first, last, mid = node.body[0], node.body[-1], node.body[1:-1]

        def is_r(e: ast.AST) -> bool:
            return isinstance(e, ast.Name) and e.id == r

        def is_neg_r(e: ast.AST) -> bool:
            return isinstance(e, ast.UnaryOp) and isinstance(e.op, ast.USub) and is_r(e.operand)

        if not (isinstance(first, ast.Assign) and len(first.targets) == 1 and isinstance(first.targets[0], ast.Name) and isinstance(first.value, ast.BinOp) and isinstance(first.value.op, ast.BitAnd)
                and ((is_r(first.value.left) and is_neg_r(first.value.right)) or (is_neg_r(first.value.left) and is_r(first.value.right)))):
            return None
        b = first.targets[0].id
        if b == r:
            return None

        def is_b(e: ast.AST) -> bool:
            return isinstance(e, ast.Name) and e.id == b

        def is_r_minus_1(e: ast.AST) -> bool:
            return isinstance(e, ast.BinOp) and isinstance(e.op, ast.Sub) and is_r(e.left) and isinstance(e.right, ast.Constant) and e.right.value == 1 and type(e.right.value) is int

        def clears(op: ast.operator, rhs: ast.AST) -> bool:
            return (isinstance(op, (ast.BitXor, ast.Sub)) and is_b(rhs)) or (isinstance(op, ast.BitAnd) and is_r_minus_1(rhs))

        ok_last = False
        if isinstance(last, ast.AugAssign) and is_r(last.target):
            ok_last = clears(last.op, last.value)
        elif isinstance(last, ast.Assign) and len(last.targets) == 1 and is_r(last.targets[0]) and isinstance(last.value, ast.BinOp) and is_r(last.value.left):
            ok_last = clears(last.value.op, last.value.right)
        if not ok_last:
            return None
        for n in _walk_own(mid):
            if isinstance(n, (ast.Break, ast.Continue, ast.Return)) or (isinstance(n, ast.Name) and n.id == r) or (isinstance(n, ast.Name) and n.id == b and isinstance(n.ctx, (ast.Store, ast.Del))):
                return None
        r0 = st.env.get(r)
        if r0 is None or not self.lib.is_int_term(r0):
            return None
        rng = T.int_range(r0)
        if rng is None or rng[0] is None or rng[0] < 0 or rng[1] is None or rng[1] >= 1 << 16:
            return None
        bits = [1 << i for i in range(int(rng[1]).bit_length())]
        if r0[0] == "app" and r0[1] == "and" and len(r0) == 4:
            for x in r0[2:]:
                if is_c(x) and isinstance(x[1], int) and not isinstance(x[1], bool) and x[1] >= 0:
                    bits = [k for k in bits if k & x[1]]
        st.env["$r0"] = r0
        L = ast.Load()
        body: List[ast.stmt] = [ast.Assign(targets=[ast.Name(id=b, ctx=ast.Store())], value=ast.Name(id="$bit", ctx=L), type_comment=None)] + list(mid)
        test = ast.BinOp(left=ast.Name(id="$r0", ctx=L), op=ast.BitAnd(), right=ast.Name(id="$bit", ctx=L))
        loop = ast.For(target=ast.Name(id="$bit", ctx=ast.Store()), iter=ast.Tuple(elts=[ast.Constant(value=k) for k in bits], ctx=L), body=[ast.If(test=test, body=body, orelse=[])], orelse=[], type_comment=None)
        done = ast.Assign(targets=[ast.Name(id=r, ctx=ast.Store())], value=ast.Constant(value=0), type_comment=None)
        out = [ast.copy_location(loop, node), ast.copy_location(done, node)]
        for x in out:
            ast.fix_missing_locations(x)
        return out

    def st_While(self, node: ast.While, st: State, ctx: Ctx) -> List[Tuple[State, Any]]:
        des = self._while_reads_chunks(node, st, ctx)
        if des is not None:
            return des
        bits = self._while_iterates_bits(node, st, ctx)
        if bits is not None:
            return self.exec_block(bits, st, ctx)
        out: List[Tuple[State, Any]] = []
        live = [st]
        for it in range(12):
            nxt: List[State] = []
            for s0 in live:
                for s, cond, sig in self.cond_forking(node.test, s0, ctx):
                    if sig is not None:
                        out.append((s, sig))
                        continue
                    if not is_c(cond):
                        d = decided_by(s.pc, cond)
                        if d is not None:
                            cond = c(d)
                    if is_c(cond) and not cond[1]:
                        out.extend(self.exec_block(node.orelse, s, ctx) if node.orelse else [(s, None)])
                        continue
                    if not is_c(cond):
                        sf = s.fork()
                        sf.pc.append(neg(cond))
                        out.extend(self.exec_block(node.orelse, sf, ctx) if node.orelse else [(sf, None)])
                        s.pc.append(cond)
                    for s2, sig2 in self.exec_block(node.body, s, ctx):
                        if sig2 is None or sig2[0] == "continue":
                            nxt.append(s2)
                        elif sig2[0] == "break":
                            out.append((s2, None))
                        else:
                            out.append((s2, sig2))
            live = nxt
            if not live:
                return out
        raise AnalysisError(f"while loop does not terminate within the unrolling bound at {ctx.loc(node)}")

    def _iter_root(self, itv: Term) -> Term:
        while isinstance(itv, tuple) and itv:
            if itv[0] == "lazymap":
                itv = itv[2]
            elif itv[:2] in (("app", "builtins.zip"), ("app", "zip")) and len(itv) >= 3 and len({self._iter_root(x) for x in itv[2:]}) == 1:
                itv = itv[2]        # zip of iterables that all draw from one collection: as long as that collection
            else:
                break
        return itv

    def _iter_elem(self, itv: Term, k: int, s1: State, ctx: Ctx, node: ast.AST) -> Term:
        """k-th element (k = 0, 1, ...) of a symbolic iterable."""
        if itv[0] == "lazymap":
            inner = self._iter_elem(itv[2], k, s1, ctx, node)
            return self.call(itv[1], [inner], {}, s1, ctx, node)
        if itv[:2] in (("app", "builtins.zip"), ("app", "zip")) and len(itv) >= 3 and len({self._iter_root(x) for x in itv[2:]}) == 1:
            return ("tuple", tuple(self._iter_elem(x, k, s1, ctx, node) for x in itv[2:]))
        base = self.describe(itv, s1) if itv[0] == "obj" else T.show(itv)
        elem: Term = ("sym", f"{base}[{k}]", ("elemof", itv))
        if itv[0] == "slicelist":
            b0 = itv[1]
            et = b0[2][1]
            if len(b0[2]) > 2 and b0[2][2] == "distinct":
                et = ("distinct", et, b0[1])
            elem = self.materialise(("sym", f"{b0[1]}[{k + itv[2]}]", et), s1)
        elif itv[0] == "chunks":
            elem = T.slice_seq(itv[1], k * itv[2], (k + 1) * itv[2])
        elif itv[0] == "app" and itv[1] in ("range", "builtins.range") and len(itv) == 5 and is_c(itv[2]) and is_c(itv[4]) and isinstance(itv[2][1], int) and isinstance(itv[4][1], int):
            elem = c(itv[2][1] + k * itv[4][1])
        elif itv[0] == "sym" and isinstance(itv[2], tuple) and itv[2] and itv[2][0] in ("list", "set"):
            et = itv[2][1]
            if len(itv[2]) > 2 and itv[2][2] == "distinct":
                et = ("distinct", et, itv[1])
            elem = self.materialise(("sym", f"{base}[{k}]", et), s1)
        return elem

    def prune(self, v: Term, st: State) -> Term:
        """A two-way choice whose condition the path has already decided is the chosen branch."""
        while isinstance(v, tuple) and len(v) == 4 and v[0] == "ite":
            d = decided_by(st.pc, v[1])
            if d is None:
                break
            v = v[2] if d else v[3]
        return v

    def st_For(self, node: ast.For, st: State, ctx: Ctx) -> List[Tuple[State, Any]]:
        out: List[Tuple[State, Any]] = []
        it_call = node.iter
        if (isinstance(it_call, ast.Call) and isinstance(it_call.func, ast.Name) and it_call.func.id == "iter" and "iter" not in st.env and len(it_call.args) == 2 and not it_call.keywords
                and not node.orelse and not any(isinstance(n, ast.Break) for n in _walk_own(node.body)) and not isinstance(node, ast.AsyncFor)):
            cal_v = self.eval(it_call.args[0], st, ctx)
            if not (isinstance(cal_v, tuple) and cal_v[:1] == ("partialobj",) and isinstance(cal_v[1], tuple) and cal_v[1][:1] == ("biometh",)):
                # for x in iter(f, sentinel): body   ==   while True: x = f(); if x == sentinel: break; body
                # (f and the sentinel are evaluated once, before the loop)
                self._comp_n = getattr(self, "_comp_n", 0) + 1
                fn_, sn_ = f"$iterf{self._comp_n}", f"$iters{self._comp_n}"
                st.env[fn_] = cal_v
                st.env[sn_] = self.eval(it_call.args[1], st, ctx)
                L = ast.Load()
                step = ast.Assign(targets=[node.target], value=ast.Call(func=ast.Name(id=fn_, ctx=L), args=[], keywords=[]), type_comment=None)
                stop = ast.If(test=ast.Compare(left=_as_load(node.target), ops=[ast.Eq()], comparators=[ast.Name(id=sn_, ctx=L)]), body=[ast.Break()], orelse=[])
                loop = ast.While(test=ast.Constant(value=True), body=[step, stop] + list(node.body), orelse=[])
                for x_ in (step, stop, loop):
                    ast.copy_location(x_, node)
                ast.fix_missing_locations(loop)
                return self.st_While(loop, st, ctx)
        if isinstance(it_call, ast.Call) and _is_plain_ref(it_call.func) and not isinstance(node, ast.AsyncFor):
            fv_ = None
            try:
                fv_ = self.eval(it_call.func, st.fork(), ctx)
            except (AnalysisError, Unsupported):
                fv_ = None
            tg_ = self.user_target(fv_, st) if fv_ is not None else None
            if isinstance(tg_, FunctionInfo) and is_generator(tg_) and not tg_.is_async and fv_[0] in ("func", "bound") and tg_.key not in self.stubs:
                return self._for_over_generator(node, fv_, tg_, st, ctx)
        itv = self.prune(self.eval(node.iter, st, ctx), st)
        flushed = self._flush(st, ctx, node)
        for s, sig in flushed:
            if sig is not None:
                out.append((s, sig))
                continue
            out.extend(self._for_over(node, itv, s, ctx))
        return out

    def _for_over_generator(self, node: ast.For, fv: Term, fi: FunctionInfo, st: State, ctx: Ctx) -> List[Tuple[State, Any]]:
        """`for x in gen(...): body [else: ...]` with gen a repository generator function, run as Python runs it: the
        generator's body is interpreted with a hook at every `yield v` that binds x = v and runs the loop body in the
        caller's environment, so the generator's steps and the loop's iterations interleave exactly (effects included).
        `continue` resumes the generator; `break` / `return` / an exception of the loop body leave the generator
        through its finally blocks only (its except clauses do not see them - the generator is closed, not thrown into)."""
        where = ctx.loc(node)
        call = node.iter
        assert isinstance(call, ast.Call)
        args, kwargs = self.eval_args(call, st, ctx)
        out: List[Tuple[State, Any]] = []
        for s0, sig0 in self._flush(st, ctx, node):
            if sig0 is not None:
                out.append((s0, sig0))
                continue
            self.calls_resolved.append((where, fi.key))
            self.functions_visited[fi.key] = self.functions_visited.get(fi.key, 0) + 1
            if ctx.depth > self.max_depth:
                raise AnalysisError(f"inlining depth exceeded at {fi.key}")
            bound = self.bind(fi, list(args), dict(kwargs), fv[1] if fv[0] == "bound" else None, where)
            s0.cm_stack.append((s0.env, 0))
            s0.env = dict(bound)
            for name, dnode in fi.defaults().items():
                if name not in s0.env:
                    s0.env[name] = self.default_value(fi, name, dnode, s0, Ctx(None, fi.module, ctx.depth + 1))

            def at_yield(s: State, value: Term) -> List[Tuple[State, Any]]:
                genv = s.env
                cal, n = s.cm_stack.pop()
                s.env = dict(cal)
                self.assign(node.target, value, s, ctx)
                res: List[Tuple[State, Any]] = []
                for s2, sig in self.exec_block(node.body, s, ctx):
                    s2.cm_stack.append((s2.env, n + 1))
                    s2.env = dict(genv)
                    if sig is None or sig[0] == "continue":
                        res.append((s2, None))
                    elif sig[0] == "break":
                        res.append((s2, ("$forbreak",)))
                    elif sig[0] == "return":
                        res.append((s2, ("$forreturn", sig[1])))
                    elif sig[0] == "raise":
                        res.append((s2, ("$forraise", sig[1])))
                    else:
                        res.append((s2, sig))
                return res

            nctx = Ctx(fi, fi.module, ctx.depth + 1, ctx.where_stack + (fi.qualname.split(".")[-1],), at_yield)
            for s, sig in self.exec_block(list(fi.node.body), s0, nctx):
                cal, _n = s.cm_stack.pop()
                s.env = dict(cal)
                if sig is None or (sig[0] == "return" and is_c(sig[1]) and sig[1][1] is None):
                    out.extend(self.exec_block(node.orelse, s, ctx) if node.orelse else [(s, None)])
                elif sig[0] == "$forbreak":
                    out.append((s, None))
                elif sig[0] == "$forreturn":
                    out.append((s, ("return", sig[1])))
                elif sig[0] == "$forraise":
                    out.append((s, ("raise", sig[1])))
                elif sig[0] == "raise":
                    out.append((s, sig))
                elif sig[0] == "return":
                    raise AnalysisError(f"generator {fi.key} returns a value")
                else:
                    raise AnalysisError(f"stray {sig[0]} in {fi.key}")
        return out

    def _for_over(self, node: ast.For, itv: Term, s: State, ctx: Ctx) -> List[Tuple[State, Any]]:
        out: List[Tuple[State, Any]] = []
        if True:
            items = self.iter_items(itv, s, ctx, node)
            if items is not None:
                live = [s]
                for item in items:
                    nxt: List[State] = []
                    for s1 in live:
                        self.assign(node.target, item, s1, ctx)
                        for s2, sig2 in self.exec_block(node.body, s1, ctx):
                            if sig2 is None or sig2[0] == "continue":
                                nxt.append(s2)
                            elif sig2[0] == "break":
                                out.append((s2, None))
                            else:
                                out.append((s2, sig2))
                    live = nxt
                for s1 in live:
                    out.extend(self.exec_block(node.orelse, s1, ctx) if node.orelse else [(s1, None)])
                return out
            # symbolic iterable: 0 .. unroll iterations, fresh element symbols
            outer = itv
            itv = self._iter_root(outer)   # length guards are keyed on the collection the items finally come from
            base = self.describe(itv, s) if itv[0] == "obj" else T.show(itv)
            live = [s]
            for k in range(self.unroll + 1):
                nxt = []
                for s1 in live:
                    # what earlier loops over the same iterable on this path established about its length
                    lb, exact = 0, None
                    for g in s1.pc:
                        if isinstance(g, tuple) and len(g) >= 3 and g[1:2] == (itv,):
                            if g[0] == "iterge":
                                lb = max(lb, g[2])
                            elif g[0] == "itercount" and g[3] == "exact":
                                exact = g[2]
                            elif g[0] == "itercount" and g[3] == "atleast":
                                lb = max(lb, g[2])
                    can_exit = (exact is None or exact == k or (k == self.unroll and exact >= k)) and (k >= min(lb, self.unroll))
                    # a counting loop `for _ in range(n)` with a symbolic n: the number of iterations is n - what is known
                    # about n's range (and the guards) bounds it
                    rng_n = None
                    if itv[0] == "app" and itv[1] in ("range", "builtins.range") and len(itv) == 3:
                        rng_n = itv[2]
                    elif itv[0] == "app" and itv[1] in ("range", "builtins.range") and len(itv) in (4, 5) and itv[2] == c(0) and (len(itv) == 4 or itv[4] == c(1)):
                        rng_n = itv[3]
                    can_go = True
                    if rng_n is not None and not is_c(rng_n):
                        from .frames import int_bounds_from_guard, restrict as _restrict

                        def _refold(t_: Any) -> Any:
                            if isinstance(t_, tuple) and len(t_) == 4 and t_[0] == "app" and t_[1] in ("floordiv", "mod", "add", "sub", "mul"):
                                a_, b_ = _refold(t_[2]), _refold(t_[3])
                                return self.lib.arith(t_[1], a_, b_)
                            return t_
                        rng_n = _refold(_restrict(rng_n, list(s1.pc)))       # (what the path already knows about the count)
                    if rng_n is not None and is_c(rng_n) and isinstance(rng_n[1], int):
                        if rng_n[1] > k and k < self.unroll:
                            can_exit = False
                        if rng_n[1] <= k:
                            can_go = False
                    elif rng_n is not None:
                        r0 = T.int_range(rng_n) or (None, None)
                        g0 = int_bounds_from_guard(list(s1.pc), rng_n)
                        lo_n = max([x for x in (r0[0], g0[0]) if x is not None], default=None)
                        hi_n = min([x for x in (r0[1], g0[1]) if x is not None], default=None)
                        if lo_n is not None and lo_n > k and k < self.unroll:
                            can_exit = False          # n > k: the loop cannot stop after k iterations
                        if hi_n is not None and hi_n <= k:
                            can_go = False            # n <= k: there is no iteration k+1
                    if can_exit:
                        # exit after k iterations
                        se = s1.fork()
                        se.pc.append(("itercount", itv, k, "exact" if k < self.unroll else "atleast"))
                        out.extend(self.exec_block(node.orelse, se, ctx) if node.orelse else [(se, None)])
                    if k == self.unroll or (exact is not None and exact <= k) or not can_go:
                        continue
                    if itv[0] == "slicelist" and itv[3] is not None and k >= itv[3] - itv[2]:
                        continue  # the slice has at most hi-lo elements
                    s1.pc.append(("iterge", itv, k + 1))
                    elem = self._iter_elem(outer, k, s1, ctx, node)
                    self.assign(node.target, elem, s1, ctx)
                    s1.events.append(Event("iter", base, (c(k),), (), ctx.loc(node), ctx.fi.key if ctx.fi else "", pc_len=len(s1.pc)))
                    for s2, sig2 in self.exec_block(node.body, s1, ctx):
                        if sig2 is None or sig2[0] == "continue":
                            nxt.append(s2)
                        elif sig2[0] == "break":
                            out.append((s2, None))
                        else:
                            out.append((s2, sig2))
                live = nxt
        return out

    def iter_items(self, itv: Term, st: State, ctx: Ctx, node: ast.AST) -> Optional[List[Term]]:
        if is_c(itv) and isinstance(itv[1], (list, tuple)):
            return [self.lift(x) for x in itv[1]]
        if itv[0] == "tuple":
            return list(itv[1])
        if itv[0] == "obj":
            ho = st.heap[itv[1]]
            if ho.name.startswith("iter:") and ho.fields.get("$born") != c(getattr(self, "cur_serial", None)):
                # the eagerly computed content of a pure one-shot iterator (filter / zip object): one later statement may
                # consume it; a second one would find it empty
                now_ = c(getattr(self, "cur_serial", None))
                if ho.fields.get("$used", now_) != now_:
                    raise AnalysisError(f"one-shot iterator {ho.name.split(':', 1)[1]} is consumed a second time at {ctx.loc(node)} (it is empty then): not modelled")
                ho.fields["$used"] = now_
            elif ho.name.startswith("gen:"):
                if ho.fields.get("$born") != c(getattr(self, "cur_serial", None)):
                    raise AnalysisError(f"one-shot iterator {ho.name.split(':', 1)[1]} is consumed in a later statement than the one that created it at {ctx.loc(node)}: lazy evaluation order (and a second consumption, which finds it empty) is not modelled")
            if ho.name == "byteiter":
                raise AnalysisError(f"iteration over an iterator of a byte string at {ctx.loc(node)}: not modelled")
            if ho.kind in ("list", "set") and not ho.symbolic:
                return list(ho.items)
            if ho.kind == "dict" and not ho.symbolic:
                return [k for k, _ in ho.items]
            return None
        if itv[0] in ("clist", "cset"):
            return list(itv[1])
        if itv[0] == "seq" and itv[1] == "raw":
            # iterating a byte string of known length yields its bytes as integers
            w_ = T.const_width(itv)
            if w_ is not None and int(w_) % 2 == 0 and int(w_) <= 64:
                out_: List[Term] = []
                for i_ in range(int(w_) // 2):
                    piece = T.slice_seq(itv, i_, i_ + 1)      # (slices of a raw value are indexed in bytes)
                    if is_top(piece) or T.const_width(piece) != 2:
                        return None
                    out_.append(T.uint_of(piece[2]))
                return out_
        if itv[0] == "app" and itv[1] in ("time.localtime", "time.gmtime", "time.strptime"):
            # a struct_time is the 9-tuple of its fields
            return [("extmeth", itv, f) for f in ("tm_year", "tm_mon", "tm_mday", "tm_hour", "tm_min", "tm_sec", "tm_wday", "tm_yday", "tm_isdst")]
        if itv[0] == "cdict":
            return [k for k, _ in itv[1]]
        if itv[0] == "lookup":
            # a table of equally long sequences indexed by a symbolic key: the sequence of the per-position tables
            cols = [self.iter_items(v, st, ctx, node) for _, v in itv[1]]
            if cols and all(x is not None and len(x) == len(cols[0]) for x in cols):
                return [("lookup", tuple((k, col[i]) for (k, _), col in zip(itv[1], cols)), itv[2]) for i in range(len(cols[0]))]
            return None
        if itv[0] == "class" and itv[1].enum is not None:
            return [("enum", EnumRef(itv[1].key, m)) for m in itv[1].enum.members]
        if itv[0] == "mapobj":
            inner = self.iter_items(itv[2], st, ctx, node)
            if inner is None:
                return None
            return [self.call(itv[1], [x], {}, st, ctx, node) for x in inner]
        if itv[0] == "chunks":
            return None
        if itv[0] == "app" and itv[1] in ("range", "builtins.range") and 3 <= len(itv) <= 5 and all(is_c(x) and isinstance(x[1], int) for x in itv[2:]):
            r = range(*[x[1] for x in itv[2:]])
            if len(r) <= 64:
                return [c(k) for k in r]
        return None

    def st_Break(self, node: ast.Break, st: State, ctx: Ctx) -> List[Tuple[State, Any]]:
        return [(st, ("break",))]

    def st_Continue(self, node: ast.Continue, st: State, ctx: Ctx) -> List[Tuple[State, Any]]:
        return [(st, ("continue",))]

    def st_Try(self, node: ast.Try, st: State, ctx: Ctx) -> List[Tuple[State, Any]]:
        out: List[Tuple[State, Any]] = []
        after: List[Tuple[State, Any]] = []
        for s, sig in self.exec_block(node.body, st, ctx):
            if sig is not None and sig[0] == "raise":
                exc = sig[1]
                handled = False
                for h in node.handlers:
                    if self.handler_matches(h, exc, s, ctx):
                        handled = True
                        saved = s.env.get("$exc")
                        s.env["$exc"] = exc
                        if h.name:
                            s.env[h.name] = exc
                        s.events.append(Event("caught", exc[1], (), (), ctx.loc(h), ctx.fi.key if ctx.fi else "", pc_len=len(s.pc)))
                        for s2, sig2 in self.exec_block(h.body, s, ctx):
                            if saved is None:
                                s2.env.pop("$exc", None)
                            else:
                                s2.env["$exc"] = saved
                            # implicit chaining: `raise X` inside a handler keeps context
                            after.append((s2, sig2))
                        break
                if not handled:
                    after.append((s, sig))
            elif sig is None and node.orelse:
                after.extend(self.exec_block(node.orelse, s, ctx))
            else:
                after.append((s, sig))
        if node.finalbody:
            for s, sig in after:
                for s2, sig2 in self.exec_block(node.finalbody, s, ctx):
                    out.append((s2, sig2 if sig2 is not None else sig))
        else:
            out = after
        return out

    def handler_matches(self, h: ast.ExceptHandler, exc: Term, st: State, ctx: Ctx) -> bool:
        if h.type is None:
            return True
        names: List[str] = []
        tnodes = h.type.elts if isinstance(h.type, ast.Tuple) else [h.type]
        for tn in tnodes:
            while isinstance(tn, ast.BoolOp) and all(isinstance(x, (ast.Name, ast.Attribute, ast.BoolOp)) for x in tn.values):
                # `except A or B:` - a class object is truthy, so the expression is A (`A and B` is B): only that class is caught
                tn = tn.values[0] if isinstance(tn.op, ast.Or) else tn.values[-1]
            v = self.eval(tn, st, ctx)
            if v[0] in ("ext", "builtin"):
                names.append(v[1].split("builtins.")[-1])
            else:
                raise AnalysisError(f"cannot resolve exception class {ast.unparse(tn)} at {ctx.loc(h)}")
        return any(exc_is_subclass(exc[1], n) for n in names)

    def st_With(self, node: ast.With, st: State, ctx: Ctx) -> List[Tuple[State, Any]]:
        item0 = node.items[0]
        if isinstance(item0.context_expr, ast.Call):
            fv0 = None
            try:
                fv0 = self.eval(item0.context_expr.func, st.fork(), ctx)
            except (AnalysisError, Unsupported):
                fv0 = None
            fi0 = fv0[1] if fv0 is not None and fv0[0] == "func" else fv0[2] if fv0 is not None and fv0[0] == "bound" else None
            if isinstance(fi0, FunctionInfo) and any(d.split("(")[0].split(".")[-1] in ("contextmanager", "asynccontextmanager") for d in fi0.decorators):
                body = node.body
                if len(node.items) > 1:
                    inner = type(node)(items=node.items[1:], body=node.body, type_comment=None)
                    body = [ast.copy_location(inner, node)]
                return self._with_generator_cm(fv0, fi0, item0, body, node, st, ctx)
        suppressed: Optional[List[str]] = None
        for item in node.items:
            v = self.eval(item.context_expr, st, ctx)
            enter = self._class_cm_method(v, "__aenter__" if isinstance(node, ast.AsyncWith) else "__enter__", st, ctx, node)
            if enter is not None:
                if item is not node.items[0]:
                    raise AnalysisError(f"context manager object after another manager in one with statement at {ctx.loc(node)}")
                body = node.body
                if len(node.items) > 1:
                    inner = type(node)(items=node.items[1:], body=node.body, type_comment=None)
                    body = [ast.copy_location(inner, node)]
                return self._with_class_cm(v, item, body, node, st, ctx)
            if isinstance(v, tuple) and v[:2] == ("app", "contextlib.suppress") and len(node.items) == 1 and item.optional_vars is None \
                    and all(isinstance(x, tuple) and x[0] in ("ext", "builtin") for x in v[2:]):
                suppressed = [x[1].split("builtins.")[-1] for x in v[2:]]
            if item.optional_vars is not None:
                self.assign(item.optional_vars, v, st, ctx)
        out = []
        for s, sig in self._flush(st, ctx, node):
            if sig is not None:
                out.append((s, sig))
            else:
                for s2, sig2 in self.exec_block(node.body, s, ctx):
                    if suppressed is not None and sig2 is not None and sig2[0] == "raise" and any(exc_is_subclass(sig2[1][1], n_) for n_ in suppressed):
                        # contextlib.suppress(E...): an exception of one of these classes ends the block quietly
                        s2.events.append(Event("caught", sig2[1][1], (), (), ctx.loc(node), ctx.fi.key if ctx.fi else "", pc_len=len(s2.pc)))
                        out.append((s2, None))
                    else:
                        out.append((s2, sig2))
        return out

    st_AsyncWith = st_With

    def _class_cm_method(self, v: Term, name: str, st: State, ctx: Ctx, node: ast.AST) -> Optional[FunctionInfo]:
        """The repository function that is `name` (__enter__ / __aenter__ / __exit__ / __aexit__) of the object v, if any."""
        if not (isinstance(v, tuple) and v and v[0] == "obj"):
            return None
        try:
            m = self.getattr(v, name, st.fork(), ctx, node)
        except (AnalysisError, Unsupported):
            return None
        return m[2] if isinstance(m, tuple) and len(m) > 2 and m[0] == "bound" and isinstance(m[2], FunctionInfo) else None

    def _with_class_cm(self, v: Term, item: ast.withitem, body: List[ast.stmt], node: ast.AST, st: State, ctx: Ctx) -> List[Tuple[State, Any]]:
        """`[async] with obj [as x]: body` where obj is an instance of a repository class with __enter__ / __aenter__.

        As the language defines it: x = [await] obj.__enter__(); the block; then [await] obj.__exit__(...) - with
        (None, None, None) when the block ends without an exception (also by return / break / continue), with the
        exception's details otherwise, in which case a true result suppresses the exception.  Not modelled (exit 2):
        an exit method that reads its arguments (what it does would depend on the exception it is shown)."""
        is_async = isinstance(node, ast.AsyncWith)
        n_enter, n_exit = ("__aenter__", "__aexit__") if is_async else ("__enter__", "__exit__")
        where = ctx.loc(node)
        fx = self._class_cm_method(v, n_exit, st, ctx, node)
        if fx is None:
            raise AnalysisError(f"context manager object without a resolvable {n_exit} at {where}")
        a = fx.node.args
        pnames = {x.arg for x in (a.posonlyargs + a.args)[1:]} | {x.arg for x in a.kwonlyargs} | ({a.vararg.arg} if a.vararg else set()) | ({a.kwarg.arg} if a.kwarg else set())
        reads_args = any(isinstance(n_, ast.Name) and n_.id in pnames for b in fx.node.body for n_ in ast.walk(b))
        self._cm_counter = getattr(self, "_cm_counter", 0) + 1
        hid = f"$cm{self._cm_counter}"
        st.env[hid] = v

        def loc(x: ast.AST) -> ast.AST:
            for n_ in ast.walk(x):
                if not hasattr(n_, "lineno"):
                    ast.copy_location(n_, node)
            return x

        def mcall(name: str, args: List[ast.expr]) -> ast.expr:
            c: ast.expr = ast.Call(func=ast.Attribute(value=ast.Name(id=hid, ctx=ast.Load()), attr=name, ctx=ast.Load()), args=args, keywords=[])
            return ast.Await(value=c) if is_async else c

        nones = lambda: [ast.Constant(value=None) for _ in range(3)]
        enter_stmt: ast.stmt = ast.Assign(targets=[item.optional_vars], value=mcall(n_enter, []), type_comment=None) if item.optional_vars is not None \
            else ast.Expr(value=mcall(n_enter, []))
        exit_plain = loc(ast.Expr(value=mcall(n_exit, nones())))
        exit_on_exc = loc(ast.If(test=mcall(n_exit, nones()), body=[ast.Pass()], orelse=[ast.Raise(exc=None, cause=None)]))
        out: List[Tuple[State, Any]] = []
        for s, sig in self.exec_block([loc(enter_stmt)], st, ctx):
            if sig is not None:
                s.env.pop(hid, None)
                out.append((s, sig))
                continue
            for s2, sig2 in self.exec_block(body, s, ctx):
                if sig2 is not None and sig2[0] == "raise":
                    if reads_args:
                        raise AnalysisError(f"{fx.key} reads the exception it is shown: not modelled at {where}")
                    saved = s2.env.get("$exc")
                    s2.env["$exc"] = sig2[1]
                    for s3, sig3 in self.exec_block([exit_on_exc], s2, ctx):
                        if saved is None:
                            s3.env.pop("$exc", None)
                        else:
                            s3.env["$exc"] = saved
                        s3.env.pop(hid, None)
                        out.append((s3, sig3))
                else:
                    for s3, sig3 in self.exec_block([exit_plain], s2, ctx):
                        s3.env.pop(hid, None)
                        out.append((s3, sig3 if sig3 is not None else sig2))
        return out

    def _with_generator_cm(self, fv: Term, fi: FunctionInfo, item: ast.withitem, body: List[ast.stmt], node: ast.AST, st: State, ctx: Ctx) -> List[Tuple[State, Any]]:
        """`with f(...) [as x]: body` where f is a repository generator decorated with (async)contextmanager.

        contextlib runs f up to its `yield`, then the block, then resumes f - normally when the block ends normally,
        by throwing the block's exception at the `yield` otherwise; an exception f does not let out is suppressed.
        The interpreter does the same: f's body is run with a hook at the `yield` statement that runs the block in
        the caller's environment and hands its outcomes back as the outcomes of the `yield`.  Not modelled (exit 2):
        a block left by return / break / continue, a path of f that yields twice or finishes without yielding."""
        where = ctx.loc(node)
        if not is_generator(fi):
            raise AnalysisError(f"{fi.key} is decorated as a context manager but has no yield at {where}")
        args, kwargs = self.eval_args(item.context_expr, st, ctx)
        self.calls_resolved.append((where, fi.key))
        self.functions_visited[fi.key] = self.functions_visited.get(fi.key, 0) + 1
        bound = self.bind(fi, args, kwargs, fv[1] if fv[0] == "bound" else None, where)
        if ctx.depth > self.max_depth:
            raise AnalysisError(f"inlining depth exceeded at {fi.key}")
        st.cm_stack.append((st.env, 0))
        st.env = dict(bound)
        for name, dnode in fi.defaults().items():
            if name not in st.env:
                st.env[name] = self.default_value(fi, name, dnode, st, Ctx(None, fi.module, ctx.depth + 1))

        def at_yield(s: State, value: Term) -> List[Tuple[State, Any]]:
            genv = s.env
            cal, ny = s.cm_stack.pop()
            if ny:
                raise AnalysisError(f"context manager {fi.key} yields twice on one path at {where}")
            s.env = dict(cal)
            if item.optional_vars is not None:
                self.assign(item.optional_vars, value, s, ctx)
            res: List[Tuple[State, Any]] = []
            for s2, sig in self.exec_block(body, s, ctx):
                s2.cm_stack.append((s2.env, 1))
                s2.env = dict(genv)
                if sig is not None and sig[0] != "raise":
                    # return / break / continue out of the block: __exit__ is called without an exception, so the
                    # generator resumes normally after its yield; the pending jump happens once it has finished
                    s2.env["$cm_pending"] = ("pending", sig)
                    res.append((s2, None))
                else:
                    res.append((s2, sig))
            return res

        nctx = Ctx(fi, fi.module, ctx.depth + 1, ctx.where_stack + (fi.qualname.split(".")[-1],), at_yield)
        out: List[Tuple[State, Any]] = []
        for s, sig in self.exec_block(list(fi.node.body), st, nctx):
            pend = s.env.get("$cm_pending")
            cal, ny = s.cm_stack.pop()
            s.env = dict(cal)
            if sig is None or sig[0] == "return":
                if ny != 1:
                    raise AnalysisError(f"context manager {fi.key} finishes without yielding on some path at {where}")
                out.append((s, pend[1] if pend is not None else None))
            elif sig[0] == "raise":
                out.append((s, sig))
            else:
                raise AnalysisError(f"stray {sig[0]} in {fi.key}")
        return out

    def st_Assert(self, node: ast.Assert, st: State, ctx: Ctx) -> List[Tuple[State, Any]]:
        return [(st, None)]

    def st_Delete(self, node: ast.Delete, st: State, ctx: Ctx) -> List[Tuple[State, Any]]:
        raise AnalysisError(f"unsupported statement Delete at {ctx.loc(node)}")

    def st_AsyncFunctionDef(self, node: ast.AsyncFunctionDef, st: State, ctx: Ctx) -> List[Tuple[State, Any]]:
        return self.st_FunctionDef(node, st, ctx)  # type: ignore[arg-type]

    def st_FunctionDef(self, node: ast.FunctionDef, st: State, ctx: Ctx) -> List[Tuple[State, Any]]:
        st.env[node.name] = ("lambda", node, tuple(sorted(st.env.items(), key=lambda kv: kv[0])) if False else None, ctx.fi, dict(st.env))
        return [(st, None)]

    # ------------------------------------------------------------------
    # expression evaluation with statement-level forking for inlined calls
    def eval_forking(self, node: ast.AST, st: State, ctx: Ctx) -> List[Tuple[State, Term, Any]]:
        """Evaluate an expression that stands at statement level.

        Calls to repository functions at the top of the expression (optionally
        under ``await``) are inlined with path forking; everything else is pure
        evaluation followed by a flush of the pending may-raise conditions."""
        inner = node
        awaited = False
        if isinstance(inner, ast.Await):
            inner = inner.value
            awaited = True
        if isinstance(inner, ast.IfExp) and (ctx.depth <= 1 or any(isinstance(n, ast.Await) for n in ast.walk(inner))):
            out: List[Tuple[State, Term, Any]] = []
            for s, cond, sig in self.cond_forking(inner.test, st, ctx):
                if sig is not None:
                    out.append((s, top("raised"), sig))
                    continue
                if not is_c(cond):
                    d = decided_by(s.pc, cond)
                    if d is not None:
                        cond = c(d)
                if is_c(cond):
                    out.extend(self.eval_forking(inner.body if cond[1] else inner.orelse, s, ctx))
                else:
                    sf = s.fork()
                    s.pc.append(cond)
                    sf.pc.append(neg(cond))
                    out.extend(self.eval_forking(inner.body, s, ctx))
                    out.extend(self.eval_forking(inner.orelse, sf, ctx))
            return out
        if isinstance(inner, ast.BoolOp) and len(inner.values) == 2 and not awaited and ctx.depth <= 1:
            # value-producing `a or b` / `a and b`: fork on the truth of a
            out = []
            is_or = isinstance(inner.op, ast.Or)
            for s, a, sig in self.eval_forking(inner.values[0], st, ctx):
                if sig is not None:
                    out.append((s, a, sig))
                    continue
                ta = self.truth(a, s)
                if not is_c(ta):
                    d = decided_by(s.pc, ta)
                    if d is not None:
                        ta = c(d)
                if is_c(ta):
                    if ta[1] == is_or:
                        out.append((s, a, None))
                    else:
                        out.extend(self.eval_forking(inner.values[1], s, ctx))
                    continue
                s2 = s.fork()
                s.pc.append(ta if is_or else neg(ta))
                out.append((s, a, None))
                s2.pc.append(neg(ta) if is_or else ta)
                out.extend(self.eval_forking(inner.values[1], s2, ctx))
            return out
        if (isinstance(inner, ast.Call) and isinstance(inner.func, ast.Name) and inner.func.id in ("max", "min") and inner.func.id not in st.env
                and len(inner.args) == 2 and not inner.keywords and not awaited and ctx.depth <= 2
                and not any(isinstance(a, ast.Starred) for a in inner.args)):
            # max(a, b) / min(a, b) of two symbolic numbers at statement level: the two cases are two paths, each with
            # its comparison as a guard (max returns a when a >= b, min returns a when a <= b)
            a_v, b_v = self.eval(inner.args[0], st, ctx), self.eval(inner.args[1], st, ctx)
            if self.lib.is_int_term(a_v) and self.lib.is_int_term(b_v) and not (is_c(a_v) and is_c(b_v)):
                out2: List[Tuple[State, Term, Any]] = []
                for s_, sig_ in self._flush(st, ctx, inner):
                    if sig_ is not None:
                        out2.append((s_, top("raised"), sig_))
                        continue
                    cond = self.compare(ast.GtE() if inner.func.id == "max" else ast.LtE(), a_v, b_v, s_, ctx, inner)
                    d = decided_by(s_.pc, cond) if not is_c(cond) else cond[1]
                    if d is True:
                        out2.append((s_, a_v, None))
                    elif d is False:
                        out2.append((s_, b_v, None))
                    else:
                        s2 = s_.fork()
                        s_.pc.append(cond)
                        s2.pc.append(neg(cond))
                        out2.append((s_, a_v, None))
                        out2.append((s2, b_v, None))
                return out2
        if (isinstance(inner, ast.Call) and not awaited and inner.args and isinstance(inner.args[0], ast.Call) and _is_plain_ref(inner.args[0].func)
                and (isinstance(inner.func, ast.Name) or (isinstance(inner.func, ast.Attribute) and isinstance(inner.func.value, ast.Constant)))
                and not any(isinstance(a, ast.Starred) for a in inner.args)):
            # consumer(gen(...), ...) with gen a repository generator function and consumer a builtin (set, list, tuple,
            # sorted, sum, dict, "".join, ...): the generator's paths fork here - each continues with the items it yields
            # on that path - instead of being joined into one conditional value.  Same statement, so the eager run of
            # the generator is the lazy one (see _invoke).
            gcall = inner.args[0]
            gfv = None
            try:
                gfv = self.eval(gcall.func, st.fork(), ctx)
            except (AnalysisError, Unsupported):
                gfv = None
            gt = self.user_target(gfv, st) if gfv is not None else None
            cfv = None
            if isinstance(gt, FunctionInfo) and is_generator(gt) and not gt.is_async:
                try:
                    cfv = self.eval(inner.func, st.fork(), ctx)
                except (AnalysisError, Unsupported):
                    cfv = None
            if cfv is not None and cfv[0] in ("builtin", "ext", "extmeth"):
                outg: List[Tuple[State, Term, Any]] = []
                tmp = f"$g{getattr(gcall, 'lineno', 0)}_{getattr(gcall, 'col_offset', 0)}"
                rewritten = ast.copy_location(ast.Call(func=inner.func, args=[ast.copy_location(ast.Name(id=tmp, ctx=ast.Load()), gcall)] + list(inner.args[1:]), keywords=inner.keywords), inner)
                for s, gv, sig in self.eval_forking(gcall, st, ctx):
                    if sig is not None:
                        outg.append((s, gv, sig))
                        continue
                    s.env[tmp] = gv
                    v = self.eval(rewritten, s, ctx)
                    s.env.pop(tmp, None)
                    for s2, sig2 in self._flush(s, ctx, inner):
                        outg.append((s2, v, sig2))
                return outg
        if isinstance(inner, ast.Call) and _is_plain_ref(inner.func):
            fv = self.eval(inner.func, st, ctx)
            target = self.user_target(fv, st)
            if target is not None and getattr(target, "is_async", False) and not awaited and fv[0] in ("func", "bound") and not is_generator(target):
                target = None       # creates a coroutine object (see call()); nothing runs here
            if target is not None:
                args, kwargs = self.eval_args(inner, st, ctx)
                out = []
                for s, sig in self._flush(st, ctx, inner):
                    if sig is not None:
                        out.append((s, top("raised"), sig))
                        continue
                    n_ev0 = len(s.events)
                    for o in self.call_user_forking(fv, args, kwargs, s, ctx, inner, awaited):
                        if o.kind == "return" and awaited and isinstance(o.value, tuple) and o.value[:1] == ("coro",):
                            # a plain function returned the coroutine of a repository coroutine function: awaited here
                            for o2 in self.call_user_forking(o.value[1], list(o.value[2]), dict(o.value[3]), o.state, ctx, inner, True):
                                out.append((o2.state, o2.value, None) if o2.kind == "return" else (o2.state, top("raised"), ("raise", o2.value)))
                            continue
                        if o.kind == "return":
                            if awaited and not getattr(target, "is_async", True):
                                # `await helper()` where the plain function `helper` RETURNS the awaitable of an external
                                # call it made (return open_connection(...)): that call is awaited here
                                import dataclasses as _dc
                                for i_ in range(n_ev0, len(o.state.events)):
                                    e_ = o.state.events[i_]
                                    if e_.kind == "call" and not e_.awaited and e_.result is not None and e_.result == o.value:
                                        o.state.events[i_] = _dc.replace(e_, awaited=True)
                            out.append((o.state, o.value, None))
                        else:
                            out.append((o.state, top("raised"), ("raise", o.value)))
                return out
        if awaited and not isinstance(inner, ast.Call):
            v0 = self.eval(inner, st, ctx)
            if isinstance(v0, tuple) and v0[:1] == ("coro",):
                # `await c` where c holds the coroutine of a repository coroutine function: its body runs here
                out = []
                for s, sig in self._flush(st, ctx, inner):
                    if sig is not None:
                        out.append((s, top("raised"), sig))
                        continue
                    for o in self.call_user_forking(v0[1], list(v0[2]), dict(v0[3]), s, ctx, inner, True):
                        out.append((o.state, o.value, None) if o.kind == "return" else (o.state, top("raised"), ("raise", o.value)))
                return out
        v = self.eval(node, st, ctx)
        res = []
        for s, sig in self._flush(st, ctx, node):
            res.append((s, v, sig))
        return res

    def user_target(self, fv: Term, st: State) -> Optional[FunctionInfo]:
        if fv[0] == "func":
            fi = fv[1]
        elif fv[0] == "bound":
            fi = fv[2]
        elif fv[0] == "class":
            ci: ClassInfo = fv[1]
            if ci.enum is not None or ci.key in self.stubs:
                return None
            return ci.find_method("__init__") or ci.find_method("__post_init__") or _DUMMY
        else:
            return None
        if fi.key in self.stubs:
            return None
        return fi

    def eval_args(self, call: ast.Call, st: State, ctx: Ctx) -> Tuple[List[Term], Dict[str, Term]]:
        args: List[Term] = []
        for a in call.args:
            if isinstance(a, ast.Starred):
                sv = self.eval(a.value, st, ctx)
                items = self.iter_items(sv, st, ctx, call)
                if items is None:
                    raise AnalysisError(f"starred argument of unknown length at {ctx.loc(call)}")
                args.extend(items)
                continue
            args.append(self.eval(a, st, ctx))
        kwargs: Dict[str, Term] = {}
        for kw in call.keywords:
            if kw.arg is None:
                dv = self.eval(kw.value, st, ctx)

                def pairs_of(m: Term) -> Optional[List[Tuple[Term, Term]]]:
                    if m[0] == "cdict":
                        return list(m[1])
                    if m[0] == "obj" and st.heap[m[1]].kind == "dict" and not st.heap[m[1]].symbolic:
                        return list(st.heap[m[1]].items)
                    if m[0] == "ite" and len(m) == 4:
                        # one of two mappings with the same keys: each value is the choice of the two values
                        pa, pb = pairs_of(m[2]), pairs_of(m[3])
                        if pa is not None and pb is not None and [k for k, _ in pa] == [k for k, _ in pb]:
                            return [(k, ite(m[1], va, vb)) for (k, va), (_, vb) in zip(pa, pb)]
                    return None

                pairs2 = pairs_of(dv)
                if pairs2 is None:
                    raise AnalysisError(f"**kwargs of an unknown mapping at {ctx.loc(call)}")
                for k2, v2 in pairs2:
                    ks = T.to_seq(k2) if (is_c(k2) or T.is_seq(k2)) else None
                    if ks is None or not all(a[0] == "L" for a in ks[2]):
                        raise AnalysisError(f"**kwargs with a non-constant key at {ctx.loc(call)}")
                    kwargs["".join(a[1] for a in ks[2])] = v2
                continue
            kwargs[kw.arg] = self.eval(kw.value, st, ctx)
        return args, kwargs

    def bind(self, fi: FunctionInfo, args: List[Term], kwargs: Dict[str, Term], selfv: Optional[Term], where: str) -> Dict[str, Term]:
        params = list(fi.params)
        bound: Dict[str, Term] = {}
        if selfv is not None:
            if not params:
                raise AnalysisError(f"method without self {fi.key}")
            bound[params[0]] = selfv
            params = params[1:]
        va = fi.node.args.vararg
        kwa = fi.node.args.kwarg
        if len(args) > len(params) and va is None:
            raise AnalysisError(f"too many positional arguments for {fi.key} at {where}")
        for p, a in zip(params, args):
            bound[p] = a
        if va is not None:
            bound[va.arg] = ("tuple", tuple(args[len(params):]))        # *args: the surplus positional arguments
        known = set(fi.params) | {a.arg for a in fi.node.args.kwonlyargs}
        extra_kw: List[Tuple[Term, Term]] = []
        for k, v in kwargs.items():
            if k in bound:
                raise AnalysisError(f"duplicate argument {k} for {fi.key} at {where}")
            if k not in known and kwa is not None:
                extra_kw.append((c(k), v))
                continue
            bound[k] = v
        if kwa is not None:
            bound[kwa.arg] = ("cdict", tuple(extra_kw))
        return bound

    def call_user_forking(self, fv: Term, args: List[Term], kwargs: Dict[str, Term], st: State, ctx: Ctx, node: ast.AST, awaited: bool) -> List[Outcome]:
        where = ctx.loc(node)
        if fv[0] == "func":
            fi: FunctionInfo = fv[1]
            self.calls_resolved.append((where, fi.key))
            selfv = None
            if fi.cls is not None and fi.params and fi.params[0] in ("self", "cls") and "staticmethod" not in fi.decorators:
                # unbound method called through the class: first arg is self
                pass
            return self._invoke(fi, self.bind(fi, args, kwargs, selfv, where), st, ctx)
        if fv[0] == "bound":
            fi = fv[2]
            self.calls_resolved.append((where, fi.key))
            return self._invoke(fi, self.bind(fi, args, kwargs, fv[1], where), st, ctx)
        if fv[0] == "class":
            return self.construct(fv[1], args, kwargs, st, ctx, node)
        raise AnalysisError(f"not a user callable at {where}")

    def construct(self, ci: ClassInfo, args: List[Term], kwargs: Dict[str, Term], st: State, ctx: Ctx, node: ast.AST) -> List[Outcome]:
        outs = self._construct(ci, args, kwargs, st, ctx, node)
        if ctx.fi is None and ctx.depth == 0:
            self._note_opaque(f"{ci.name}.__init__", outs)   # used as an analysis entry point by a checker
            self._close_guards(outs)
        return outs

    def _construct(self, ci: ClassInfo, args: List[Term], kwargs: Dict[str, Term], st: State, ctx: Ctx, node: ast.AST) -> List[Outcome]:
        where = ctx.loc(node)
        self.calls_resolved.append((where, ci.key))
        overrides = self.class_overrides(ci, where)
        obj = st.alloc(HeapObj("obj", ci, {}, [], False, "", True))
        init = ci.find_method("__init__")
        if init is not None:
            outs = self._invoke(init, self.bind(init, args, kwargs, obj, where), st, ctx)
            res = []
            for o in outs:
                if o.kind == "return":
                    res.append(Outcome(o.state, "return", obj))
                else:
                    res.append(o)
            return res
        if ci.is_dataclass:
            params = ci.init_params()
            names = [f.name for f in params]
            if len(args) > len(names):
                raise AnalysisError(f"too many arguments constructing {ci.key} at {where}")
            vals: Dict[str, Term] = {}
            for n, a in zip(names, args):
                vals[n] = a
            for k, v in kwargs.items():
                if k not in names or k in vals:
                    raise AnalysisError(f"bad keyword {k} constructing {ci.key} at {where}")
                vals[k] = v
            initvars: List[Term] = []
            for f in params:
                if f.name not in vals:
                    if f.default is None:
                        raise AnalysisError(f"missing argument {f.name} constructing {ci.key} at {where}")
                    vals[f.name] = self.eval(f.default, st, Ctx(None, ci.module, ctx.depth))
                if f.initvar:
                    initvars.append(vals[f.name])
                else:
                    st.heap[obj[1]].fields[f.name] = vals[f.name]
            post = ci.find_method("__post_init__")
            if overrides:
                # the __post_init__ the instance resolves to: the first class of the MRO that defines one or had its own replaced
                mro_ = ci.mro()
                for i_, k_ in enumerate(mro_):
                    if k_.key in overrides:
                        post = self.closure_function(overrides[k_.key])
                        break
                    if "__post_init__" in k_.methods:
                        if any(b_.key in overrides for b_ in mro_[i_ + 1:]):
                            raise AnalysisError(f"class {ci.name}: __post_init__ of {k_.name} sits above a base whose __post_init__ a decorator replaced (super() chain not followed)")
                        break
            if post is not None:
                outs = self._invoke(post, self.bind(post, initvars, {}, obj, where), st, ctx)
                res = []
                for o in outs:
                    if o.kind == "return":
                        res.append(Outcome(o.state, "return", obj))
                    else:
                        res.append(o)
                return res
            return [Outcome(st, "return", obj)]
        if args or kwargs:
            # plain class without __init__ (e.g. exception subclasses)
            pass
        return [Outcome(st, "return", obj)]

    def enum_member_attr(self, ci: ClassInfo, member: str, attr: str) -> Any:
        """See Program._enum_attr_by_interpretation.  Returns a Python constant / EnumRef / tuple of those, or an
        AnalysisError instance (remembered by the caller) when the construction is not followed."""
        try:
            assert ci.enum is not None
            st = State()
            ctx = Ctx(None, ci.module, 0)
            raw = ci.enum.members[member]
            args = [self.lift(x) for x in (raw if isinstance(raw, tuple) else (raw,))]
            where = f"{ci.module.relpath}:{getattr(ci.node, 'lineno', 0)} {ci.name}.{member}"
            new = ci.find_method("__new__")
            init = ci.find_method("__init__")
            if new is not None:
                outs = self._invoke(new, self.bind(new, args, {}, ("class", ci), where), st, ctx)
                outs = [o for o in outs if o.kind == "return"]
                if len(outs) != 1 or outs[0].value[:1] != ("obj",):
                    raise AnalysisError(f"__new__ of enum {ci.name} is not followed for member {member}")
                st, obj = outs[0].state, outs[0].value
            else:
                obj = st.alloc(HeapObj("obj", ci, {}, [], False, "", True))
            ho = st.heap[obj[1]]
            whole = self.lift(raw)
            ho.fields.setdefault("_value_", whole)
            if new is None and init is not None and len(init.params) > 1:
                outs = self._invoke(init, self.bind(init, args, {}, obj, where), st, ctx)
                outs = [o for o in outs if o.kind == "return"]
                if len(outs) != 1:
                    raise AnalysisError(f"__init__ of enum {ci.name} is not followed for member {member}")
                st = outs[0].state
            ho = st.heap[obj[1]]
            prop = ci.find_property(attr)
            if prop is not None:
                outs = self._invoke(prop, {prop.params[0]: obj}, st, ctx)
                outs = [o for o in outs if o.kind == "return"]
                if len(outs) != 1:
                    raise AnalysisError(f"property {attr} of enum {ci.name} is not followed for member {member}")
                v = outs[0].value
            elif attr in ("value", "_value_"):
                v = ho.fields["_value_"]
            elif attr in ho.fields:
                v = ho.fields[attr]
            else:
                raise AnalysisError(f"enum {ci.name} has no attribute {attr}")

            def unlift(x: Any) -> Any:
                if is_c(x):
                    return x[1]
                if isinstance(x, tuple) and x[:1] == ("enum",):
                    return x[1]
                if isinstance(x, tuple) and x[:1] == ("tuple",):
                    return tuple(unlift(y) for y in x[1])
                if T.is_seq(x) and all(a[0] == "L" for a in x[2]):
                    t = "".join(a[1] for a in x[2])
                    return t if x[1] == "s" else (t.encode() if x[1] == "b" else bytes.fromhex(t))
                raise AnalysisError(f"{ci.name}.{member}.{attr} is not a constant: {T.show(x)[:80]}")
            return unlift(v)
        except AnalysisError as exc:
            return exc
        except (Unsupported, NeedSplit, Infeasible, KeyError, IndexError, AssertionError) as exc:
            return AnalysisError(f"{ci.name}.{member}.{attr}: construction of the member is not followed ({type(exc).__name__})")

    _PLAIN_CLASS_DECORATORS = ("dataclass", "final", "total_ordering", "unique", "runtime_checkable")

    def class_overrides(self, ci: ClassInfo, where: str) -> Dict[str, Term]:
        """What the class decorators of `ci` and of its bases that are repository functions do to those classes, found by
        replaying them on the class object: a `cls.__post_init__ = <nested function>` store is remembered per class (it
        is then what the constructor runs); a decorator that has any other effect, does not return the class, or is not
        a repository function stops the analysis.  Result: class key -> the function that replaced its __post_init__."""
        memo = self.__dict__.setdefault("_class_overrides_memo", {})
        if ci.key in memo:
            if isinstance(memo[ci.key], str):
                raise AnalysisError(memo[ci.key])
            return memo[ci.key]
        out: Dict[str, Term] = {}
        try:
            for k_ in reversed(ci.mro()):
                decos = [d_ for d_ in getattr(k_.node, "decorator_list", []) if ast.unparse(d_.func if isinstance(d_, ast.Call) else d_).split(".")[-1] not in self._PLAIN_CLASS_DECORATORS]
                for d_ in reversed(decos):          # applied bottom-up
                    sub = State()
                    cctx = Ctx(None, k_.module, 0)
                    self._class_replay = {}
                    try:
                        dv = self.eval(d_, sub, cctx)
                        res = self.call(dv, [("class", k_)], {}, sub, cctx, d_)
                    finally:
                        rec, self._class_replay = self._class_replay, None
                    if res != ("class", k_) or sub.pending or any(e.kind == "call" and not _benign_event(e, sub) for e in sub.events):
                        raise AnalysisError(f"class {k_.name} is modified by the decorator @{ast.unparse(d_)[:60]} in a way that is not followed (constructed at {where})")
                    for (ck, attr), v in rec.items():
                        if ck != k_.key or attr != "__post_init__" or not (isinstance(v, tuple) and v[:1] == ("lambda",) and isinstance(v[1], ast.FunctionDef)):
                            raise AnalysisError(f"class decorator @{ast.unparse(d_)[:60]} stores {attr} on {ck}: only a __post_init__ replaced by a nested function is followed")
                        if k_.key in out:
                            raise AnalysisError(f"class {k_.name}: __post_init__ is replaced by more than one decorator")
                        out[k_.key] = v
                # class keywords (`class C(Base, category=X)`) go to the nearest __init_subclass__ of the bases
                kws = [kw for kw in getattr(k_.node, "keywords", []) if kw.arg != "metaclass"]
                hook = None
                for b_ in k_.mro()[1:]:
                    if "__init_subclass__" in b_.methods:
                        hook = b_.methods["__init_subclass__"]
                        break
                if kws and hook is None:
                    raise AnalysisError(f"class {k_.name} passes keywords to a base that defines no __init_subclass__ in the package")
                if hook is not None:
                    sub = State()
                    cctx = Ctx(None, k_.module, 0)
                    self._class_replay = {}
                    try:
                        kwv = {}
                        for kw in kws:
                            if kw.arg is None:
                                raise AnalysisError(f"class {k_.name}: ** in the class keywords")
                            kwv[kw.arg] = self.eval(kw.value, sub, cctx)
                        outs_ = self._invoke(hook, self.bind(hook, [], kwv, ("class", k_), where), sub, cctx)
                    finally:
                        rec, self._class_replay = self._class_replay, None
                    if len(outs_) != 1 or outs_[0].kind != "return" or outs_[0].state.pending or any(e.kind == "call" and not _benign_event(e, outs_[0].state) for e in outs_[0].state.events):
                        raise AnalysisError(f"__init_subclass__ of {hook.qualname} is not followed for class {k_.name}")
                    for (ck, attr), v in rec.items():
                        rv = self.reify(v, outs_[0].state)
                        if ck != k_.key or rv is None or attr.startswith("__"):
                            raise AnalysisError(f"__init_subclass__ stores {attr} on {ck} for class {k_.name}: only constant class attributes are followed")
                        out[(k_.key, attr)] = rv
        except (AnalysisError, Unsupported, NeedSplit, Infeasible) as exc:
            memo[ci.key] = str(exc) if isinstance(exc, AnalysisError) else f"class decorators of {ci.name} could not be followed ({type(exc).__name__})"
            raise AnalysisError(memo[ci.key])
        memo[ci.key] = out
        return out

    # nested (pure) call of a repository function: join the callee's paths
    def call_user_nested(self, fv: Term, args: List[Term], kwargs: Dict[str, Term], st: State, ctx: Ctx, node: ast.AST) -> Term:
        sub = st.fork()
        sub.pending = []
        n_events = len(sub.events)
        base_pc = len(sub.pc)
        outs = self.call_user_forking(fv, args, kwargs, sub, ctx, node, False)
        rets = [o for o in outs if o.kind == "return"]
        for o in outs:
            new_events = [e for e in o.state.events[n_events:] if not _benign_event(e, o.state)]
            if new_events:
                return top(f"nested call with effects: {new_events[0]!r}")
        for o in outs:
            if o.kind == "raise":
                cond = conj(o.state.pc[base_pc:])
                st.may_raise(o.value[1], cond, o.value[3])
        if not rets:
            return top("callee never returns")
        if len(rets) == 1:
            o = rets[0]
            # adopt heap objects created by the callee
            for oid, ho in o.state.heap.items():
                if oid not in st.heap:
                    st.heap[oid] = ho
                else:
                    st.heap[oid] = ho
            st.counters.update(o.state.counters)
            return o.value
        fm = first_match_table(rets, base_pc)
        if fm is not None:
            for o in rets:
                st.counters.update(o.state.counters)
            return fm
        val: Optional[Term] = None
        pre_ids = set(st.heap)          # (objects of different callee paths may carry the same number: judge freshness
        taken = set(pre_ids)            #  against the caller's heap as it was, and never re-use a number a path used)
        for o in rets:
            taken |= set(o.state.heap)
        merged = self._merge_instances(rets, st, base_pc, pre_ids, taken)
        if merged is not None:
            for o in rets:
                st.counters.update(o.state.counters)
            return merged
        if sum(1 for o in rets if isinstance(o.value, tuple) and o.value[:1] == ("obj",) and o.value[1] not in pre_ids) >= 2:
            # different fresh objects on different paths: as a value that would be a choice between objects, which every
            # later use multiplies; the statement is re-executed once per deciding guard instead (a fork, as for a
            # call that stands at statement level)
            if len(rets) > 4:
                # many paths, each with its own version of a collection built in the callee (a loop that adds members
                # under value-dependent tests): when every version is a plain set / list of members of one enum, the
                # result is "some collection of members of that enum" - a typed unknown, not an un-modelled value
                kinds, enums = set(), set()
                for o in rets:
                    ho_ = o.state.heap.get(o.value[1]) if isinstance(o.value, tuple) and o.value[:1] == ("obj",) else None
                    if ho_ is None or ho_.symbolic or ho_.cls is not None or ho_.kind not in ("set", "list") or ho_.name.startswith(("gen:", "iter:", "memo:")):
                        kinds.add("?")
                        break
                    kinds.add(ho_.kind)
                    for it_ in ho_.items:
                        enums.add(it_[1].cls if isinstance(it_, tuple) and it_[:1] == ("enum",) else "?")
                if os.environ.get("SA_DBGJOIN"):
                    print("JOIN", kinds, enums, [type(o.value).__name__ for o in rets[:2]], [ (o.state.heap.get(o.value[1]).kind, o.state.heap.get(o.value[1]).symbolic, o.state.heap.get(o.value[1]).name) for o in rets[:2] if o.value[:1]==("obj",)])
                if len(kinds) == 1 and "?" not in kinds and len(enums) == 1 and "?" not in enums:
                    for o in rets:
                        st.counters.update(o.state.counters)
                    return self.materialise(("sym", st.fresh("members"), (kinds.pop(), ("enum", enums.pop()))), st)
                return top("callee returns distinct fresh objects on many paths")
            for o in rets:
                for g in o.state.pc[base_pc:]:
                    if _is_cond(g) and decided_by(st.pc, g) is None:
                        raise NeedSplit(g)
        def has_fresh(x: Any, depth: int = 0) -> bool:
            if not isinstance(x, tuple) or not x or depth > 6:
                return False
            if x[0] == "obj":
                return x[1] not in pre_ids
            if x[0] in ("tuple", "clist", "cset"):
                return any(has_fresh(y, depth + 1) for y in x[1])
            if x[0] == "ite":
                return has_fresh(x[2], depth + 1) or has_fresh(x[3], depth + 1)
            return False

        for o in reversed(rets):
            ov = o.value
            if has_fresh(ov):
                # a fresh object returned on one of several paths: re-create it in the caller's heap
                hold = [k for k in taken if k not in st.heap]
                for k in hold:
                    st.heap[k] = None  # type: ignore[assignment]
                try:
                    ov2 = self._transplant(ov, o.state, st, {}, pre_ids)
                finally:
                    for k in hold:
                        if st.heap.get(k) is None:
                            del st.heap[k]
                if ov2 is None:
                    return top("callee returns distinct fresh objects on several paths")
                ov = ov2
            cond = conj(o.state.pc[base_pc:])
            if val is None:
                val = ov
            else:
                val = ite(cond, ov, val)
        for o in rets:
            st.counters.update(o.state.counters)
        assert val is not None
        return val

    def _deep(self, v: Any, state: State, pre_ids: set, depth: int = 0) -> Any:
        """Content of a value with the identities of objects created by the callee abstracted away (for comparison across paths)."""
        if not isinstance(v, tuple) or not v:
            return v
        if v[0] == "obj":
            if v[1] in pre_ids:
                return v
            ho = state.heap.get(v[1])
            if ho is None or depth > 5:
                return ("?", id(v))
            return ("fresh", ho.kind, ho.cls.key if ho.cls else None, ho.symbolic, ho.name,
                    tuple(sorted(((k, self._deep(x, state, pre_ids, depth + 1)) for k, x in ho.fields.items()), key=lambda kv: kv[0])),
                    tuple(self._deep(x, state, pre_ids, depth + 1) for x in ho.items))
        if v[0] in ("func", "bound", "lambda", "class", "enum", "c"):
            return v
        return tuple(self._deep(x, state, pre_ids, depth + 1) for x in v)

    def _merge_instances(self, rets: List[Outcome], st: State, base_pc: int, pre_ids: set, taken: set) -> Optional[Term]:
        """Several callee paths each return an instance of the same repository class created in the call (a constructor
        whose __post_init__ branches): ONE instance whose every field is the choice, by the paths' guards, of that
        field's values.  Fields that hold callee-created objects must have the same content on every path."""
        vals = [o.value for o in rets]
        if not all(isinstance(v, tuple) and v[:1] == ("obj",) and v[1] not in pre_ids for v in vals):
            return None
        hos = [o.state.heap.get(v[1]) for o, v in zip(rets, vals)]
        if any(h is None or h.kind != "obj" or h.cls is None or h.symbolic or h.items for h in hos):
            return None
        if len({h.cls.key for h in hos}) != 1 or len({tuple(sorted(h.fields)) for h in hos}) != 1:
            return None
        hold = [k for k in taken if k not in st.heap]
        for k in hold:
            st.heap[k] = None  # type: ignore[assignment]
        try:
            fields: Dict[str, Term] = {}
            for name in hos[0].fields:
                per = [h.fields[name] for h in hos]
                deep = [self._deep(x, o.state, pre_ids) for x, o in zip(per, rets)]
                if all(d == deep[0] for d in deep[1:]):
                    t0 = self._transplant(per[0], rets[0].state, st, {}, pre_ids)
                    if t0 is None:
                        return None
                    fields[name] = t0
                    continue
                if any(self._has_fresh_marker(d) for d in deep):
                    return None          # different callee-created objects in one field
                val: Optional[Term] = None
                for o, x in reversed(list(zip(rets, per))):
                    val = x if val is None else ite(conj(o.state.pc[base_pc:]), x, val)
                assert val is not None
                fields[name] = val
        finally:
            for k in hold:
                if st.heap.get(k) is None:
                    del st.heap[k]
        h0 = hos[0]
        return st.alloc(HeapObj("obj", h0.cls, fields, [], False, h0.name, h0.fresh))

    @staticmethod
    def _has_fresh_marker(d: Any) -> bool:
        if isinstance(d, tuple):
            if d[:1] == ("fresh",) or d[:1] == ("?",):
                return True
            return any(Interp._has_fresh_marker(x) for x in d)
        return False

    def _transplant(self, v: Term, src: State, dst: State, seen: Dict[int, Term], keep: Optional[set] = None) -> Optional[Term]:
        """Copy the heap objects reachable from v (allocated by a callee path) into dst under new identities."""
        if not isinstance(v, tuple) or not v:
            return v
        if v[0] == "obj":
            oid = v[1]
            if keep is not None and oid in keep:
                return v          # an object the caller already had keeps its identity
            if oid in dst.heap and dst.heap[oid] is src.heap.get(oid):
                return v
            if oid in seen:
                return seen[oid]
            ho = src.heap.get(oid)
            if ho is None or len(seen) > 64:
                return None
            cp = ho.copy()
            ref = dst.alloc(cp)
            seen[oid] = ref
            for k, x in list(cp.fields.items()):
                y = self._transplant(x, src, dst, seen, keep)
                if y is None:
                    return None
                cp.fields[k] = y
            new_items = []
            for it in cp.items:
                if isinstance(it, tuple) and len(it) == 2 and all(isinstance(z, tuple) for z in it) and ho.kind == "dict":
                    a, b = self._transplant(it[0], src, dst, seen, keep), self._transplant(it[1], src, dst, seen, keep)
                    if a is None or b is None:
                        return None
                    new_items.append((a, b))
                else:
                    y = self._transplant(it, src, dst, seen, keep)
                    if y is None:
                        return None
                    new_items.append(y)
            cp.items = new_items
            return ref
        if v[0] in ("tuple", "clist", "cset"):
            xs = [self._transplant(x, src, dst, seen, keep) for x in v[1]]
            return None if any(x is None for x in xs) else (v[0], tuple(xs))
        if v[0] == "ite":
            a, b = self._transplant(v[2], src, dst, seen, keep), self._transplant(v[3], src, dst, seen, keep)
            return None if a is None or b is None else ("ite", v[1], a, b)
        return v

    # ------------------------------------------------------------------
    def module_const_value(self, mod: Module, name: str) -> Optional[Term]:
        """Value of a module-level name whose initialiser is not a literal (a table derived by a comprehension,
        `timedelta(days=1)`, ...): the initialiser is interpreted once in an empty state; the result is used only
        if it is state-independent (constants, enum members, containers of those, pure applications) and its
        evaluation had no observable effect and could not raise."""
        cache = self.__dict__.setdefault("_modconst_cache", {})
        busy = self.__dict__.setdefault("_modconst_busy", set())
        key = (mod.name, name)
        if key in cache:
            return cache[key]
        if key in busy:
            return None
        busy.add(key)
        val: Optional[Term] = None
        try:
            muts = self._module_name_mutations(mod, name)
            if muts is not None:
                val = self._replay_import(mod, name, muts) if muts != "unknown" else None
            else:
                st = State()
                ctx = Ctx(None, mod, 0)
                v = self.eval(mod.constants[name], st, ctx)
                if not st.events and not st.pending and not st.pc:
                    val = self.reify(v, st)
        except (AnalysisError, Unsupported, NeedSplit, KeyError, IndexError, TypeError):
            val = None
        finally:
            busy.discard(key)
            self._replay_globals = {}
        cache[key] = val
        return val

    # -- module-level containers filled at import time (registries) ---------------------------------------------
    # `_BUILDERS = {}` followed by `@_builds(key) def f(...)` / `_BUILDERS[k] = f` / `register(k, f)` at the top level
    # of the module: the container's content after import is obtained by replaying exactly those top-level statements
    # in order.  That is its value at every later call only if nothing else ever mutates it: every mutation site
    # must sit in a top-level statement or in a helper function that is referenced from top-level statements /
    # decorators only (and from no other module).  Otherwise the name stays an un-modelled module variable (opaque).
    def _module_name_mutations(self, mod: Module, name: str) -> Any:
        """None: the module-level name is never mutated in place.  "unknown": mutated in a way that is not followed.
        Otherwise the set of top-level helper function names that contain a mutation site ('' = a top-level statement)."""
        memo = self.__dict__.setdefault("_modmut_memo", {})
        key = (mod.name, name)
        if os.environ.get("SA_NOREPLAY"):
            return None
        if key in memo:
            return memo[key]

        def mutates(n: ast.AST) -> bool:
            def is_name(e: ast.AST) -> bool:
                return isinstance(e, ast.Name) and e.id == name
            if isinstance(n, (ast.Assign, ast.Delete)):
                return any(isinstance(t, ast.Subscript) and is_name(t.value) for t in n.targets)
            if isinstance(n, ast.AugAssign):
                return is_name(n.target) or (isinstance(n.target, ast.Subscript) and is_name(n.target.value))
            if isinstance(n, ast.Call) and isinstance(n.func, ast.Attribute) and n.func.attr in self._MUTATORS:
                return is_name(n.func.value)
            return False

        helpers: set = set()
        res: Any = None
        for top in mod.tree.body:
            if not any(mutates(n) for n in ast.walk(top)):
                continue
            if isinstance(top, (ast.FunctionDef, ast.AsyncFunctionDef)):
                if any(isinstance(n, (ast.Global, ast.Nonlocal)) for n in ast.walk(top)) or name in {a.arg for a in ast.walk(top) if isinstance(a, ast.arg)}:
                    res = "unknown"
                    break
                helpers.add(top.name)
            elif isinstance(top, ast.ClassDef):
                res = "unknown"
                break
            else:
                helpers.add("")
        if res is None and helpers:
            res = helpers
            # the helpers are import-time tools only
            for h in helpers - {""}:
                for top in mod.tree.body:
                    inner = list(ast.walk(top))
                    if isinstance(top, (ast.FunctionDef, ast.AsyncFunctionDef, ast.ClassDef)):
                        decos = {id(x) for d in top.decorator_list for x in ast.walk(d)}
                        if any(isinstance(n, ast.Name) and n.id == h and id(n) not in decos for n in inner):
                            res = "unknown"
                for other in self.prog.all_modules(True):
                    if other is not mod and any(v == (mod.name, h) or v == (mod.name, name) for v in getattr(other, "imports", {}).values()):
                        res = "unknown"
        elif res is None:
            for other in self.prog.all_modules(True):
                if other is not mod and any(v == (mod.name, name) for v in getattr(other, "imports", {}).values()):
                    alias = [k for k, v in other.imports.items() if v == (mod.name, name)]
                    for n in ast.walk(other.tree):
                        for a_ in alias:
                            saved, name_ = name, a_
                            if (isinstance(n, (ast.Assign, ast.Delete)) and any(isinstance(t, ast.Subscript) and isinstance(t.value, ast.Name) and t.value.id == a_ for t in n.targets)) or \
                               (isinstance(n, ast.Call) and isinstance(n.func, ast.Attribute) and n.func.attr in self._MUTATORS and isinstance(n.func.value, ast.Name) and n.func.value.id == a_):
                                res = "unknown"
        memo[key] = res
        return res

    def _replay_import(self, mod: Module, name: str, helpers: set) -> Optional[Term]:
        st = State()
        ctx = Ctx(None, mod, 0)
        key = (mod.name, name)
        self._replay_globals = {}
        hs = helpers - {""}

        def mentions(e: ast.AST, names: set) -> bool:
            return any(isinstance(n, ast.Name) and n.id in names for n in ast.walk(e))

        for top in mod.tree.body:
            if isinstance(top, (ast.Assign, ast.AnnAssign)) and (top.targets[0] if isinstance(top, ast.Assign) else top.target) is not None:
                tgt = top.targets[0] if isinstance(top, ast.Assign) else top.target
                if isinstance(tgt, ast.Name) and tgt.id == name and (not isinstance(top, ast.Assign) or len(top.targets) == 1):
                    if top.value is None:
                        return None
                    v = self.eval(top.value, st, ctx)
                    if not (isinstance(v, tuple) and v[:1] == ("obj",) and st.heap[v[1]].kind in ("dict", "list", "set") and not st.heap[v[1]].symbolic):
                        return None
                    self._replay_globals[key] = v
                    continue
            if isinstance(top, (ast.FunctionDef, ast.AsyncFunctionDef, ast.ClassDef)):
                if not any(mentions(d, hs) for d in top.decorator_list):
                    continue
                if key not in self._replay_globals or len(top.decorator_list) != 1:
                    return None
                obj: Term = ("func", mod.functions[top.name]) if not isinstance(top, ast.ClassDef) else ("class", mod.classes[top.name])
                d = self.eval(top.decorator_list[0], st, ctx)
                out = self.call(d, [obj], {}, st, ctx, top.decorator_list[0])
                if out != obj:
                    return None          # the decorator replaces the function: the module-level name is not the def
                continue
            if mentions(top, hs | {name}) and not isinstance(top, (ast.Import, ast.ImportFrom)):
                touches = any(isinstance(n, ast.Name) and n.id in hs and isinstance(n.ctx, ast.Load) for n in ast.walk(top)) or \
                    any((isinstance(n, (ast.Assign, ast.Delete)) and any(isinstance(t, ast.Subscript) and isinstance(t.value, ast.Name) and t.value.id == name for t in n.targets))
                        or (isinstance(n, ast.Call) and isinstance(n.func, ast.Attribute) and n.func.attr in self._MUTATORS and isinstance(n.func.value, ast.Name) and n.func.value.id == name)
                        or (isinstance(n, ast.AugAssign)) for n in ast.walk(top))
                if not touches:
                    continue          # only reads it (another table derived from it is evaluated on its own)
                if key not in self._replay_globals:
                    return None
                res = self.exec_stmt(top, st, ctx)
                if len(res) != 1 or res[0][1] is not None or res[0][0] is not st:
                    return None
        if key not in self._replay_globals or any(e.kind == "call" for e in st.events) or st.pending or st.pc:
            return None          # (stores into the container itself are the point; anything observable is not import-time bookkeeping)
        return self.reify(self._replay_globals[key], st)

    def reify(self, v: Term, st: State) -> Optional[Term]:
        t = v[0] if isinstance(v, tuple) and v else None
        if t in ("c", "enum", "class", "func"):
            return v
        if t == "tuple":
            xs = [self.reify(x, st) for x in v[1]]
            return None if any(x is None for x in xs) else ("tuple", tuple(xs)) + tuple(v[2:])     # (a NamedTuple keeps its field names)
        if t in ("clist", "cset"):
            xs = [self.reify(x, st) for x in v[1]]
            return None if any(x is None for x in xs) else (t, tuple(xs))
        if t == "cdict":
            ps = [(self.reify(k, st), self.reify(x, st)) for k, x in v[1]]
            return None if any(k is None or x is None for k, x in ps) else ("cdict", tuple(ps))
        if t == "obj":
            ho = st.heap[v[1]]
            if ho.symbolic or ho.kind not in ("list", "set", "dict"):
                return None
            if ho.kind == "dict":
                ps = [(self.reify(k, st), self.reify(x, st)) for k, x in ho.items]
                return None if any(k is None or x is None for k, x in ps) else ("cdict", tuple(ps))
            xs = [self.reify(x, st) for x in ho.items]
            return None if any(x is None for x in xs) else ("clist" if ho.kind == "list" else "cset", tuple(xs))
        if t == "app" and v[1] in self.lib.PURE_APPS and v[1] not in self.lib.CLOCK_READS:
            xs = []
            for x in v[2:]:
                if isinstance(x, tuple) and x and x[0] == "kw":
                    r = self.reify(x[2], st)
                    xs.append(None if r is None else ("kw", x[1], r))
                else:
                    xs.append(self.reify(x, st))
            return None if any(x is None for x in xs) else v[:2] + tuple(xs)
        if t == "seq" and all(a[0] == "L" for a in v[2]):
            return v
        if t == "structobj" and is_c(v[1]):
            return v
        if t == "sliceobj" and all(is_c(x) for x in v[1:]):
            return v
        if t == "partialobj" and len(v) == 3:
            f_ = self.reify(v[1], st)
            xs = [self.reify(x, st) for x in v[2]]
            return None if f_ is None or any(x is None for x in xs) else ("partialobj", f_, tuple(xs))
        if t == "lambda" and len(v) == 5 and isinstance(v[4], dict):
            # a closure whose captured values are themselves constants (operator.attrgetter / itemgetter objects)
            cap = {k: self.reify(x, st) for k, x in v[4].items() if k.startswith("$")}
            if all(x is not None for x in cap.values()) and not any(not k.startswith("$") for k in v[4]):
                return (v[0], v[1], v[2], v[3], cap)
        return None

    # ------------------------------------------------------------------
    # pure expression evaluation
    def lift(self, x: Any) -> Term:
        if isinstance(x, EnumRef):
            return ("enum", x)
        if isinstance(x, (str, bytes, int, float, bool)) or x is None:
            return c(x)
        if isinstance(x, tuple):
            return ("tuple", tuple(self.lift(i) for i in x))
        if isinstance(x, list):
            return ("clist", tuple(self.lift(i) for i in x))
        if isinstance(x, dict):
            return ("cdict", tuple((self.lift(k), self.lift(v)) for k, v in x.items()))
        if isinstance(x, frozenset):
            return ("cset", tuple(self.lift(i) for i in sorted(x, key=repr)))
        raise AnalysisError(f"cannot lift constant {x!r}")

    def eval(self, node: ast.AST, st: State, ctx: Ctx) -> Term:
        m = getattr(self, "ev_" + type(node).__name__, None)
        if m is None:
            raise AnalysisError(f"unsupported expression {type(node).__name__} at {ctx.loc(node)}")
        return m(node, st, ctx)

    def ev_Constant(self, node: ast.Constant, st: State, ctx: Ctx) -> Term:
        return c(node.value)

    def ev_Name(self, node: ast.Name, st: State, ctx: Ctx) -> Term:
        if node.id in st.env:
            return st.env[node.id]
        r = self.prog.resolve_name(ctx.module, node.id)
        if r is not None:
            return self.ref_value(r, ctx)
        if node.id in self.lib.BUILTINS:
            return ("builtin", node.id)
        if node.id in EXC_PARENTS or node.id in ("Exception", "BaseException"):
            return ("builtin", node.id)
        raise AnalysisError(f"unresolved name {node.id} at {ctx.loc(node)}")

    def ref_value(self, r: tuple, ctx: Ctx) -> Term:
        if r[0] == "func":
            return ("func", r[1])
        if r[0] == "class":
            return ("class", r[1])
        if r[0] == "module":
            return ("module", r[1])
        if r[0] in ("ext", "extmod"):
            return ("ext", r[1])
        if r[0] == "enum":
            return ("enum", r[1])
        if r[0] == "const":
            mod, name = r[1], r[2]
            rg = getattr(self, "_replay_globals", None)
            if rg and (mod.name, name) in rg:
                return rg[(mod.name, name)]          # (import-time replay in progress, see module_const_value)
            try:
                if self._module_name_mutations(mod, name) is not None:
                    raise NotConst("filled at import time")
                return self.lift(self.prog.fold(mod, mod.constants[name]))
            except NotConst:
                init = mod.constants[name]
                lazy = (isinstance(init, ast.GeneratorExp) or (isinstance(init, ast.Call) and isinstance(init.func, ast.Name) and init.func.id in ("map", "filter", "zip", "iter", "reversed", "enumerate")))
                if lazy and ctx.fi is not None:
                    T.HAZARDS[("ONESHOT", f"{mod.name}:{name}")] = (f"module-level {name} = {ast.unparse(init)[:80]} is a one-shot iterator; {ctx.fi.qualname} consumes it: "
                                                                   f"the first call drains it and every later call sees it empty")
                v = self.module_const_value(mod, name)
                if v is not None:
                    return v
                # module-level object such as `logger = getLogger(__name__)`
                return ("modvar", mod.name, name)
        raise AnalysisError(f"cannot use reference {r[0]}")

    def ev_Attribute(self, node: ast.Attribute, st: State, ctx: Ctx) -> Term:
        base = self.eval(node.value, st, ctx)
        return self.getattr(base, node.attr, st, ctx, node)

    def getattr(self, base: Term, attr: str, st: State, ctx: Ctx, node: ast.AST) -> Term:
        t = base[0]
        if t == "structobj" and attr in ("size", "format") and is_c(base[1]) and isinstance(base[1][1], str):
            import struct as _struct
            try:
                return c(_struct.calcsize(base[1][1])) if attr == "size" else base[1]
            except _struct.error:
                pass
        if t == "tuple" and len(base) == 3 and isinstance(base[2], tuple) and base[2][:1] == ("nt",):
            # an instance of a typing.NamedTuple class: fields by name, the class's own methods, _replace / _asdict / _fields
            _, ckey, names = base[2]
            if attr in names:
                return base[1][names.index(attr)]
            nci = self.prog.cls(ckey)
            p_ = nci.find_property(attr)
            if p_ is not None:
                return self.call_user_nested(("bound", base, p_), [], {}, st, ctx, node)
            m_ = nci.find_method(attr)
            if m_ is not None:
                decos = [d.split("(")[0].split(".")[-1] for d in m_.decorators]
                return ("func", m_) if "staticmethod" in decos else ("bound", ("class", nci), m_) if "classmethod" in decos else ("bound", base, m_)
            if attr == "_fields":
                return ("tuple", tuple(c(n) for n in names))
            if attr in ("_replace", "_asdict"):
                return ("ntmeth", base, attr)
            ca_ = nci.class_level_init(attr)
            if ca_ is not None:
                return self.class_attr_value(ca_[0], attr, ca_[1], st, ctx, node)
            st.may_raise("AttributeError", c(True), ctx.loc(node))
            return top(f"never: NamedTuple {nci.name} has no attribute {attr}")
        if t == "module":
            r = self.prog.resolve_name(base[1], attr)
            if r is None:
                raise AnalysisError(f"unresolved attribute {base[1].name}.{attr} at {ctx.loc(node)}")
            return self.ref_value(r, ctx)
        if t == "ext":
            return ("ext", f"{base[1]}.{attr}")
        if t == "builtin":
            return ("ext", f"builtins.{base[1]}.{attr}")
        if t == "class":
            ci: ClassInfo = base[1]
            if ci.enum is not None and attr in ci.enum.members:
                return ("enum", EnumRef(ci.key, attr))
            m = ci.find_method(attr)
            if m is not None:
                if any(d.split("(")[0].split(".")[-1] == "classmethod" for d in m.decorators):
                    return ("bound", base, m)        # a classmethod reached through the class: cls is the class
                return ("func", m)
            ca_ = ci.class_level_init(attr)
            if ca_ is not None:
                return self.class_attr_value(ca_[0], attr, ca_[1], st, ctx, node)
            raise AnalysisError(f"unresolved class attribute {ci.key}.{attr} at {ctx.loc(node)}")
        if t == "enum":
            ref: EnumRef = base[1]
            info = self.prog.enum_of(ref)
            if attr == "name":
                return c(ref.member)
            if attr in info.attrs:
                # (a plain copy of a constructor argument, or - through EnumInfo.resolver - what interpreting the
                #  enum's constructor and property gives for this member)
                return self.lift(info.attr(ref.member, attr))
            ci = self.prog.cls(ref.cls)
            m = ci.find_method(attr)
            if m is not None:
                return ("bound", base, m)
            raise AnalysisError(f"unresolved enum attribute {ref!r}.{attr} at {ctx.loc(node)}")
        if t == "obj":
            ho = st.heap[base[1]]
            if ho.name == "bytesio" and attr in ("read", "getvalue", "tell"):
                return ("biometh", base, attr)
            if ho.kind == "obj":
                if attr in ho.fields:
                    return ho.fields[attr]
                if ho.cls is not None:
                    p = ho.cls.find_property(attr)
                    if p is not None:
                        if p.key in self.stubs:
                            return self.stubs[p.key](self, [base], {}, st, ctx, node)
                        return self.call_user_nested(("bound", base, p), [], {}, st, ctx, node)
                    mth = ho.cls.find_method(attr)
                    if mth is not None:
                        if any(d.split("(")[0].split(".")[-1] == "staticmethod" for d in mth.decorators):
                            return ("func", mth)
                        if any(d.split("(")[0].split(".")[-1] == "classmethod" for d in mth.decorators):
                            return ("bound", ("class", ho.cls), mth)
                        return ("bound", base, mth)
                if ho.cls is not None:
                    ov_ = self.class_overrides(ho.cls, ctx.loc(node))
                    if ov_:
                        for k_ in ho.cls.mro():
                            if (k_.key, attr) in ov_:
                                return ov_[(k_.key, attr)]      # a class attribute set by __init_subclass__
                    ca = ho.cls.class_level_init(attr)
                    if ca is not None:
                        cv_ = self.class_attr_value(ca[0], attr, ca[1], st, ctx, node)
                        if isinstance(cv_, tuple) and cv_[:1] == ("obj",) and cv_[1] in st.heap and st.heap[cv_[1]].cls is not None:
                            dget_ = st.heap[cv_[1]].cls.find_method("__get__")
                            if dget_ is not None:
                                # a descriptor: reading the attribute through an instance is descr.__get__(instance, owner)
                                return self.call_user_nested(("bound", cv_, dget_), [base, ("class", ho.cls)], {}, st, ctx, node)
                        return cv_
                if ho.symbolic:
                    typ: Any = "any"
                    if ho.cls is not None:
                        for f in (ho.cls.dc_fields() if ho.cls.is_dataclass else []):
                            if f.name == attr and f.annotation is not None:
                                typ = self.type_of_annotation(f.annotation, ho.cls.module)
                        if typ == "any":
                            typ = self._attr_type_from_init(ho.cls, attr)
                    v: Term = ("sym", f"{ho.name}.{attr}", typ)
                    v = self.materialise(v, st)
                    ho.fields[attr] = v
                    return v
                if ho.cls is not None and ho.cls.ext_bases and not ho.symbolic and not ho.name:
                    return ("extmeth", base, attr)
                if attr in getattr(ho, "absent", ()):
                    # the model of this instance says the attribute has not been set yet (e.g. never connected)
                    st.may_raise("AttributeError", c(True), ctx.loc(node))
                    return top(f"never: attribute {attr} is not set on this instance")
                if ho.name:
                    # attribute that no modelled constructor sets: state lingering from elsewhere
                    st.events.append(Event("readattr", f"{ho.name}.{attr}", (), (), ctx.loc(node), ctx.fi.key if ctx.fi else "", pc_len=len(st.pc)))
                    v = self.materialise(("sym", f"{ho.name}.{attr}", self._attr_type_from_init(ho.cls, attr) if ho.cls is not None else "any"), st)
                    ho.fields[attr] = v
                    return v
                raise AnalysisError(f"attribute {attr} not set on {self.describe(base, st)} at {ctx.loc(node)}")
            return ("extmeth", base, attr)
        if t == "sym":
            typ = base[2]
            if isinstance(typ, tuple) and typ and typ[0] == "enum":
                ci = self.prog.cls(typ[1])
                assert ci.enum is not None
                if attr in ci.enum.attrs:
                    alts = tuple(ci.enum.attr(m, attr) for m in ci.enum.members)
                    return ("eattr", base, attr, alts)
                if attr == "name":
                    return ("eattr", base, attr, tuple(ci.enum.members))
            return ("extmeth", base, attr)
        if t == "exc":
            if attr in ("strerror", "errno", "filename", "winerror", "reason", "msg") and len(base) > 3:
                # what the environment put into the exception it raised: a fact of the environment, not an unknown of
                # the analysis (one symbol per raise site and attribute)
                return ("sym", f"{base[1]}@{str(base[3]).split(' ')[0]}.{attr}", "any")
            if attr == "args" and len(base) > 2 and isinstance(base[2], tuple) and base[2]:
                return ("tuple", tuple(base[2]))
            return ("extmeth", base, attr)
        if t == "lookup" and all(v[0] == "enum" for _, v in base[1]):
            try:
                return ("lookup", tuple((k, self.getattr(v, attr, st, ctx, node)) for k, v in base[1]), base[2])
            except AnalysisError:
                pass
        if t == "app" and base[1] in ("type", "builtins.type") and attr in ("__name__", "__qualname__") and len(base) == 3:
            x_ = base[2]
            if isinstance(x_, tuple) and x_[:1] == ("exc",):
                return c(str(x_[1]).split(".")[-1])
            return ("seq", "s", (("txt", ("app", "typename", x_)),))        # the name of a class: some text, nothing the rules depend on
        if t == "ite":
            d = decided_by(st.pc, base[1])
            if d is True:
                return self.getattr(base[2], attr, st, ctx, node)
            if d is False:
                return self.getattr(base[3], attr, st, ctx, node)
            a = self.getattr(base[2], attr, st, ctx, node)
            b = self.getattr(base[3], attr, st, ctx, node)
            return ite(base[1], a, b)
        return ("extmeth", base, attr)

    def type_of_annotation(self, ann: ast.AST, mod: Module) -> Any:
        txt = ast.unparse(ann)
        if txt in ("str",):
            return "str"
        if txt in ("int",):
            return "int"
        if txt in ("bytes",):
            return "bytes"
        if txt in ("bool",):
            return "bool"
        if txt == "float":
            return "float"
        r = self.prog.resolve_expr(mod, ann) if isinstance(ann, (ast.Name, ast.Attribute)) else None
        if r is not None and r[0] == "class":
            if r[1].enum is not None:
                return ("enum", r[1].key)
            return ("obj", r[1].key)
        return "any"

    def materialise(self, v: Term, st: State) -> Term:
        """Symbolic values of repository class type become symbolic heap objects."""
        if v[0] == "sym" and isinstance(v[2], tuple) and v[2] and v[2][0] == "obj":
            ci = self.prog.cls(v[2][1])
            return self.sym_object(st, ci, v[1])
        return v

    def ev_NamedExpr(self, node: ast.NamedExpr, st: State, ctx: Ctx) -> Term:
        v = self.eval(node.value, st, ctx)
        self.assign(node.target, v, st, ctx)
        return v

    def ev_Await(self, node: ast.Await, st: State, ctx: Ctx) -> Term:
        inner = node.value
        if isinstance(inner, ast.Call):
            v = self.ev_Call(inner, st, ctx, awaited=True)
        else:
            v = self.eval(inner, st, ctx)
            # awaiting what an earlier call of an environment coroutine function returned: that call is awaited now
            for i_ in range(len(st.events) - 1, -1, -1):
                e_ = st.events[i_]
                if e_.kind == "call" and e_.result == v and not e_.awaited:
                    import dataclasses as _dc
                    st.events[i_] = _dc.replace(e_, awaited=True)
                    break
        if isinstance(v, tuple) and v[:1] == ("coro",):
            return self.call(v[1], list(v[2]), dict(v[3]), st, ctx, node, True)
        return v

    def ev_Call(self, node: ast.Call, st: State, ctx: Ctx, awaited: bool = False) -> Term:
        fv = self.eval(node.func, st, ctx)
        args, kwargs = self.eval_args(node, st, ctx)
        return self.call(fv, args, kwargs, st, ctx, node, awaited)

    def call(self, fv: Term, args: List[Term], kwargs: Dict[str, Term], st: State, ctx: Ctx, node: ast.AST, awaited: bool = False) -> Term:
        t = fv[0]
        if t in ("func", "bound", "class"):
            key = fv[1].key if t in ("func", "class") else fv[2].key
            if key in self.stubs:
                self.calls_resolved.append((ctx.loc(node), key + " [summary]"))
                a = ([fv[1]] if t == "bound" else []) + list(args)
                return self.stubs[key](self, a, kwargs, st, ctx, node)
            if t == "class" and fv[1].enum is not None:
                return self.lib.enum_by_value(self, fv[1], args, st, ctx, node)
            if t == "class" and any(b.split(".")[-1] == "NamedTuple" for b in fv[1].ext_bases) and not fv[1].find_method("__new__"):
                # a typing.NamedTuple: the tuple of its fields in declaration order
                names = [st_.target.id for st_ in fv[1].node.body if isinstance(st_, ast.AnnAssign) and isinstance(st_.target, ast.Name)]
                vals = list(args)
                dflt = {st_.target.id: st_.value for st_ in fv[1].node.body if isinstance(st_, ast.AnnAssign) and isinstance(st_.target, ast.Name) and st_.value is not None}
                for nm in names[len(vals):]:
                    if nm in kwargs:
                        vals.append(kwargs[nm])
                    elif nm in dflt:
                        vals.append(self.eval(dflt[nm], st, Ctx(None, fv[1].module, ctx.depth)))     # field default
                    else:
                        break
                if len(vals) == len(names):
                    return ("tuple", tuple(vals), ("nt", fv[1].key, tuple(names)))   # (the third component names the fields)
            tgt_ = fv[1] if t == "func" else fv[2] if t == "bound" else None
            if tgt_ is not None and getattr(tgt_, "is_async", False) and not awaited and not is_generator(tgt_):
                # calling a coroutine function only creates the coroutine object; its body runs where it is awaited
                return ("coro", fv, tuple(args), tuple(sorted(kwargs.items())))
            return self.call_user_nested(fv, args, kwargs, st, ctx, node)
        if t in ("ite", "lookup") and not os.environ.get("SA_NORESOLVE"):
            # a callable chosen by a condition / from a table: first what the path already knows decides
            fv2 = self.resolve_choice(fv, st)
            if fv2 != fv:
                return self.call(fv2, args, kwargs, st, ctx, node, awaited)
        if t == "ite" and len(fv) == 4 and all(isinstance(x, tuple) and x and x[0] in ("ntmeth", "lambda", "func", "bound", "partialobj", "biometh") for x in fv[2:]):
            # a method picked off a two-way choice of values (`(a if p else b).m()`): the choice of the two results;
            # what one alternative may raise is raised only when it is the one chosen
            res_ = []
            n_ev = len(st.events)
            for cnd_, f_ in ((fv[1], fv[2]), (neg(fv[1]), fv[3])):
                n0 = len(st.pending)
                res_.append(self.call(f_, list(args), dict(kwargs), st, ctx, node, awaited))
                st.pending[n0:] = [(e_, conj([cnd_, c2_]), w_, nev_) for e_, c2_, w_, nev_ in st.pending[n0:]]
            if len(st.events) != n_ev:
                raise NeedSplit(fv[1])       # observable effects: the statement is re-executed once per choice
            return ite(fv[1], res_[0], res_[1])
        if t == "coro" and not args and not kwargs:
            raise AnalysisError(f"coroutine object called at {ctx.loc(node)}")
        if t == "ext":
            return self.lib.call_ext(self, fv[1], args, kwargs, st, ctx, node, awaited)
        if t == "builtin":
            return self.lib.call_ext(self, "builtins." + fv[1], args, kwargs, st, ctx, node, awaited)
        if t == "extmeth":
            return self.lib.call_method(self, fv[1], fv[2], args, kwargs, st, ctx, node, awaited)
        if t == "lambda":
            if isinstance(fv[1], ast.AsyncFunctionDef) or (isinstance(fv[1], ast.FunctionDef) and kwargs):
                # a nested coroutine function (or a keyword call of a nested function): called like any repository function
                return self.call(("func", self.closure_function(fv)), args, kwargs, st, ctx, node, awaited)
            return self.call_lambda(fv, args, st, ctx, node)
        if t == "partialobj":
            return self.call(fv[1], list(fv[2]) + args, kwargs, st, ctx, node, awaited)
        if t == "ntmeth":
            vals_, (_, ckey_, names_) = list(fv[1][1]), fv[1][2]
            if fv[2] == "_replace" and not args:
                for k_, v_ in kwargs.items():
                    if k_ not in names_:
                        st.may_raise("ValueError", c(True), ctx.loc(node))
                        return top(f"never: _replace got an unexpected field name {k_}")
                    vals_[names_.index(k_)] = v_
                return ("tuple", tuple(vals_), fv[1][2])
            if fv[2] == "_asdict" and not args and not kwargs:
                return ("cdict", tuple((c(n_), v_) for n_, v_ in zip(names_, vals_))) if all(self.reify(v_, st) is not None for v_ in vals_) else st.alloc(HeapObj("dict", None, {}, [(c(n_), v_) for n_, v_ in zip(names_, vals_)]))
            raise AnalysisError(f"NamedTuple method {fv[2]} in a form that is not modelled at {ctx.loc(node)}")
        if t == "biometh" and not kwargs:
            # an in-memory byte stream: the buffer and a constant read position
            ho = st.heap[fv[1][1]]
            buf, pos = ho.fields["buf"], ho.fields["pos"]
            if fv[2] == "getvalue" and not args:
                return buf
            if fv[2] == "tell" and not args:
                return pos
            if fv[2] == "read" and is_c(pos) and isinstance(pos[1], int):
                n_ = args[0][1] if len(args) == 1 and is_c(args[0]) and isinstance(args[0][1], int) and not isinstance(args[0][1], bool) and args[0][1] >= 0 else None
                if not args or (len(args) == 1 and is_c(args[0]) and (args[0][1] is None or (isinstance(args[0][1], int) and args[0][1] < 0))):
                    ho.fields["pos"] = self.lib.length(self, buf, st, ctx, node)
                    return self.lib.slice_value(self, buf, pos, None, st, ctx, node)
                if n_ is not None:
                    ho.fields["pos"] = c(pos[1] + n_)    # (past the end when the buffer is shorter: later reads are empty either way)
                    return self.lib.slice_value(self, buf, pos, c(pos[1] + n_), st, ctx, node)
            raise AnalysisError(f"in-memory stream method {fv[2]} in a form that is not modelled at {ctx.loc(node)}")
        if t == "lookup" and fv[1] and all(isinstance(f, tuple) and f and f[0] in ("lambda", "func", "bound", "partialobj") for _, f in fv[1]):
            # call of a callable chosen from a table by a symbolic key: the table of the results; what an entry may
            # raise is raised only when the key selects it
            live_ = [(k, f) for k, f in fv[1] if decided_by(st.pc, mkcmp("==", fv[2], k)) is not False]
            if not live_:
                raise Infeasible()          # the table is only consulted where the key is one of its keys
            if len(live_) < len(fv[1]):
                return self.call(("lookup", tuple(live_), fv[2]) if len(live_) > 1 else live_[0][1], args, kwargs, st, ctx, node, awaited)
            alts = []
            n_ev = len(st.events)
            for k, f in fv[1]:
                n0 = len(st.pending)
                r = self.call(f, args, kwargs, st, ctx, node, awaited)
                st.pending[n0:] = [(e_, conj([mkcmp("==", fv[2], k), cnd_]), w_, nev_) for e_, cnd_, w_, nev_ in st.pending[n0:]]
                alts.append((k, r))
            if len(st.events) != n_ev:
                raise NeedSplit(mkcmp("==", fv[2], fv[1][0][0]))      # observable effects: one path per table entry
            return ("lookup", tuple(alts), fv[2])
        if t == "sym" or t == "modvar":
            # call of an opaque callable (user callback, factory...)
            # a user callback / factory is the environment; a module-level object the analyser could not evaluate is not
            return self.external_call(T.show(fv) if t == "sym" else f"{fv[2]}", args, kwargs, st, ctx, node, awaited, opaque=(t == "modvar"))
        if t == "ite" and len(fv) == 4 and _is_cond(fv[1]) and decided_by(st.pc, fv[1]) is None:
            raise NeedSplit(fv[1])
        raise AnalysisError(f"call of non-callable {T.show(fv)[:300]} at {ctx.loc(node)}")

    def resolve_choice(self, v: Term, st: State) -> Term:
        """`v` specialised to the path: choices whose condition the path decides, table look-ups whose key the path
        fixes, and what then folds (membership of a constant in constants, choices on constants)."""
        from .frames import restrict

        def const_like(x: Any) -> bool:
            return isinstance(x, tuple) and bool(x) and (x[0] in ("c", "enum") or (x[0] == "seq" and len(x) == 3 and all(isinstance(a, tuple) and a[:1] == ("L",) for a in x[2])))

        def fold(x: Any) -> Any:
            if not isinstance(x, tuple) or not x:
                return x
            if x[0] in ("func", "bound", "lambda", "class", "enum", "obj", "c"):
                return x
            y = tuple(fold(z) for z in x)
            if len(y) == 4 and y[0] == "cmp" and y[1] in ("in", "not in") and const_like(y[2]) and isinstance(y[3], tuple) and y[3][:1] == ("tuple",) and all(const_like(k) for k in y[3][1]):
                r = any(k == y[2] for k in y[3][1])
                return c(r if y[1] == "in" else not r)
            if len(y) == 4 and y[0] == "cmp" and y[1] in ("is", "is not", "==", "!=") and const_like(y[2]) and const_like(y[3]) and (y[2][0] == "enum" or y[3][0] == "enum" or (is_c(y[2]) and y[2][1] is None) or (is_c(y[3]) and y[3][1] is None)):
                r = y[2] == y[3]
                return c(r if y[1] in ("is", "==") else not r)
            if len(y) == 4 and y[0] == "ite" and is_c(y[1]) and isinstance(y[1][1], bool):
                return y[2] if y[1][1] else y[3]
            if len(y) == 3 and y[0] == "lookup" and const_like(y[2]):
                for k, val in y[1]:
                    if k == y[2]:
                        return val
            if y[0] == "and":
                return conj(list(y[1:]))
            if y[0] == "or":
                return disj(list(y[1:]))
            if y[0] == "not" and len(y) == 2 and is_c(y[1]) and isinstance(y[1][1], bool):
                return c(not y[1][1])
            return y

        cur = v
        for _ in range(4):
            nxt = fold(restrict(cur, list(st.pc)))
            if nxt == cur:
                break
            cur = nxt
        return cur

    def external_call(self, target: str, args: List[Term], kwargs: Dict[str, Term], st: State, ctx: Ctx, node: ast.AST, awaited: bool, result: Optional[Term] = None, opaque: bool = False) -> Term:
        """An observable call the repository does not define.  The result of a call on an environment object
        (stream, transport, loop, user callback) is a fresh unknown - an exact model of the environment.  With
        opaque=True the callee is a library function / value method the analyser has no model for: its result is
        named `opq:` and counts as imprecision of the analysis (terms.OPAQUE_SEEN)."""
        for a_ in list(args) + list(kwargs.values()):
            self.frozen_guard(a_, st, f"passed to {target}", ctx.loc(node))
        if opaque:
            # a library function without a model that is handed a mutable container may change it (heapq.heapify, random.shuffle,
            # list.sort through a helper ...): the container's content is unknown afterwards, and the run is marked imprecise
            touched = False
            for a_ in list(args) + list(kwargs.values()):
                if isinstance(a_, tuple) and a_[:1] == ("obj",) and a_[1] in st.heap and st.heap[a_[1]].kind in ("list", "dict", "set") and not st.heap[a_[1]].name.startswith("memo:"):
                    ho_ = st.heap[a_[1]]
                    ho_.symbolic, ho_.items = True, []
                    ho_.name = f"opq:argument of {target}"
                    touched = True
                elif isinstance(a_, tuple) and a_[:1] == ("obj",) and a_[1] in st.heap and st.heap[a_[1]].name == "bytearray":
                    st.heap[a_[1]].fields["buf"] = top(f"buffer handed to {target}")
                    touched = True
            if touched and not target.startswith("opq:"):
                target = "opq:" + target
        if result is None:
            result = ("sym", st.fresh(f"{'opq' if opaque else 'ret'}:{target}"), "any")
        st.events.append(
            Event("call", target, tuple(args), tuple(sorted(kwargs.items())), ctx.loc(node), ctx.fi.key if ctx.fi else "", awaited, result, len(st.pc))
        )
        self.calls_unresolved.append((ctx.loc(node), target))
        return result

    def call_lambda(self, fv: Term, args: List[Term], st: State, ctx: Ctx, node: ast.AST) -> Term:
        lam: ast.AST = fv[1]
        closure: Dict[str, Term] = fv[4]
        if isinstance(lam, ast.Lambda):
            names = [a.arg for a in lam.args.args]
            saved = st.env
            env = dict(closure)
            env.update({k: v for k, v in saved.items() if k not in env})
            if len(names) != len(args):
                raise AnalysisError(f"lambda arity mismatch at {ctx.loc(node)}")
            env.update(dict(zip(names, args)))
            st.env = env
            try:
                return self.eval(lam.body, st, Ctx(fv[3], fv[3].module if fv[3] else ctx.module, ctx.depth))
            finally:
                st.env = saved
        if isinstance(lam, ast.FunctionDef):
            body = [b for b in lam.body if not (isinstance(b, ast.Expr) and isinstance(b.value, ast.Constant))]
            a_ = lam.args
            if (len(body) == 1 and isinstance(body[0], ast.Return) and body[0].value is not None and not a_.vararg and not a_.kwarg
                    and not a_.kwonlyargs and not a_.defaults and len(a_.args) == len(args) and not lam.decorator_list):
                saved = st.env
                env = dict(closure)
                env.update({k: v for k, v in saved.items() if k not in env})
                env.update(dict(zip([x.arg for x in a_.args], args)))
                st.env = env
                try:
                    return self.eval(body[0].value, st, Ctx(fv[3], fv[3].module if fv[3] else ctx.module, ctx.depth))
                finally:
                    st.env = saved
            if (body and isinstance(body[-1], ast.Return) and body[-1].value is not None and not a_.vararg and not a_.kwarg and not a_.kwonlyargs and not a_.defaults
                    and len(a_.args) == len(args) and not lam.decorator_list and all(isinstance(b, (ast.Assign, ast.AnnAssign)) for b in body[:-1])
                    and not any(isinstance(n, (ast.Nonlocal, ast.Global, ast.Yield, ast.YieldFrom, ast.Await)) for b in body for n in ast.walk(b))):
                # straight-line local function: assignments to its own locals, then one return; each statement must
                # continue on exactly one path (no fork inside an expression position)
                saved = st.env
                env = dict(closure)
                env.update({k: v for k, v in saved.items() if k not in env})
                env.update(dict(zip([x.arg for x in a_.args], args)))
                st.env = env
                nctx = Ctx(fv[3], fv[3].module if fv[3] else ctx.module, ctx.depth)
                try:
                    for b in body[:-1]:
                        res = self.exec_stmt(b, st, nctx)
                        if len(res) != 1 or res[0][1] is not None or res[0][0] is not st:
                            raise AnalysisError(f"nested def call at {ctx.loc(node)}: a statement of the local function forks")
                    return self.eval(body[-1].value, st, nctx)
                finally:
                    st.env = saved
        only_wraps = all(isinstance(d, ast.Call) and ast.unparse(d.func).split(".")[-1] == "wraps" for d in lam.decorator_list) if isinstance(lam, (ast.FunctionDef, ast.AsyncFunctionDef)) else False
        if isinstance(lam, (ast.FunctionDef, ast.AsyncFunctionDef)) and only_wraps and not any(isinstance(n, (ast.Nonlocal, ast.Global)) for n in ast.walk(lam)):
            return self.call_user_nested(("func", self.closure_function(fv)), args, {}, st, ctx, node)
        raise AnalysisError(f"nested def call at {ctx.loc(node)}")

    def closure_function(self, fv: Term) -> FunctionInfo:
        """A nested `def` as a function of its own: its body is analysed like any repository function, with the
        variables of the definition site (as they were when the def was executed) visible as its free variables."""
        lam = fv[1]
        memo = self.__dict__.setdefault("_closure_fis", {})
        k = (id(lam), id(fv[4]))
        if k not in memo:
            outer: Any = fv[3]
            mod = outer.module if outer is not None else None
            if mod is None:
                raise AnalysisError("nested def outside a module")
            fi2 = FunctionInfo(mod, f"{outer.qualname if outer is not None else ''}.<locals>.{lam.name}", lam, None, isinstance(lam, ast.AsyncFunctionDef))
            fi2.closure = {kk: vv for kk, vv in fv[4].items()}  # type: ignore[attr-defined]
            memo[k] = (fi2, fv[4])          # (keeps the env alive so the id stays unique)
        return memo[k][0]

    def ev_Lambda(self, node: ast.Lambda, st: State, ctx: Ctx) -> Term:
        return ("lambda", node, None, ctx.fi, dict(st.env))

    def ev_IfExp(self, node: ast.IfExp, st: State, ctx: Ctx) -> Term:
        cond = self.truth(self.eval(node.test, st, ctx), st)
        if is_c(cond):
            return self.eval(node.body if cond[1] else node.orelse, st, ctx)
        d_ = decided_by(st.pc, cond) if _is_cond(cond) else None
        if d_ is not None:
            return self.eval(node.body if d_ else node.orelse, st, ctx)      # the path has already decided the test
        # evaluate both arms; may-raise conditions of an arm are guarded by the arm's condition
        p0 = len(st.pending)
        a = self.eval(node.body, st, ctx)
        p1 = len(st.pending)
        b = self.eval(node.orelse, st, ctx)
        for i in range(p0, p1):
            e, cnd, w, nev = st.pending[i]
            st.pending[i] = (e, conj([cond, cnd]), w, nev)
        for i in range(p1, len(st.pending)):
            e, cnd, w, nev = st.pending[i]
            st.pending[i] = (e, conj([neg(cond), cnd]), w, nev)
        sa_, sb_ = (T.to_seq(a) if self.lib._textlike(a) else None), (T.to_seq(b) if self.lib._textlike(b) else None)
        def _template_like(q: Term) -> bool:
            return len(q[2]) >= 3 and any(isinstance(at, tuple) and at[:1] == ("L",) and len(at[1]) >= 16 for at in q[2])
        if (sa_ is not None and sb_ is not None and sa_[1] == sb_[1] and sa_ != sb_ and not (is_c(a) and is_c(b)) and _is_cond(cond)
                and (_template_like(sa_) or _template_like(sb_))):
            # a choice between two filled-in packet templates (several pieces around a long literal; not a field value):
            # the statement is re-executed once per choice - the fork an `if` statement around it would be
            raise NeedSplit(cond)
        return ite(cond, a, b)

    def ev_BoolOp(self, node: ast.BoolOp, st: State, ctx: Ctx) -> Term:
        vals = []
        is_and = isinstance(node.op, ast.And)
        guard: List[Term] = []
        for i, v in enumerate(node.values):
            p0 = len(st.pending)
            n_ev = len(st.events)
            x = self.eval(v, st, ctx)
            # short circuit: later operands only evaluated under the guard
            if guard:
                for j in range(p0, len(st.pending)):
                    e, cnd, w, nev = st.pending[j]
                    st.pending[j] = (e, conj(guard + [cnd]), w, nev)
                if any(not _benign_event(e_, st) for e_ in st.events[n_ev:]):
                    # the operand does something observable (a call on an object of the environment ...): whether it
                    # happens depends on the operands before it, so the statement is re-executed once per outcome
                    for g_ in guard:
                        if decided_by(st.pc, g_) is None:
                            raise NeedSplit(g_)
            tx = self.truth(x, st)
            if not is_c(tx) and i < len(node.values) - 1:
                d_ = decided_by(st.pc, tx)
                if d_ is not None:
                    tx = c(d_)
            if is_c(tx):
                if is_and and not tx[1]:
                    vals.append(x)
                    break
                if (not is_and) and tx[1]:
                    vals.append(x)
                    break
                if i < len(node.values) - 1:
                    continue  # neutral element, skip
            vals.append(x)
            guard.append(tx if is_and else neg(tx))
        if len(vals) == 1:
            return vals[0]
        if all(_is_cond(v) for v in vals):
            return ("and" if is_and else "or",) + tuple(vals)
        # used for its value: `a or b` is a if a is true else b; `a and b` is b if a is true else a
        acc = vals[-1]
        for v in reversed(vals[:-1]):
            tv = self.truth(v, st)
            if _is_cond(v):
                # a truth value as operand: when it decides the result, the result is that bool
                acc = ite(tv, c(True), acc) if not is_and else ite(tv, acc, c(False))
            else:
                acc = ite(tv, v, acc) if not is_and else ite(tv, acc, v)
        return acc

    def ev_UnaryOp(self, node: ast.UnaryOp, st: State, ctx: Ctx) -> Term:
        v = self.eval(node.operand, st, ctx)
        if isinstance(node.op, ast.Not):
            return neg(self.truth(v, st))
        if isinstance(node.op, ast.USub):
            if is_c(v) and isinstance(v[1], (int, float)):
                return c(-v[1])
            return Lin.of(v).scale(-1).term() if _linear_ok(v) else ("app", "neg", v)
        raise AnalysisError(f"unsupported unary op at {ctx.loc(node)}")

    def ev_Compare(self, node: ast.Compare, st: State, ctx: Ctx) -> Term:
        left = self.eval(node.left, st, ctx)
        parts = []
        for op, rn in zip(node.ops, node.comparators):
            right = self.eval(rn, st, ctx)
            parts.append(self.compare(op, left, right, st, ctx, node))
            left = right
        return conj(parts) if len(parts) > 1 else parts[0]

    def compare(self, op: ast.cmpop, a: Term, b: Term, st: State, ctx: Ctx, node: ast.AST) -> Term:
        name = {
            ast.Eq: "==", ast.NotEq: "!=", ast.Lt: "<", ast.LtE: "<=", ast.Gt: ">", ast.GtE: ">=",
            ast.Is: "is", ast.IsNot: "is not", ast.In: "in", ast.NotIn: "not in",
        }[type(op)]
        if name in ("==", "!=") and a[0] == "tuple" and b[0] == "tuple":
            if len(a[1]) != len(b[1]):
                return c(name == "!=")
            parts_ = [self.compare(ast.Eq(), x, y, st, ctx, node) for x, y in zip(a[1], b[1])]
            eq_ = conj(parts_)
            return eq_ if name == "==" else neg(eq_)
        for x_, y_ in ((a, b), (b, a)):
            # an unsigned number read from w hex digits equals k  <=>  those digits are the w-digit hex text of k
            if name in ("==", "!=") and isinstance(x_, tuple) and x_[:1] == ("uint",) and is_c(y_) and isinstance(y_[1], int) and not isinstance(y_[1], bool):
                w_ = T.const_width(("seq", "s", x_[1]))
                if w_ is not None and 0 <= y_[1] < 16 ** int(w_):
                    return self.compare(op, ("seq", "s", x_[1]), c(format(y_[1], f"0{int(w_)}x")), st, ctx, node)
        if name in ("is", "is not", "==", "!=") and is_c(b) and b[1] is None and isinstance(a, tuple) and len(a) == 4 and a[0] == "ite" and _is_cond(a[1]):
            # (x if p else y) is None: decided per branch - in the true branch p holds (so a value p says is truthy is
            # not None), in the false branch not p
            ra = self.compare(op, a[2], b, st, ctx, node)
            rb = self.compare(op, a[3], b, st, ctx, node)
            if not is_c(ra):
                d_ = decided_by(list(st.pc) + _atoms(a[1]), ra)
                ra = c(d_) if d_ is not None else ra
            if not is_c(rb):
                d_ = decided_by(list(st.pc) + _atoms(neg(a[1])), rb)
                rb = c(d_) if d_ is not None else rb
            if is_c(ra) and is_c(rb):
                return c(ra[1]) if ra[1] == rb[1] else (a[1] if ra[1] else neg(a[1]))
        if name in ("is", "is not", "==", "!=") and isinstance(a, tuple) and len(a) == 3 and a[0] == "lookup" and a[1] and (is_c(b) or b[0] == "enum"):
            # a value read from a table compared with a constant: decided when every entry decides it the same way
            rs_ = set()
            for _k, v_ in a[1]:
                if isinstance(v_, tuple) and v_ and v_[0] in ("func", "bound", "lambda", "class", "partialobj"):
                    rs_.add(False)            # a function / class object is not None and equals no constant
                else:
                    r_ = self.compare(ast.Eq(), v_, b, st, ctx, node)
                    rs_.add(r_[1] if is_c(r_) and isinstance(r_[1], bool) else None)
            if len(rs_) == 1 and None not in rs_:
                eq_ = rs_.pop()
                return c(eq_ if name in ("is", "==") else not eq_)
        a2, b2 = self.canon_cmp_operand(a, st), self.canon_cmp_operand(b, st)
        # a raw byte string compared with literal bytes: bring the literal to the raw (hex nibble) form too
        if T.is_seq(a) and T.is_seq(a2) and a[1] == "raw" and is_c(b) and isinstance(b[1], bytes):
            b2 = ("seq", "raw", (("L", b[1].hex()),) if b[1] else ())
        elif T.is_seq(b) and T.is_seq(b2) and b[1] == "raw" and is_c(a) and isinstance(a[1], bytes):
            a2 = ("seq", "raw", (("L", a[1].hex()),) if a[1] else ())
        if T.is_seq(a2) and T.is_seq(b2) and a2[1] == "raw" and b2[1] == "raw" and name in ("==", "!="):
            # equality of two byte strings is equality of their hex texts (hexlify is a bijection): one canonical form
            a2, b2 = ("seq", "s", a2[2]), ("seq", "s", b2[2])
        elif (T.is_seq(a2) and T.is_seq(b2) and {a2[1], b2[1]} == {"raw", "s"} and name in ("==", "!=")):
            # bytes versus text of unknown content never compare equal; nothing is folded from their spelling
            return mkcmp(name, a2, b2)
        folded = fold_cmp(name, a2, b2)
        if folded is not None:
            return c(folded)
        # comparison of a two-valued choice with a constant distributes over the choice
        if name in ("==", "!=", "is", "is not"):
            for x, y in ((a2, b2), (b2, a2)):
                if x[0] == "ite" and _known(y):
                    fa, fb = fold_cmp(name, x[2], y), fold_cmp(name, x[3], y)
                    if fa is not None and fb is not None:
                        if fa and not fb:
                            return x[1]
                        if fb and not fa:
                            return neg(x[1])
                        return ite(x[1], c(fa), c(fb))
        if name in ("in", "not in"):
            r = self.lib.membership(self, a2, b2, st, ctx, node)
            if r is not None:
                return r if name == "in" else neg(r)
        return mkcmp(name, a2, b2)

    def canon_cmp_operand(self, v: Term, st: State) -> Term:
        s = T.to_seq(v) if (is_c(v) and isinstance(v[1], (str, bytes))) else None
        if T.is_seq(v):
            # compare by text content irrespective of str/bytes carrier
            return ("seq", "s" if v[1] in ("s", "b") else v[1], v[2])
        if s is not None:
            return ("seq", "s", s[2])
        return v

    def ev_BinOp(self, node: ast.BinOp, st: State, ctx: Ctx) -> Term:
        a = self.eval(node.left, st, ctx)
        b = self.eval(node.right, st, ctx)
        return self.binop(node.op, a, b, st, ctx, node)

    def binop(self, op: ast.operator, a: Term, b: Term, st: State, ctx: Ctx, node: ast.AST) -> Term:
        return self.lib.binop(self, op, a, b, st, ctx, node)

    def ev_Subscript(self, node: ast.Subscript, st: State, ctx: Ctx) -> Term:
        base = self.eval(node.value, st, ctx)
        if isinstance(node.slice, ast.Slice):
            lo = self.eval(node.slice.lower, st, ctx) if node.slice.lower else None
            hi = self.eval(node.slice.upper, st, ctx) if node.slice.upper else None
            if node.slice.step is not None:
                stepv = self.eval(node.slice.step, st, ctx)
                if is_c(stepv) and stepv[1] == -1 and lo is None and hi is None:
                    return self.lib.reverse_value(self, base, st, ctx, node)
                if (is_c(stepv) and stepv[1] == -1 and lo is not None and hi is not None and is_c(lo) and is_c(hi)
                        and isinstance(lo[1], int) and isinstance(hi[1], int) and 0 <= hi[1] < lo[1]):
                    # x[a:b:-1] takes x[a], x[a-1], ..., x[b+1]: the reversal of x[b+1:a+1]
                    inner_ = self.lib.slice_value(self, base, c(hi[1] + 1), c(lo[1] + 1), st, ctx, node)
                    return self.lib.reverse_value(self, inner_, st, ctx, node)
                if not (is_c(stepv) and stepv[1] in (1, None)):
                    raise AnalysisError(f"slice step at {ctx.loc(node)}")
            return self.lib.slice_value(self, base, lo, hi, st, ctx, node)
        idx = self.eval(node.slice, st, ctx)
        if isinstance(idx, tuple) and idx and idx[0] == "sliceobj":
            # x[slice(a, b)] == x[a:b]
            lo, hi, stepv = (None if v == c(None) else v for v in idx[1:4])
            if stepv is not None:
                if is_c(stepv) and stepv[1] == -1 and lo is None and hi is None:
                    return self.lib.reverse_value(self, base, st, ctx, node)
                if not (is_c(stepv) and stepv[1] == 1):
                    raise AnalysisError(f"slice step at {ctx.loc(node)}")
            return self.lib.slice_value(self, base, lo, hi, st, ctx, node)
        return self.lib.index_value(self, base, idx, st, ctx, node)

    def _display(self, node: Any, kind: str, st: State, ctx: Ctx) -> Any:
        """Items of a [..] / (..) / {..} display; `*xs` entries are spliced in.  Returns a list of items, or a term when
        the display is exactly `[*xs]` over a collection of unknown length (that is list(xs) / tuple(xs) / set(xs))."""
        if not any(isinstance(e, ast.Starred) for e in node.elts):
            return [self.eval(e, st, ctx) for e in node.elts]
        items: List[Term] = []
        for e in node.elts:
            if not isinstance(e, ast.Starred):
                items.append(self.eval(e, st, ctx))
                continue
            v = self.eval(e.value, st, ctx)
            its = self.iter_items(v, st, ctx, node)
            if its is None:
                if len(node.elts) == 1:
                    return self.lib.call_ext(self, "builtins." + kind, [v], {}, st, ctx, node, False)
                raise AnalysisError(f"starred item of unknown length in a display at {ctx.loc(node)}")
            items.extend(its)
        return items

    def ev_Tuple(self, node: ast.Tuple, st: State, ctx: Ctx) -> Term:
        r = self._display(node, "tuple", st, ctx)
        return ("tuple", tuple(r)) if isinstance(r, list) else r

    def ev_List(self, node: ast.List, st: State, ctx: Ctx) -> Term:
        r = self._display(node, "list", st, ctx)
        return st.alloc(HeapObj("list", None, {}, r)) if isinstance(r, list) else r

    def ev_Set(self, node: ast.Set, st: State, ctx: Ctx) -> Term:
        r = self._display(node, "set", st, ctx)
        if isinstance(r, list):
            uniq: List[Term] = []
            for x in r:
                if x not in uniq:
                    uniq.append(x)
            return st.alloc(HeapObj("set", None, {}, uniq))
        return r

    def ev_Dict(self, node: ast.Dict, st: State, ctx: Ctx) -> Term:
        items = []
        for k, v in zip(node.keys, node.values):
            if k is None:
                dv = self.eval(v, st, ctx)
                pairs = None
                if dv[0] == "cdict":
                    pairs = list(dv[1])
                elif dv[0] == "obj" and st.heap[dv[1]].kind == "dict" and not st.heap[dv[1]].symbolic:
                    pairs = list(st.heap[dv[1]].items)
                if pairs is None:
                    raise AnalysisError(f"dict unpacking of an unknown mapping at {ctx.loc(node)}")
                for k2, v2 in pairs:
                    if any(k3 == k2 for k3, _ in items):
                        items = [(k3, v2 if k3 == k2 else v3) for k3, v3 in items]
                    else:
                        items.append((k2, v2))
                continue
            kk, vv = self.eval(k, st, ctx), self.eval(v, st, ctx)
            if any(k3 == kk for k3, _ in items):
                items = [(k3, vv if k3 == kk else v3) for k3, v3 in items]
            else:
                items.append((kk, vv))
        return st.alloc(HeapObj("dict", None, {}, items))

    def ev_JoinedStr(self, node: ast.JoinedStr, st: State, ctx: Ctx) -> Term:
        out: Term = ("seq", "s", ())
        for v in node.values:
            if isinstance(v, ast.Constant):
                out = T.concat(out, c(str(v.value)))
            elif isinstance(v, ast.FormattedValue):
                x = self.eval(v.value, st, ctx)
                spec = ""
                if v.format_spec is not None:
                    sp = self.eval(v.format_spec, st, ctx)
                    sps = T.to_seq(sp)
                    if sps is None or len(sps[2]) > 1 or (sps[2] and sps[2][0][0] != "L"):
                        raise AnalysisError(f"dynamic format spec at {ctx.loc(node)}")
                    spec = sps[2][0][1] if sps[2] else ""
                out = T.concat(out, self.lib.format_value(self, x, spec, st, ctx, node))
            else:
                raise AnalysisError(f"f-string part at {ctx.loc(node)}")
        return self.lib.merge_strftime(out)

    def ev_ListComp(self, node: ast.ListComp, st: State, ctx: Ctx) -> Term:
        if len(node.generators) != 1 or node.generators[0].is_async:
            raise AnalysisError(f"unsupported comprehension at {ctx.loc(node)}")
        g = node.generators[0]
        itv = self.prune(self.eval(g.iter, st, ctx), st)
        if (isinstance(itv, tuple) and len(itv) == 3 and itv[0] == "app" and itv[1] in ("list", "builtins.list", "tuple", "builtins.tuple") and isinstance(itv[2], tuple)
                and itv[2][:1] == ("sym",) and isinstance(itv[2][2], tuple) and itv[2][2][:1] in (("set",), ("list",))):
            itv = itv[2]        # a comprehension over list(xs) / tuple(xs) of a collection visits the members of xs
        items = self.iter_items(itv, st, ctx, node)
        if g.ifs and items is not None:
            # concrete items: keep those whose filter is decided true; a filter that stays symbolic gives a
            # conditional list (only `next(...)` knows how to consume it)
            saved = dict(st.env)
            pairs: List[Tuple[Term, Term]] = []
            for it in items:
                self.assign(g.target, it, st, ctx)
                cnd = conj([self.truth(self.eval(t_, st, ctx), st) for t_ in g.ifs])
                if is_c(cnd) and not cnd[1]:
                    continue
                pairs.append((cnd, self.eval(node.elt, st, ctx)))
            st.env = saved
            if all(is_c(cn) for cn, _ in pairs):
                return st.alloc(HeapObj("list", None, {}, [v for _, v in pairs]))
            return ("condlist", tuple(pairs))
        if g.ifs:
            if items is not None:
                raise AnalysisError(f"unsupported comprehension (filter over a concrete collection inside an expression) at {ctx.loc(node)}")
            # [e(x) for x in xs if p(x)] over a symbolic collection == map(e, filter(p, xs)): same canonical form
            arg = ast.arguments(posonlyargs=[], args=[ast.arg(arg=_single_name(g.target, ctx))], kwonlyargs=[], kw_defaults=[], defaults=[])
            test = g.ifs[0] if len(g.ifs) == 1 else ast.BoolOp(op=ast.And(), values=list(g.ifs))
            plam = ("lambda", ast.copy_location(ast.Lambda(args=arg, body=test), node), None, ctx.fi, dict(st.env))
            filt = ("filterobj", self.lib.lambda_norm(self, plam, itv, st, ctx, node), itv)
            if isinstance(node.elt, ast.Name) and node.elt.id == _single_name(g.target, ctx):
                return ("app", "list", filt)
            elam = ("lambda", ast.copy_location(ast.Lambda(args=arg, body=node.elt), node), None, ctx.fi, dict(st.env))
            return ("mapobj", self.lib.lambda_norm(self, elam, itv, st, ctx, node), filt, "list")
        if items is not None:
            saved = dict(st.env)
            res = []
            for it in items:
                self.assign(g.target, it, st, ctx)
                res.append(self.eval(node.elt, st, ctx))
            st.env = saved
            return st.alloc(HeapObj("list", None, {}, res))
        # symbolic iterable: keep as a mapped collection
        if self._elt_needs_loop(node.elt, g, ctx):
            # the element expression calls repository code (constructors, methods of the element): applied per
            # item when the collection is iterated, not once on a placeholder
            lam0 = ast.Lambda(args=ast.arguments(posonlyargs=[], args=[ast.arg(arg=_single_name(g.target, ctx))], kwonlyargs=[], kw_defaults=[], defaults=[]), body=node.elt)
            ast.copy_location(lam0, node)
            ast.fix_missing_locations(lam0)
            return ("lazymap", ("lambda", lam0, None, ctx.fi, dict(st.env)), itv)
        lam = ("lambda", ast.Lambda(args=ast.arguments(posonlyargs=[], args=[ast.arg(arg=_single_name(g.target, ctx))], kwonlyargs=[], kw_defaults=[], defaults=[]), body=node.elt), None, ctx.fi, dict(st.env))
        # canonical element term: the comprehension body applied to the collection's element symbol
        return ("mapobj", self.lib.lambda_norm(self, lam, itv, st, ctx, node), itv, "list")

    def ev_GeneratorExp(self, node: ast.GeneratorExp, st: State, ctx: Ctx) -> Term:
        return self.ev_ListComp(node, st, ctx)  # type: ignore[arg-type]

    def ev_SetComp(self, node: ast.SetComp, st: State, ctx: Ctx) -> Term:
        v = self.ev_ListComp(node, st, ctx)  # type: ignore[arg-type]
        if v[0] == "obj":
            ho = st.heap[v[1]]
            uniq: List[Term] = []
            for it in ho.items:
                if it not in uniq:
                    uniq.append(it)
            ho.kind, ho.items = "set", uniq
            return v
        if v[0] == "mapobj":
            return ("mapobj", v[1], v[2], "set")
        return v

    def ev_DictComp(self, node: ast.DictComp, st: State, ctx: Ctx) -> Term:
        if len(node.generators) != 1 or node.generators[0].ifs or node.generators[0].is_async:
            raise AnalysisError(f"unsupported comprehension at {ctx.loc(node)}")
        g = node.generators[0]
        itv = self.eval(g.iter, st, ctx)
        items = self.iter_items(itv, st, ctx, node)
        if items is None:
            return top("dict comprehension over a symbolic collection")
        saved = dict(st.env)
        pairs: List[Tuple[Term, Term]] = []
        for it in items:
            self.assign(g.target, it, st, ctx)
            k_ = self.canon_cmp_operand(self.eval(node.key, st, ctx), st)
            v_ = self.eval(node.value, st, ctx)
            # a repeated key keeps its first position and takes the last value, like dict
            if any(k2 == k_ for k2, _ in pairs):
                pairs = [(k2, v_ if k2 == k_ else v2) for k2, v2 in pairs]
            else:
                pairs.append((k_, v_))
        st.env = saved
        return st.alloc(HeapObj("dict", None, {}, pairs))

    def ev_Starred(self, node: ast.Starred, st: State, ctx: Ctx) -> Term:
        raise AnalysisError(f"starred expression at {ctx.loc(node)}")

    # ------------------------------------------------------------------
    def truth(self, v: Term, st: State) -> Term:
        if _is_cond(v):
            if v[0] in ("and", "or"):
                parts = [self.truth(x[1], st) if (isinstance(x, tuple) and x and x[0] == "valof") else x for x in v[1:]]
                return conj(parts) if v[0] == "and" else disj(parts)
            return v
        t = v[0]
        if t == "c":
            return c(bool(v[1]))
        if t == "enum":
            ci_e = self.prog.cls(v[1].cls)
            m_b = ci_e.find_method("__bool__")
            if m_b is not None:
                # an enum that defines its own truth value: what __bool__ returns for this member
                r_ = self.call_user_nested(("bound", v, m_b), [], {}, st, Ctx(None, ci_e.module, 1), m_b.node)
                return self.truth(r_, st) if not is_top(r_) else ("truthy", v)
            if ci_e.find_method("__len__") is not None:
                return ("truthy", v)
            return c(True)
        if t in ("func", "class", "bound", "lambda", "ext", "module", "partialobj", "exc"):
            return c(True)
        if t == "tuple":
            return c(len(v[1]) > 0)
        if t in ("clist", "cdict", "cset"):
            return c(len(v[1]) > 0)
        if t == "obj":
            ho = st.heap[v[1]]
            if ho.kind in ("list", "set", "dict") and not ho.symbolic:
                return c(len(ho.items) > 0)
            if ho.kind == "obj":
                if ho.cls is not None and (ho.cls.find_method("__bool__") or ho.cls.find_method("__len__")):
                    return ("truthy", v)
                if ho.symbolic and ho.cls is None:
                    return ("truthy", ("sym", ho.name, "any"))
                return c(True)
            return ("truthy", v)
        if t == "seq":
            w = T.seq_width(v)
            if w is not None and w.is_const():
                return c(w.const > 0)
            if any(a[0] == "L" and a[1] for a in v[2]):
                return c(True)
            return ("truthy", v)
        if t == "ite":
            a, b = self.truth(v[2], st), self.truth(v[3], st)
            if a == b:
                return a
            if b == v[1]:
                return conj([v[1], a])      # p ? a : p
            if a == v[1]:
                return disj([v[1], b])      # p ? p : b
            if _is_cond(v[1]) or is_c(v[1]):
                # as a condition: (p and a) or (not p and b), simplified when a branch is constant
                if b == c(False):
                    return conj([v[1], a])
                if a == c(False):
                    return conj([neg(v[1]), b])
                if b == c(True):
                    return disj([neg(v[1]), a])
                if a == c(True):
                    return disj([v[1], b])
            return ite(v[1], a, b)
        if t == "sym" and isinstance(v[2], tuple) and v[2] and v[2][0] == "enum":
            ci_e = self.prog.cls(v[2][1])
            if ci_e.find_method("__bool__") is None and ci_e.find_method("__len__") is None:
                return c(True)
            return ("truthy", v)
        if t == "lookup" and v[1] and all(x[0] in ("enum", "func", "bound", "lambda", "class", "partialobj") for _, x in v[1]):
            ts_ = [self.truth(x, st) for _, x in v[1]]
            if all(is_c(x) and x[1] is True for x in ts_):
                return c(True)
            if all(is_c(x) for x in ts_):
                return ("lookup", tuple((k, x) for (k, _), x in zip(v[1], ts_)), v[2]) if len({x[1] for x in ts_}) > 1 else ts_[0]
            return ("truthy", v)
        if t == "sym" and isinstance(v[2], tuple) and v[2] and v[2][0] == "extobj":
            return c(True)  # library objects (transports, streams) define no __bool__/__len__
        if t == "uint":
            w_ = T.const_width(("seq", "s", v[1]))
            if w_ is not None and int(w_) > 0:
                # a number read from w hex digits is zero exactly when the digits are all '0'
                return mkcmp("!=", ("seq", "s", v[1]), c("0" * int(w_)))
        if t in ("app", "lin", "uint", "eattr") and _is_int_term(v):
            return mkcmp("!=", v, c(0))   # the truth of an integer is `!= 0`
        return ("truthy", v)


_DUMMY = None


def _benign_event(e: Event, st: State) -> bool:
    """Events that do not make a nested call impure: stores on fresh objects, debug logging."""
    if e.kind == "store":
        return True  # checked by write-effect rules separately; fresh-object stores are the norm
    if e.kind == "call" and e.target.startswith("logger."):
        return True
    if e.kind in ("caught", "iter", "readattr", "reorder"):
        return True
    if e.kind == "call" and e.target.rsplit(".", 1)[-1] in ("get", "keys", "values", "items", "copy") and "." in e.target:
        # a read of a dict whose content the model leaves open (self._transports): recorded as a call, but it changes nothing
        base = e.target.rsplit(".", 1)[0]
        if any(ho.kind == "dict" and ho.symbolic and ho.name == base for ho in st.heap.values()):
            return True
    return False


def _is_plain_ref(n: ast.AST) -> bool:
    while isinstance(n, ast.Attribute):
        n = n.value
    if isinstance(n, ast.Name):
        return True
    if isinstance(n, ast.Call) and isinstance(n.func, ast.Name) and n.func.id == "super" and not n.args:
        return True
    return False


def _as_load(t: ast.AST) -> ast.AST:
    if isinstance(t, ast.Name):
        return ast.Name(id=t.id, ctx=ast.Load())
    if isinstance(t, ast.Attribute):
        return ast.Attribute(value=t.value, attr=t.attr, ctx=ast.Load())
    if isinstance(t, ast.Subscript):
        return ast.Subscript(value=t.value, slice=t.slice, ctx=ast.Load())
    raise AnalysisError("augmented assignment target")


def _single_name(t: ast.AST, ctx: Ctx) -> str:
    if isinstance(t, ast.Name):
        return t.id
    raise AnalysisError(f"unsupported comprehension target at {ctx.loc(t)}")


def _is_cond(v: Any) -> bool:
    return isinstance(v, tuple) and len(v) > 0 and v[0] in ("cmp", "not", "and", "or", "truthy", "in", "isinstance", "hasattr") or (
        isinstance(v, tuple) and len(v) == 2 and v[0] == "c" and isinstance(v[1], bool)
    )


def _linear_ok(v: Term) -> bool:
    return isinstance(v, tuple) and v and v[0] in ("c", "lin", "sym", "len", "app", "uint", "eattr")


def _atoms(cond: Term) -> List[Term]:
    if isinstance(cond, tuple) and cond and cond[0] == "and":
        out: List[Term] = []
        for x in cond[1:]:
            out.extend(_atoms(x))
        return out
    return [cond]


def unlift(v: Term) -> Any:
    """Inverse of Interp.lift for state-independent values."""
    t = v[0]
    if t == "c":
        return v[1]
    if t == "enum":
        return v[1]
    if t == "tuple":
        return tuple(unlift(x) for x in v[1])
    if t == "clist":
        return [unlift(x) for x in v[1]]
    if t == "cset":
        return frozenset(unlift(x) for x in v[1])
    if t == "cdict":
        return {unlift(k): unlift(x) for k, x in v[1]}
    if t == "seq" and all(a[0] == "L" for a in v[2]):
        txt = "".join(a[1] for a in v[2])
        return txt if v[1] == "s" else (txt.encode() if v[1] == "b" else bytes.fromhex(txt))
    raise ValueError(f"not a constant: {v[0]}")


def first_match_table(rets: List[Outcome], base_pc: int = 0) -> Optional[Term]:
    """A function that searches a constant key by a first-match scan (`for m in Enum: if m.value == x: return m`,
    an if/elif chain on `x == k`) returns the same thing as a table lookup: canonicalised to the `lookup` term a
    dict built from the same pairs yields (with the default, if the scan can fall through to a return)."""
    if len(rets) < 2:
        return None
    x = None
    table: List[Tuple[Term, Term]] = []
    default: Optional[Term] = None
    for o in rets:
        if isinstance(o.value, tuple) and o.value and o.value[0] == "obj":
            return None
        atoms: List[Term] = []
        for g in o.state.pc[base_pc:]:
            atoms.extend(_atoms(g))
        pos = [a for a in atoms if isinstance(a, tuple) and a[:2] == ("cmp", "==")]
        negs = [a for a in atoms if isinstance(a, tuple) and a[:2] == ("cmp", "!=")]
        if len(pos) + len(negs) != len(atoms) or len(pos) > 1:
            return None
        for a in pos + negs:
            if x is None:
                x = a[2]
            if a[2] != x or not _known(a[3]):
                return None
        if pos:
            k = pos[0][3]
            if any(k2 == k for k2, _ in table) or {a[3] for a in negs} != {k2 for k2, _ in table}:
                return None
            table.append((k, o.value))
        else:
            if default is not None or {a[3] for a in negs} != {k2 for k2, _ in table} or o is not rets[-1]:
                return None
            default = o.value
    if x is None or len(table) < 2:
        return None
    look: Term = ("lookup", tuple(table), x)
    if default is None:
        return look
    return ite(("cmp", "in", x, ("tuple", tuple(k for k, _ in table))), look, default)


def decided_by(pc: List[Term], cond: Term) -> Optional[bool]:
    """Literal-level decision of `cond` from the guards already on the path (no solving):
    True if every conjunct of cond is already a guard, False if some conjunct's negation is."""
    have = set()
    for g in pc:
        for a in _atoms(g):
            have.add(a)
    if any(isinstance(g, tuple) and g and g[0] == "or" for g in have):
        from .frames import flat_pc
        have |= set(flat_pc(list(pc)))      # closed under unit resolution
    parts = _atoms(cond)
    # a value known to be truthy is not None (literal-level implication)
    if len(parts) == 1 and isinstance(parts[0], tuple) and parts[0][:1] == ("cmp",) and parts[0][1] in ("is", "is not", "==", "!=") and is_c(parts[0][3]) and parts[0][3][1] is None:
        if ("truthy", parts[0][2]) in have:
            return parts[0][1] in ("is not", "!=")
    if all(p in have for p in parts):
        return True
    for p in parts:
        if neg(p) in have:
            return False
        if isinstance(p, tuple) and p and p[0] == "or":
            ds = list(p[1:])
            if all(neg(d) in have for d in ds):
                return False
    if isinstance(cond, tuple) and cond and cond[0] == "or":
        if any(d in have for d in cond[1:]):
            return True
    # would assuming cond falsify a disjunction already on the path?  (unit check, literals only)
    ors = [g for g in have if isinstance(g, tuple) and g and g[0] == "or"]
    if ors:
        plus = have | set(parts)
        for g in ors:
            if all(neg(d) in plus or (isinstance(d, tuple) and d and d[0] == "and" and any(neg(x) in plus for x in d[1:])) for d in g[1:]):
                return False
        minus = have | {neg(p) for p in parts} if len(parts) == 1 else None
        if minus is not None:
            for g in ors:
                if all(neg(d) in minus or (isinstance(d, tuple) and d and d[0] == "and" and any(neg(x) in minus for x in d[1:])) for d in g[1:]):
                    return True
    return None


def neg(cond: Term) -> Term:
    if is_c(cond):
        return c(not cond[1])
    if cond[0] == "not":
        return cond[1]
    if cond[0] == "cmp":
        inv = {"==": "!=", "!=": "==", "<": ">=", ">=": "<", ">": "<=", "<=": ">", "is": "is not", "is not": "is", "in": "not in", "not in": "in"}
        return ("cmp", inv[cond[1]], cond[2], cond[3])
    if cond[0] == "and" and all(_is_cond(x) for x in cond[1:]):
        return disj([neg(x) for x in cond[1:]])
    if cond[0] == "or" and all(_is_cond(x) for x in cond[1:]):
        return conj([neg(x) for x in cond[1:]])
    return ("not", cond)


def _fold_const_cmp(p: Term) -> Term:
    if isinstance(p, tuple) and len(p) == 4 and p[0] == "cmp" and is_c(p[2]) and is_c(p[3]):
        r = fold_cmp(p[1], p[2], p[3])
        if r is not None:
            return c(r)
    return p


def conj(parts: List[Term]) -> Term:
    out: List[Term] = []
    for p in parts:
        p = _fold_const_cmp(p)
        if is_c(p):
            if not p[1]:
                return c(False)
            continue
        if p[0] == "and" and all(_is_cond(x) for x in p[1:]):
            out.extend(p[1:])
        else:
            out.append(p)
    if not out:
        return c(True)
    if len(out) > 1:
        seen_ = set(out)
        if any(neg(p) in seen_ for p in out):
            return c(False)         # p and not p
        dedup: List[Term] = []
        for p in out:
            if p not in dedup:
                dedup.append(p)
        out = dedup
    if len(out) == 1:
        return out[0]
    return ("and",) + tuple(out)


def disj(parts: List[Term]) -> Term:
    out: List[Term] = []
    for p in parts:
        p = _fold_const_cmp(p)
        if is_c(p):
            if p[1]:
                return c(True)
            continue
        if p[0] == "or" and all(_is_cond(x) for x in p[1:]):
            out.extend(p[1:])
        else:
            out.append(p)
    if not out:
        return c(False)
    if len(out) == 1:
        return out[0]
    return ("or",) + tuple(out)


def ite(cond: Term, a: Term, b: Term) -> Term:
    if is_c(cond):
        return a if cond[1] else b
    # a choice nested under the same condition is already decided there
    for _ in range(3):
        if isinstance(a, tuple) and len(a) == 4 and a[0] == "ite" and (a[1] == cond or a[1] == neg(cond)):
            a = a[2] if a[1] == cond else a[3]
        elif isinstance(b, tuple) and len(b) == 4 and b[0] == "ite" and (b[1] == cond or b[1] == neg(cond)):
            b = b[3] if b[1] == cond else b[2]
        else:
            break
    if a == b:
        return a
    # canonical polarity: the condition is kept in its positive form
    if (cond[0] == "cmp" and cond[1] in ("!=", "not in", "is not")) or cond[0] == "not":
        cond, a, b = neg(cond), b, a
    if is_c(a) and is_c(b) and a[1] is True and b[1] is False:
        return cond
    if is_c(a) and is_c(b) and a[1] is False and b[1] is True:
        return neg(cond)
    if (cond[0] == "cmp" and cond[1] == "in" and isinstance(a, tuple) and len(a) == 3 and a[0] == "lookup" and a[2] == cond[2]
            and isinstance(cond[3], tuple) and cond[3] and cond[3][0] == "tuple" and set(cond[3][1]) == {k for k, _ in a[1]}):
        # table[x] if x in table else default, where all entries but one hold the default anyway: a two-way choice on
        # that one key (larger remainders keep the table form, which is what a try / except KeyError around the look-up gives)
        keep = [(k, v) for k, v in a[1] if v != b]
        if not keep:
            return b
        if len(keep) == 1:
            return ite(mkcmp("==", cond[2], keep[0][0]), keep[0][1], b)
    if _is_cond(a) and _is_cond(b):
        # boolean-valued choice: short-circuit forms of `and` / `or`
        if b == cond or (is_c(b) and b[1] is False):
            return conj([cond, a])
        if a == cond or (is_c(a) and a[1] is True):
            return disj([cond, b])
        if a == neg(cond) or (is_c(a) and a[1] is False):
            return conj([neg(cond), b])
        if b == neg(cond) or (is_c(b) and b[1] is True):
            return disj([neg(cond), a])
    return ("ite", cond, a, b)


_FLIP = {"==": "==", "!=": "!=", "<": ">", "<=": ">=", ">": "<", ">=": "<=", "is": "is", "is not": "is not"}


def _cmp_rank(v: Term) -> int:
    """Constants go to the right-hand side of a comparison."""
    if is_c(v) or (isinstance(v, tuple) and v and v[0] == "enum"):
        return 1
    if T.is_seq(v) and all(a[0] == "L" for a in v[2]):
        return 1
    return 0


def mkcmp(op: str, a: Term, b: Term) -> Term:
    """Canonical comparison atom: `a OP b` and `b OP' a` are one term.  A constant operand is on the right;
    two non-constant (or two constant) operands are ordered by their printed form.  A truth value compared with a
    bool constant is that truth value (or its negation): `cond == True`, `cond is True`, `cond != False` are `cond`."""
    if op in ("==", "!=", "is", "is not"):
        for x, k in ((a, b), (b, a)):
            if is_c(k) and isinstance(k[1], bool) and isinstance(x, tuple) and x and _is_cond(x) and x[0] not in ("valof",):
                same = (op in ("==", "is")) == k[1]
                return x if same else neg(x)
    if op in _FLIP:
        ra, rb = _cmp_rank(a), _cmp_rank(b)
        swap = ra > rb or (ra == rb and T.show(a) > T.show(b))
        if swap:
            return ("cmp", _FLIP[op], b, a)
    return ("cmp", op, a, b)


def _is_int_term(v: Term) -> bool:
    from .lib import is_int_term
    return isinstance(v, tuple) and bool(v) and is_int_term(v)


def fold_cmp(op: str, a: Term, b: Term) -> Optional[bool]:
    """Decide a comparison when both sides are fully known; None otherwise."""
    if op in ("is", "is not"):
        if is_c(a) and a[1] is None and not (is_c(b) and b[1] is None):
            a, b = b, a   # identity is symmetric
        if is_c(b) and b[1] is None:
            if is_c(a):
                r = a[1] is None
            elif a[0] in ("enum", "obj", "seq", "tuple", "func", "class", "uint", "lin", "len", "dec") or _is_int_term(a) or (
                a[0] == "sym" and a[2] in ("bytes", "str", "int", "hex", "bool", "float")
            ) or (a[0] == "sym" and isinstance(a[2], tuple) and a[2] and a[2][0] in ("hexw", "hexbw", "int", "enum", "extobj", "set", "list")):
                r = False
            else:
                return None
            return r if op == "is" else not r
        if a[0] == "enum" and b[0] == "enum":
            r = a == b
            return r if op == "is" else not r
        if a[0] in ("class", "builtin") and b[0] in ("class", "builtin"):
            r = (a[0] == b[0]) and (a[1] is b[1] if a[0] == "class" else a[1] == b[1])
            return r if op == "is" else not r
        return None
    if op in ("==", "!="):
        ka, kb = _known(a), _known(b)
        if ka and kb:
            r = _const_eq(a, b)
            if r is None:
                return None
            return r if op == "==" else not r
        if a == b and a[0] not in ("app", "top"):
            return op == "=="
        # elements of a collection declared duplicate-free (an assumption stated by the rule that declares it)
        if (a[0] == "sym" and b[0] == "sym" and isinstance(a[2], tuple) and isinstance(b[2], tuple) and a[2][:1] == ("distinct",)
                and a[2] == b[2] and a[1] != b[1]):
            return op == "!="
        # None vs a definitely non-None value
        if (is_c(a) and a[1] is None and b[0] in ("enum", "obj", "seq")) or (is_c(b) and b[1] is None and a[0] in ("enum", "obj", "seq")):
            return op == "!="
        # literal text vs symbolic text of a provably different constant width
        if T.is_seq(a) and T.is_seq(b) and a[1] == b[1]:
            wa, wb = T.const_width(a), T.const_width(b)
            if wa is not None and wb is not None and wa != wb:
                return op == "!="
        return None
    if op in ("<", "<=", ">", ">="):
        if is_c(a) and is_c(b) and isinstance(a[1], (int, float)) and isinstance(b[1], (int, float)):
            return {"<": a[1] < b[1], "<=": a[1] <= b[1], ">": a[1] > b[1], ">=": a[1] >= b[1]}[op]
        return None
    return None


def _known(v: Term) -> bool:
    if is_c(v) or v[0] == "enum":
        return True
    if v[0] == "seq":
        return all(a[0] == "L" for a in v[2])
    if v[0] == "tuple":
        return all(_known(x) for x in v[1])
    return False


def _const_eq(a: Term, b: Term) -> Optional[bool]:
    def norm(v: Term) -> Any:
        if v[0] == "seq":
            return ("text", "".join(x[1] for x in v[2]))
        if is_c(v) and isinstance(v[1], str):
            return ("text", v[1])
        if is_c(v) and isinstance(v[1], bytes):
            return ("text", v[1].decode("latin-1"))
        return v

    return norm(a) == norm(b)
