"""Shared set-up for analysing the UDP bridge (C05, C06, C07, C17)."""
from __future__ import annotations

from typing import Any, Dict, List, Optional, Tuple

from . import terms as T
from .interp import Ctx, Event, HeapObj, Interp, Outcome, State
from .model import AnalysisError, Program
from .terms import Term, c

BRIDGE = "aioswitcher.bridge"
MSG = ("sym", "datagram", "bytes")


def run_parse(prog: Program, minlen: Optional[int] = None) -> Tuple[Interp, List[Outcome]]:
    fi = prog.func(f"{BRIDGE}:_parse_device_from_datagram")
    if len(fi.params) != 2:
        raise AnalysisError("anchor changed: _parse_device_from_datagram(device_callback, datagram)")
    I = Interp(prog, max_paths=20000)
    st = I.new_state()
    if minlen is not None:
        st.minlen[MSG] = minlen
    cb = ("sym", "device_callback", "callable")
    outs = I.run(fi, {fi.params[0]: cb, fi.params[1]: MSG}, st)
    return I, outs


def callbacks(o: Outcome) -> List[Event]:
    return [e for e in o.state.events if e.kind == "call" and e.target == "device_callback"]


def warns(o: Outcome) -> List[Event]:
    return [e for e in o.state.events if e.kind == "call" and e.target in ("warn", "warnings.warn")]


def logs(o: Outcome) -> List[Event]:
    return [e for e in o.state.events if e.kind == "call" and e.target.startswith("logger.")]


def device_fields(o: Outcome, ev: Event) -> Tuple[str, Dict[str, Term]]:
    v = ev.args[0]
    if v[0] != "obj":
        return "?", {}
    ho = o.state.heap[v[1]]
    return (ho.cls.name if ho.cls else "?"), dict(ho.fields)


# ---------------------------------------------------------------------------
# lifecycle (C07 / C17)
def bridge_self(I: Interp, st: State, prog: Program, fresh_instance: bool = False) -> Term:
    """fresh_instance: _transports is the empty dict __init__ creates (used for start());
    otherwise its content is unknown (used for stop())."""
    ci = prog.cls(f"{BRIDGE}:SwitcherBridge")
    ports = ("sym", "ports", ("list", ("int", 1, 65535), "distinct"))
    ci.require_attrs(["_on_device", "_broadcast_ports", "_is_running", "_transports"], "symbolic bridge")
    transports = st.alloc(HeapObj("dict", None, {}, [], not fresh_instance, "self._transports", False))
    return st.alloc(HeapObj("obj", ci, {
        "_on_device": ("sym", "on_device", "callable"),
        "_broadcast_ports": ports,
        "_is_running": ("sym", "is_running0", "bool"),
        "_transports": transports,
    }, [], False, "self", False))


def run_bridge_method(prog: Program, name: str, extra: Optional[Dict[str, Term]] = None, fresh_instance: bool = False) -> Tuple[Interp, List[Outcome], Any]:
    ci = prog.cls(f"{BRIDGE}:SwitcherBridge")
    fi = ci.find_method(name)
    if fi is None:
        raise AnalysisError(f"anchor vanished: SwitcherBridge.{name}")
    I = Interp(prog)
    st = I.new_state()
    selfv = bridge_self(I, st, prog, fresh_instance)
    args: Dict[str, Term] = {fi.params[0]: selfv}
    for p in fi.params[1:]:
        args[p] = (extra or {}).get(p, ("sym", p, "any"))
    return I, I.run(fi, args, st), fi


def ev_calls(o: Outcome, suffix: str) -> List[Event]:
    return [e for e in o.state.events if e.kind == "call" and e.target.endswith(suffix)]


def factory_product(I: Interp, o: Outcome, fac: Any) -> Optional[Tuple[Any, int, bool]]:
    """What the protocol factory handed to create_datagram_endpoint produces when asyncio calls it (with no argument):
    (heap object, object id, created by the call).  The factory may be a lambda returning an object built earlier, a
    class, a functools.partial of a class ... - it is simply called, abstractly, in a copy of the path's state."""
    import ast as _ast
    if not isinstance(fac, tuple) or not fac or fac[0] not in ("lambda", "class", "partialobj", "func", "bound"):
        return None
    st = o.state.fork()
    mod = I.prog.module(BRIDGE)
    node = _ast.parse("0").body[0]
    try:
        v = I.call(fac, [], {}, st, Ctx(None, mod, 0), node)
    except AnalysisError:
        return None
    if not (isinstance(v, tuple) and v[:1] == ("obj",) and v[1] in st.heap):
        return None
    return st.heap[v[1]], v[1], v[1] not in o.state.heap


_DEFERRING = ("call_soon", "call_soon_threadsafe", "call_later", "call_at", "run_in_executor", "create_task", "ensure_future")


def handler_is_builder_bound_to_callback(od: Any) -> Optional[bool]:
    """True: the datagram handler is the builder bound to the user's callback (partial(builder, cb), or a one-parameter
    lambda whose body is builder(cb, <that parameter>)).  False: it hands the datagram to a scheduling primitive of the
    event loop (the builder then runs later - after stop() may have returned, and no longer once per datagram in arrival
    order) or is bound to something else than the callback.  None: another form, not judged."""
    import ast as _ast
    cb = ("sym", "on_device", "callable")
    if isinstance(od, tuple) and od[:1] == ("partialobj",):
        f = od[1]
        if f[0] == "func" and f[1].qualname == "_parse_device_from_datagram":
            return od[2] == (cb,)
        if f[0] == "extmeth" and f[2] in _DEFERRING:
            return False
        return None
    if isinstance(od, tuple) and od[:1] == ("lambda",) and isinstance(od[1], _ast.Lambda) and len(od[1].args.args) == 1:
        body = od[1].body
        p = od[1].args.args[0].arg
        if isinstance(body, _ast.Call):
            fn = _ast.unparse(body.func).split(".")[-1]
            if fn in _DEFERRING:
                return False
            if fn == "_parse_device_from_datagram" and len(body.args) == 2 and not body.keywords and isinstance(body.args[1], _ast.Name) and body.args[1].id == p \
                    and _ast.unparse(body.args[0]) in ("self._on_device", "on_device"):
                return True
        return None
    return None


def restart_check(prog: Program, iter_count: Any, flat: Any) -> Tuple[Optional[str], int, set]:
    """start() on an instance whose _transports holds whatever an earlier start/stop cycle left: every returning path
    creates and registers an endpoint for each port it iterates, unless the path has established that the port's
    registered transport is still open.  Returns (what is wrong or None, number of returning paths, functions visited)."""
    from .interp import neg as _neg
    I7, outs7, _fi7 = run_bridge_method(prog, "start", fresh_instance=False)
    bad7 = None
    rets7 = [o for o in outs7 if o.kind == "return"]
    for o in rets7:
        k = iter_count(o)
        cde = ev_calls(o, ".create_datagram_endpoint")
        stores = [e for e in o.state.events if e.kind == "storeitem" and e.target == "self._transports"]
        pcs7 = flat(o.state.pc)
        live = [e for e in o.state.events if e.kind == "call" and e.target.endswith(".is_closing") and (_neg(("truthy", e.result)) in pcs7 or ("not", ("truthy", e.result)) in pcs7)]
        if k is None or len(cde) + len(live) < min(k, 2) or len(cde) > min(k, 2) or len(stores) != len(cde):
            looked = [e for e in o.state.events if e.kind == "call" and e.target.startswith("self._transports.")]
            bad7 = (f"restart path with {k} port(s): {len(cde)} endpoints created, {len(stores)} registered"
                    + (f" after consulting {looked[0].target}() - entries left by an earlier start/stop cycle make start skip the port while the flag is still set" if looked else ""))
    return bad7, len(rets7), set(I7.functions_visited)
