"""Shared set-up for analysing the UDP bridge (C05, C06, C07, C17)."""
from __future__ import annotations

from typing import Any, Dict, List, Optional, Tuple

from . import terms as T
from .interp import Ctx, Event, HeapObj, Interp, Outcome, State
from .model import AnalysisError, Program
from .terms import Term, c

BRIDGE = "aioswitcher.bridge"
MSG = ("sym", "datagram", "bytes")


def run_parse(prog: Program, minlen: Optional[int] = None) -> Tuple[Interp, List[Outcome]]:
    fi = prog.func(f"{BRIDGE}:_parse_device_from_datagram")
    if len(fi.params) != 2:
        raise AnalysisError("anchor changed: _parse_device_from_datagram(device_callback, datagram)")
    I = Interp(prog, max_paths=20000)
    st = I.new_state()
    if minlen is not None:
        st.minlen[MSG] = minlen
    cb = ("sym", "device_callback", "callable")
    outs = I.run(fi, {fi.params[0]: cb, fi.params[1]: MSG}, st)
    return I, outs


def callbacks(o: Outcome) -> List[Event]:
    return [e for e in o.state.events if e.kind == "call" and e.target == "device_callback"]


def warns(o: Outcome) -> List[Event]:
    return [e for e in o.state.events if e.kind == "call" and e.target in ("warn", "warnings.warn")]


def logs(o: Outcome) -> List[Event]:
    return [e for e in o.state.events if e.kind == "call" and e.target.startswith("logger.")]


def device_fields(o: Outcome, ev: Event) -> Tuple[str, Dict[str, Term]]:
    v = ev.args[0]
    if v[0] != "obj":
        return "?", {}
    ho = o.state.heap[v[1]]
    return (ho.cls.name if ho.cls else "?"), dict(ho.fields)
