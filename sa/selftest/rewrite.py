"""False-alarm fuzzing, part 2: semantics-preserving REWRITES of the repository's own code.

Each variant applies ONE local, behaviour-preserving rewrite to ONE site of /repo's sources (in a scratch copy):

  T1  a < b < c                     ->  a < b and b < c            (b a name / constant / len(name))
  T2  x == A or x == B [or ...]     ->  x in (A, B, ...)           (x a name / attribute chain / len(..))
  T3  if c: v = A  else: v = B      ->  v = A if c else B
  T3r v = A if c else B             ->  if c: v = A  else: v = B
  T6  hexlify(E).decode()           ->  (E).hex()
  T7  if c: ...return/raise  else: S ->  if c: ...return/raise ; S   (else after a terminating branch removed)
  T8  elif                          ->  else: if
  T9  dict(map(lambda d: (K, V), E)) -> {K: V for d in E}
  T12 return E                      ->  _result = E ; return _result
  T14 a OP b                        ->  b OP' a   for ==, !=, <, <=, >, >= between side-effect-free operands
  T4  if c: A else: B               ->  if not c: B else: A
  T5  "lit {} {:02x}".format(a, b)  ->  f"lit {a} {b:02x}"         (literal template, positional auto-numbered fields)
  T15 if a and b: X   (no else)     ->  if a:\n if b: X
  T17 map(lambda v: E, xs)          ->  (E for v in xs) ;  list(filter(lambda v: P, xs)) -> [v for v in xs if P]
  T20 return A if c else B          ->  if c: return A\n return B
  T40 len(x) > 0  ->  len(x) != 0   |  len(x) == 0  ->  len(x) < 1   |  len(x) > n  ->  len(x) >= n + 1
  T30 def f(...): BODY              ->  def f(...): logger.debug("entering f"); BODY      (modules that define `logger`)
  T32 every occurrence of one private name `_x` (attribute, method, function, module constant) in the package
                                    ->  `_x_renamed`   (consistent rename; tolerated answers: 0 or 2 "anchor vanished")

A sound checker answers 0 on every such tree (2 = "cannot decide" is tolerated but reported); a VIOLATION
is a rule that matches the shape of today's code instead of its meaning.

usage: python -m sa.selftest.rewrite [--jobs N] [--kinds T1,T2] [--site k] [--list] [--props C01,..]
"""
from __future__ import annotations

import argparse
import ast
import copy
import json
import os
import shutil
import subprocess
import sys
import tempfile
from concurrent.futures import ThreadPoolExecutor
from typing import Any, Callable, Dict, List, Optional, Tuple

from .havoc import FILES, VERIF

PURE_LEAF = (ast.Name, ast.Constant)


def is_pure(n: ast.AST) -> bool:
    """No call except len()/hexlify-free attribute chains: evaluating it twice / in another order changes nothing."""
    if isinstance(n, PURE_LEAF):
        return True
    if isinstance(n, ast.Attribute):
        return is_pure(n.value)
    if isinstance(n, ast.Call) and isinstance(n.func, ast.Name) and n.func.id == "len" and len(n.args) == 1 and not n.keywords:
        return is_pure(n.args[0])
    if isinstance(n, ast.UnaryOp) and isinstance(n.op, ast.USub):
        return is_pure(n.operand)
    return False


SWAP = {ast.Eq: ast.Eq, ast.NotEq: ast.NotEq, ast.Lt: ast.Gt, ast.LtE: ast.GtE, ast.Gt: ast.Lt, ast.GtE: ast.LtE}


def terminates(body: List[ast.stmt]) -> bool:
    return bool(body) and isinstance(body[-1], (ast.Return, ast.Raise, ast.Continue, ast.Break))


def candidates(tree: ast.Module) -> List[Tuple[str, ast.AST]]:
    out: List[Tuple[str, ast.AST]] = []
    for n in ast.walk(tree):
        if isinstance(n, ast.Compare):
            if len(n.ops) == 2 and is_pure(n.comparators[0]) and all(isinstance(o, (ast.Lt, ast.LtE, ast.Gt, ast.GtE)) for o in n.ops):
                out.append(("T1", n))
            if len(n.ops) == 1 and type(n.ops[0]) in SWAP and is_pure(n.left) and is_pure(n.comparators[0]):
                out.append(("T14", n))
        if isinstance(n, ast.BoolOp) and isinstance(n.op, ast.Or) and len(n.values) >= 2:
            vs = n.values
            if all(isinstance(v, ast.Compare) and len(v.ops) == 1 and isinstance(v.ops[0], ast.Eq) and is_pure(v.left) and isinstance(v.comparators[0], (ast.Constant, ast.Attribute, ast.Name)) for v in vs):
                if len({ast.dump(v.left) for v in vs}) == 1:
                    out.append(("T2", n))
        if isinstance(n, ast.If):
            if (len(n.body) == 1 and len(n.orelse) == 1 and isinstance(n.body[0], ast.Assign) and isinstance(n.orelse[0], ast.Assign)
                    and len(n.body[0].targets) == 1 and isinstance(n.body[0].targets[0], ast.Name)
                    and ast.dump(n.body[0].targets[0]) == ast.dump(n.orelse[0].targets[0])
                    and not any(isinstance(x, ast.Await) for x in ast.walk(n))):
                out.append(("T3", n))
            if n.orelse and terminates(n.body) and not (len(n.orelse) == 1 and isinstance(n.orelse[0], ast.If)):
                out.append(("T7", n))
            if len(n.orelse) == 1 and isinstance(n.orelse[0], ast.If):
                out.append(("T8", n))
        if isinstance(n, ast.Assign) and isinstance(n.value, ast.IfExp) and len(n.targets) == 1 and isinstance(n.targets[0], ast.Name):
            out.append(("T3r", n))
        if isinstance(n, ast.Call) and isinstance(n.func, ast.Attribute) and n.func.attr == "decode" and not n.args and not n.keywords:
            inner = n.func.value
            if isinstance(inner, ast.Call) and isinstance(inner.func, ast.Name) and inner.func.id == "hexlify" and len(inner.args) == 1 and not inner.keywords:
                out.append(("T6", n))
        if isinstance(n, ast.Call) and isinstance(n.func, ast.Name) and n.func.id == "dict" and len(n.args) == 1 and not n.keywords:
            m = n.args[0]
            if (isinstance(m, ast.Call) and isinstance(m.func, ast.Name) and m.func.id == "map" and len(m.args) == 2 and isinstance(m.args[0], ast.Lambda)
                    and isinstance(m.args[0].body, ast.Tuple) and len(m.args[0].body.elts) == 2 and len(m.args[0].args.args) == 1):
                out.append(("T9", n))
        if isinstance(n, ast.Return) and n.value is not None and not isinstance(n.value, (ast.Name, ast.Constant)):
            out.append(("T12", n))
        if isinstance(n, ast.If) and n.orelse and not (len(n.orelse) == 1 and isinstance(n.orelse[0], ast.If)):
            out.append(("T4", n))
        if isinstance(n, ast.If) and not n.orelse and isinstance(n.test, ast.BoolOp) and isinstance(n.test.op, ast.And) and len(n.test.values) == 2:
            out.append(("T15", n))
        if (isinstance(n, ast.Call) and isinstance(n.func, ast.Attribute) and n.func.attr == "format" and isinstance(n.func.value, ast.Constant)
                and isinstance(n.func.value.value, str) and not n.keywords and n.args and not any(isinstance(a, ast.Starred) for a in n.args)):
            import string
            try:
                fields = [(lit, fn, spec, conv) for lit, fn, spec, conv in string.Formatter().parse(n.func.value.value)]
            except ValueError:
                fields = []
            holes = [f for f in fields if f[1] is not None]
            if holes and all(f[1] == "" and not f[3] and "{" not in (f[2] or "") for f in holes) and len(holes) == len(n.args):
                out.append(("T5", n))
        if isinstance(n, ast.Call) and isinstance(n.func, ast.Name) and n.func.id == "map" and len(n.args) == 2 and isinstance(n.args[0], ast.Lambda) and len(n.args[0].args.args) == 1:
            out.append(("T17", n))
        if (isinstance(n, ast.Call) and isinstance(n.func, ast.Name) and n.func.id == "list" and len(n.args) == 1 and isinstance(n.args[0], ast.Call)
                and isinstance(n.args[0].func, ast.Name) and n.args[0].func.id == "filter" and len(n.args[0].args) == 2 and isinstance(n.args[0].args[0], ast.Lambda)):
            out.append(("T17", n))
        if isinstance(n, ast.Return) and isinstance(n.value, ast.IfExp):
            out.append(("T20", n))
        if (isinstance(n, ast.Compare) and len(n.ops) == 1 and isinstance(n.left, ast.Call) and isinstance(n.left.func, ast.Name) and n.left.func.id == "len"
                and isinstance(n.comparators[0], ast.Constant) and isinstance(n.comparators[0].value, int) and isinstance(n.ops[0], (ast.Gt, ast.Eq, ast.NotEq, ast.Lt, ast.GtE, ast.LtE))):
            out.append(("T40", n))
        if isinstance(n, (ast.FunctionDef, ast.AsyncFunctionDef)) and any(isinstance(b, ast.Assign) and any(isinstance(t, ast.Name) and t.id == "logger" for t in b.targets) for b in tree.body):
            out.append(("T30", n))
    return out


class Rewriter(ast.NodeTransformer):
    def __init__(self, kind: str, target: ast.AST):
        self.kind, self.target, self.done = kind, target, False

    def generic_visit(self, node: ast.AST) -> Any:
        if node is self.target and not self.done:
            self.done = True
            return self.rewrite(node)
        return super().generic_visit(node)

    def visit(self, node: ast.AST) -> Any:
        return self.generic_visit(node)

    def rewrite(self, n: Any) -> Any:
        k = self.kind
        if k == "T1":
            a = ast.Compare(left=n.left, ops=[n.ops[0]], comparators=[n.comparators[0]])
            b = ast.Compare(left=copy.deepcopy(n.comparators[0]), ops=[n.ops[1]], comparators=[n.comparators[1]])
            return ast.BoolOp(op=ast.And(), values=[a, b])
        if k == "T14":
            return ast.Compare(left=n.comparators[0], ops=[SWAP[type(n.ops[0])]()], comparators=[n.left])
        if k == "T2":
            return ast.Compare(left=n.values[0].left, ops=[ast.In()], comparators=[ast.Tuple(elts=[v.comparators[0] for v in n.values], ctx=ast.Load())])
        if k == "T3":
            return ast.Assign(targets=n.body[0].targets, value=ast.IfExp(test=n.test, body=n.body[0].value, orelse=n.orelse[0].value), lineno=n.lineno)
        if k == "T3r":
            t = n.targets
            return ast.If(test=n.value.test, body=[ast.Assign(targets=t, value=n.value.body, lineno=n.lineno)], orelse=[ast.Assign(targets=copy.deepcopy(t), value=n.value.orelse, lineno=n.lineno)])
        if k == "T6":
            return ast.Call(func=ast.Attribute(value=n.func.value.args[0], attr="hex", ctx=ast.Load()), args=[], keywords=[])
        if k == "T7":
            return [ast.If(test=n.test, body=n.body, orelse=[])] + n.orelse
        if k == "T8":
            inner = n.orelse[0]
            wrapped = ast.If(test=ast.Constant(value=True), body=[inner], orelse=[])   # forces `else:` + nested `if` when unparsed
            return ast.If(test=n.test, body=n.body, orelse=[wrapped])
        if k == "T9":
            lam = n.args[0].args[0]
            return ast.DictComp(key=lam.body.elts[0], value=lam.body.elts[1], generators=[ast.comprehension(target=ast.Name(id=lam.args.args[0].arg, ctx=ast.Store()), iter=n.args[0].args[1], ifs=[], is_async=0)])
        if k == "T4":
            return ast.If(test=ast.UnaryOp(op=ast.Not(), operand=n.test), body=n.orelse, orelse=n.body)
        if k == "T15":
            return ast.If(test=n.test.values[0], body=[ast.If(test=n.test.values[1], body=n.body, orelse=[])], orelse=[])
        if k == "T5":
            import string
            vals: List[ast.expr] = []
            args = list(n.args)
            for lit, fn, spec, conv in string.Formatter().parse(n.func.value.value):
                if lit:
                    vals.append(ast.Constant(value=lit))
                if fn is not None:
                    fs = ast.JoinedStr(values=[ast.Constant(value=spec)]) if spec else None
                    vals.append(ast.FormattedValue(value=args.pop(0), conversion=-1, format_spec=fs))
            return ast.JoinedStr(values=vals)
        if k == "T17":
            if n.func.id == "map":
                lam = n.args[0]
                return ast.GeneratorExp(elt=lam.body, generators=[ast.comprehension(target=ast.Name(id=lam.args.args[0].arg, ctx=ast.Store()), iter=n.args[1], ifs=[], is_async=0)])
            lam = n.args[0].args[0]
            v = lam.args.args[0].arg
            return ast.ListComp(elt=ast.Name(id=v, ctx=ast.Load()), generators=[ast.comprehension(target=ast.Name(id=v, ctx=ast.Store()), iter=n.args[0].args[1], ifs=[lam.body], is_async=0)])
        if k == "T20":
            return [ast.If(test=n.value.test, body=[ast.Return(value=n.value.body)], orelse=[]), ast.Return(value=n.value.orelse)]
        if k == "T40":
            v = n.comparators[0].value
            op = n.ops[0]
            if isinstance(op, ast.Gt) and v == 0:
                new_op, new_v = ast.NotEq(), 0
            elif isinstance(op, ast.Gt):
                new_op, new_v = ast.GtE(), v + 1
            elif isinstance(op, ast.Eq) and v == 0:
                new_op, new_v = ast.Lt(), 1
            elif isinstance(op, ast.NotEq) and v == 0:
                new_op, new_v = ast.Gt(), 0
            elif isinstance(op, ast.Lt):
                new_op, new_v = ast.LtE(), v - 1
            elif isinstance(op, ast.GtE):
                new_op, new_v = ast.Gt(), v - 1
            elif isinstance(op, ast.LtE):
                new_op, new_v = ast.Lt(), v + 1
            else:
                new_op, new_v = op, v
            return ast.Compare(left=n.left, ops=[new_op], comparators=[ast.Constant(value=new_v)])
        if k == "T30":
            doc = 1 if (n.body and isinstance(n.body[0], ast.Expr) and isinstance(n.body[0].value, ast.Constant) and isinstance(n.body[0].value.value, str)) else 0
            log = ast.Expr(value=ast.Call(func=ast.Attribute(value=ast.Name(id="logger", ctx=ast.Load()), attr="debug", ctx=ast.Load()), args=[ast.Constant(value=f"entering {n.name}")], keywords=[]))
            n.body.insert(doc, log)
            return n
        if k == "T12":
            return [ast.Assign(targets=[ast.Name(id="_result", ctx=ast.Store())], value=n.value, lineno=n.lineno), ast.Return(value=ast.Name(id="_result", ctx=ast.Load()))]
        raise ValueError(k)


def _py_files(root: str) -> List[str]:
    out = []
    for dp, _, fns in os.walk(root):
        for fn in fns:
            if fn.endswith(".py"):
                out.append(os.path.join(dp, fn))
    return sorted(out)


def private_names(repo: str) -> List[str]:
    """Private identifiers (NAME tokens `_x`, not dunder) used at least twice in the package and never spelled
    inside a string literal (hasattr(self, "_x") / getattr would make a rename of the identifier alone unsound)."""
    import io
    import tokenize
    names: Dict[str, int] = {}
    in_strings: set = set()
    for q in _py_files(os.path.join(repo, "src", "aioswitcher")):
        with open(q) as fh:
            src = fh.read()
        for tok in tokenize.generate_tokens(io.StringIO(src).readline):
            if tok.type == tokenize.NAME and tok.string.startswith("_") and not tok.string.startswith("__") and len(tok.string) > 1 and tok.string[1].isalpha():
                names[tok.string] = names.get(tok.string, 0) + 1
            elif tok.type == tokenize.STRING or tok.type == getattr(tokenize, "FSTRING_MIDDLE", -1):
                for nm in list(names) + [tok.string.strip("\"'")]:
                    if nm and nm in tok.string:
                        in_strings.add(nm)
    # second pass for names first seen after the string that mentions them
    for q in _py_files(os.path.join(repo, "src", "aioswitcher")):
        with open(q) as fh:
            src = fh.read()
        for tok in tokenize.generate_tokens(io.StringIO(src).readline):
            if tok.type == tokenize.STRING:
                for nm in names:
                    if nm in tok.string:
                        in_strings.add(nm)
    return sorted(n for n, k in names.items() if k >= 2 and n not in in_strings)


def rename_identifier(src: str, old: str, new: str) -> str:
    import io
    import tokenize
    toks = list(tokenize.generate_tokens(io.StringIO(src).readline))
    lines = src.split("\n")
    # replace from the end so that columns stay valid
    for tok in reversed(toks):
        if tok.type == tokenize.NAME and tok.string == old:
            r, col = tok.start
            line = lines[r - 1]
            lines[r - 1] = line[:col] + new + line[col + len(old):]
    return "\n".join(lines)


def all_sites(repo: str, kinds: Optional[List[str]]) -> List[Tuple[str, str, int, str]]:
    out = []
    if not kinds or "T32" in kinds:
        for i, nm in enumerate(private_names(repo)):
            out.append(("*", "T32", i, nm))
    for rel in FILES:
        with open(os.path.join(repo, rel)) as fh:
            src = fh.read()
        tree = ast.parse(src)
        for i, (k, n) in enumerate(candidates(tree)):
            if kinds and k not in kinds:
                continue
            out.append((rel, k, i, f"{getattr(n, 'lineno', 0)}: {(ast.get_source_segment(src, n) or '')[:70]!r}"))
    return out


def make_variant(repo: str, site: Tuple[str, str, int, str]) -> str:
    rel, k, i, _ = site
    tmp = tempfile.mkdtemp(prefix="sa_rewrite_")
    shutil.copytree(os.path.join(repo, "src"), os.path.join(tmp, "src"), ignore=shutil.ignore_patterns("__pycache__", "*.pyc"))
    if k == "T32":
        nm = site[3]
        for q in _py_files(os.path.join(tmp, "src")):
            with open(q) as fh:
                txt = fh.read()
            new_txt = rename_identifier(txt, nm, nm + "_renamed")
            if new_txt != txt:
                ast.parse(new_txt)
                with open(q, "w") as fh:
                    fh.write(new_txt)
        return tmp
    path = os.path.join(tmp, rel)
    with open(path) as fh:
        tree = ast.parse(fh.read())
    kind, node = candidates(tree)[i]
    assert kind == k
    rw = Rewriter(kind, node)
    new = rw.visit(tree)
    ast.fix_missing_locations(new)
    txt = ast.unparse(new)
    ast.parse(txt)
    with open(path, "w") as fh:
        fh.write(txt + "\n")
    return tmp


def run_site(k: int, site: Tuple[str, str, int, str], repo: str, props: List[str]) -> Dict[str, Any]:
    try:
        tmp = make_variant(repo, site)
    except Exception as exc:  # noqa: BLE001
        return {"site": k, "kind": site[1], "where": f"{site[0]}:{site[3]}", "status": "SKIP", "why": f"{type(exc).__name__}: {exc}"[:120], "rc": {}}
    try:
        res: Dict[str, int] = {}
        alarms: Dict[str, List[str]] = {}
        for p in props:
            env = dict(os.environ)
            env["SA_REPO"] = tmp
            env["SA_EVIDENCE_DIR"] = os.path.join(tmp, "_evidence")
            r = subprocess.run([sys.executable, "-m", "sa.check", p, "--tier", "quick"], cwd=VERIF, env=env, capture_output=True, text=True)
            res[p] = r.returncode
            if r.returncode != 0:
                alarms[p] = [ln.strip()[:300] for ln in r.stdout.splitlines() if ("VIOLATED" in ln or "UNDECIDED" in ln or "ANALYSIS-ERROR" in ln)][:3]
        worst = max(res.values()) if res else 0
        status = "ALARM" if any(c == 1 for c in res.values()) else ("UNDECIDED" if worst else "OK")
        return {"site": k, "kind": site[1], "where": f"{site[0]}:{site[3]}", "status": status, "rc": {p: c for p, c in res.items() if c}, "alarms": alarms}
    finally:
        shutil.rmtree(tmp, ignore_errors=True)


def main() -> int:
    ap = argparse.ArgumentParser()
    ap.add_argument("--jobs", type=int, default=min(16, os.cpu_count() or 4))
    ap.add_argument("--kinds", default="")
    ap.add_argument("--props", default="")
    ap.add_argument("--site", type=int, default=-1)
    ap.add_argument("--list", action="store_true")
    a = ap.parse_args()
    repo = os.environ.get("SA_REPO", "/repo")
    kinds = [x.strip() for x in a.kinds.split(",") if x.strip()] or None
    props = [p.strip().upper() for p in a.props.split(",") if p.strip()] or [f"C{i:02d}" for i in range(1, 20)]
    ss = all_sites(repo, kinds)
    idx = [a.site] if a.site >= 0 else list(range(len(ss)))
    if a.list:
        for k in idx:
            print(k, ss[k][1], ss[k][0], ss[k][3])
        return 0
    with ThreadPoolExecutor(max_workers=a.jobs) as ex:
        res = list(ex.map(lambda k: run_site(k, ss[k], repo, props), idx))
    for r in res:
        if r["status"] != "OK":
            print(json.dumps(r))
    n = {s: sum(1 for r in res if r["status"] == s) for s in ("OK", "UNDECIDED", "ALARM", "SKIP")}
    print(f"rewrite: {len(res)} variants x {len(props)} checks: {n['OK']} exit 0 everywhere, {n['UNDECIDED']} with an exit 2, {n['ALARM']} with a VIOLATION (false alarm), {n['SKIP']} skipped")
    return 1 if n["ALARM"] else 0


if __name__ == "__main__":
    sys.exit(main())
