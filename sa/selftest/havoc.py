"""False-alarm fuzzing of the checkers ("havoc" variants).

Every variant wraps ONE computed value of the repository in `copy.copy(...)`.  For the immutable values and
fresh containers selected here that leaves the behaviour unchanged, but the analyser does not model
`copy.copy`, so the value becomes opaque to it.  A sound checker may answer 0 (still decided) or 2
(ANALYSIS-ERROR: cannot decide) on such a tree - never 1 / VIOLATION.  Any VIOLATION here is a rule that
reads "I do not understand this term" as "this term is wrong".

usage: python -m sa.selftest.havoc [--jobs N] [--limit N] [--props C01,C02] [--site k]
exit 0: no variant produced a VIOLATION line;  exit 1: some did (listed).
"""
from __future__ import annotations

import argparse
import ast
import json
import os
import shutil
import subprocess
import sys
import tempfile
from concurrent.futures import ThreadPoolExecutor
from typing import Any, Dict, List, Tuple

HERE = os.path.dirname(os.path.abspath(__file__))
VERIF = os.path.dirname(os.path.dirname(HERE))
FILES = [
    "src/aioswitcher/device/tools.py",
    "src/aioswitcher/schedule/tools.py",
    "src/aioswitcher/schedule/parser.py",
    "src/aioswitcher/api/messages.py",
    "src/aioswitcher/api/remotes.py",
    "src/aioswitcher/api/__init__.py",
    "src/aioswitcher/bridge.py",
]
WRAPPABLE = (ast.Call, ast.BinOp, ast.JoinedStr, ast.Subscript, ast.IfExp, ast.Compare, ast.BoolOp)
# values that are (or may be) live mutable/identity-bearing objects: copying them is NOT behaviour-preserving
SKIP_TEXT = ("open_connection", "create_datagram_endpoint", "get_running_loop", "partial(", "UdpClientProtocol(", "getLogger",
             "_transports", "_writer", "_reader", "transport", "super()", "_ir_wave_map", "key.pop", "self._login", "await ",
             "SwitcherBreezeRemote(", "load(", "open(", "_remotes_db", "field(")


def sites(repo: str) -> List[Tuple[str, int, int, int, int, str]]:
    out = []
    for rel in FILES:
        path = os.path.join(repo, rel)
        with open(path) as fh:
            src = fh.read()
        tree = ast.parse(src)
        for fn in ast.walk(tree):
            if not isinstance(fn, (ast.FunctionDef, ast.AsyncFunctionDef)):
                continue
            for st in ast.walk(fn):
                val = None
                if isinstance(st, ast.Return) and st.value is not None:
                    val = st.value
                elif isinstance(st, ast.Assign) and len(st.targets) == 1 and isinstance(st.targets[0], ast.Name):
                    val = st.value
                if val is None or not isinstance(val, WRAPPABLE):
                    continue
                txt = ast.get_source_segment(src, val) or ""
                if any(k in txt for k in SKIP_TEXT) or any(isinstance(n, (ast.Await, ast.Yield, ast.Lambda)) for n in ast.walk(val)):
                    continue
                out.append((rel, val.lineno, val.col_offset, val.end_lineno, val.end_col_offset, f"{fn.name}: {txt[:60]}"))
    # one entry per distinct location
    seen = set()
    uniq = []
    for s in out:
        if s[:5] not in seen:
            seen.add(s[:5])
            uniq.append(s)
    return uniq


def make_variant(repo: str, site: Tuple[str, int, int, int, int, str]) -> str:
    tmp = tempfile.mkdtemp(prefix="sa_havoc_")
    shutil.copytree(os.path.join(repo, "src"), os.path.join(tmp, "src"), ignore=shutil.ignore_patterns("__pycache__", "*.pyc"))
    rel, l0, c0, l1, c1, _ = site
    path = os.path.join(tmp, rel)
    with open(path) as fh:
        lines = fh.read().split("\n")
    # insert closing first (positions after it stay valid), byte offsets == char offsets only for ASCII lines: use utf-8 aware cut
    def cut(line: str, col: int) -> Tuple[str, str]:
        b = line.encode("utf-8")
        return b[:col].decode("utf-8"), b[col:].decode("utf-8")
    a, b = cut(lines[l1 - 1], c1)
    lines[l1 - 1] = a + ")" + b
    a, b = cut(lines[l0 - 1], c0)
    lines[l0 - 1] = a + "_havoc_copy.copy(" + b
    tree = ast.parse("\n".join(lines))
    first_import = min(n.lineno for n in tree.body if isinstance(n, (ast.Import, ast.ImportFrom)) and not (isinstance(n, ast.ImportFrom) and n.module == "__future__"))
    lines.insert(first_import - 1, "import copy as _havoc_copy")
    with open(path, "w") as fh:
        fh.write("\n".join(lines))
    ast.parse("\n".join(lines))
    return tmp


def run_site(k: int, site: Tuple[str, int, int, int, int, str], repo: str, props: List[str]) -> Dict[str, Any]:
    try:
        tmp = make_variant(repo, site)
    except SyntaxError as exc:
        return {"site": k, "where": f"{site[0]}:{site[1]}", "what": site[5], "status": "SKIP", "why": str(exc)[:80]}
    try:
        res: Dict[str, int] = {}
        alarms: Dict[str, List[str]] = {}
        for p in props:
            env = dict(os.environ)
            env["SA_REPO"] = tmp
            env["SA_EVIDENCE_DIR"] = os.path.join(tmp, "_evidence")
            r = subprocess.run([sys.executable, "-m", "sa.check", p, "--tier", "quick"], cwd=VERIF, env=env, capture_output=True, text=True)
            res[p] = r.returncode
            if r.returncode == 1 or "VIOLATION property=" in r.stdout:
                alarms[p] = [ln.strip()[:400] for ln in r.stdout.splitlines() if "VIOLATED" in ln][:3]
        return {"site": k, "where": f"{site[0]}:{site[1]}", "what": site[5], "status": "ALARM" if alarms else "OK", "rc": {p: c for p, c in res.items() if c}, "alarms": alarms}
    finally:
        shutil.rmtree(tmp, ignore_errors=True)


def main() -> int:
    ap = argparse.ArgumentParser()
    ap.add_argument("--jobs", type=int, default=min(16, os.cpu_count() or 4))
    ap.add_argument("--limit", type=int, default=0)
    ap.add_argument("--props", default="")
    ap.add_argument("--site", type=int, default=-1)
    ap.add_argument("--list", action="store_true")
    a = ap.parse_args()
    repo = os.environ.get("SA_REPO", "/repo")
    props = [p.strip().upper() for p in a.props.split(",") if p.strip()] or [f"C{i:02d}" for i in range(1, 20)]
    ss = sites(repo)
    idx = list(range(len(ss)))
    if a.site >= 0:
        idx = [a.site]
    elif a.limit:
        step = max(1, len(ss) // a.limit)
        idx = idx[::step][: a.limit]
    if a.list:
        for k in idx:
            print(k, ss[k][0], ss[k][1], ss[k][5])
        return 0
    with ThreadPoolExecutor(max_workers=a.jobs) as ex:
        res = list(ex.map(lambda k: run_site(k, ss[k], repo, props), idx))
    bad = [r for r in res if r["status"] == "ALARM"]
    und = sum(1 for r in res if r["status"] == "OK" and r["rc"])
    for r in bad:
        print(json.dumps(r))
    print(f"havoc: {len(ss)} wrappable sites, {len(res)} variants run x {len(props)} checks; {len(res) - len(bad) - und} fully decided, {und} with an honest exit 2 somewhere, {len(bad)} with a VIOLATION (false alarm)")
    return 1 if bad else 0


if __name__ == "__main__":
    sys.exit(main())
