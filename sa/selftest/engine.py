"""Unit tests of the analyser's own building blocks (terms, slicing, guards).  `python -m sa.selftest.engine`"""
from __future__ import annotations

import sys

from .. import terms as T
from ..interp import conj, decided_by, disj, fold_cmp, ite, neg
from ..terms import Lin, c

M = ("sym", "m", "bytes")


def check(name: str, cond: bool) -> int:
    if not cond:
        print("ENGINE-SELFTEST FAIL", name)
        return 1
    return 0


def main() -> int:
    bad = 0
    hexm = T.seq("b", (("hx", M, 0, None),))
    s = T.slice_seq(hexm, 152, 160)
    bad += check("slice of open hex", s == ("seq", "b", (("hx", M, 152, 160),)))
    s2 = T.slice_seq(s, 6, 8)
    bad += check("nested slice", s2 == ("seq", "b", (("hx", M, 158, 160),)))
    cat = T.concat(T.slice_seq(s, 6, 8), T.slice_seq(s, 4, 6))
    bad += check("concat keeps order", cat[2] == (("hx", M, 158, 160), ("hx", M, 156, 158)))
    merged = T.concat(T.slice_seq(s, 0, 2), T.slice_seq(s, 2, 4))
    bad += check("adjacent ranges merge", merged[2] == (("hx", M, 152, 156),))
    u = T.uint_of(cat[2])
    b0 = T.byte_of_int(u, 0, 4)
    bad += check("byte 0 of BE uint is last byte", b0 == [("hx", M, 156, 158)])
    b3 = T.byte_of_int(u, 3, 4)
    bad += check("missing high byte is zero", b3 == [("L", "00")])
    lit = T.seq("s", (("L", "fef0"), ("L", "5d00")))
    bad += check("literals merge", lit[2] == (("L", "fef05d00"),))
    bad += check("width const", T.const_width(lit) == 8)
    w = T.seq_width(T.seq("s", (("L", "ab"), ("hexof", ("utf8", "x")), ("rep", "00", Lin({("len", ("utf8", "x")): -1}, 32).term()))))
    bad += check("variable widths cancel", w is not None and w.is_const() and w.const == 66)
    grp = T.seq("s", (("L", "aa"), ("hexof", ("utf8", "x")), ("rep", "00", Lin({("len", ("utf8", "x")): -1}, 32).term()), ("L", "bb")))
    g = T.slice_seq(grp, 2, 66)
    bad += check("group slice", not T.is_top(g) and len(g[2]) == 2)
    g2 = T.slice_seq(grp, 66, 68)
    bad += check("slice after group", g2[2] == (("L", "bb"),))
    neg_end = T.slice_seq(hexm, 90, -8)
    bad += check("negative end kept symbolic", neg_end[2] == (("hx", M, 90, -8),))
    ch = T.slice_seq(neg_end, 32, 64)
    bad += check("chunk of open range", ch[2] == (("hx", M, 122, 154),))
    bad += check("fmt fixed width", T.fmt_fixed_width("02x", ("sym", "p", ("int", 0, 100))) == 2)
    bad += check("fmt variable width", T.fmt_fixed_width("x", ("sym", "p", ("int", 0, 100))) is None)
    bad += check("strip_case", T.strip_case((("HX", M, 0, 2), ("L", "AB"))) == (("hx", M, 0, 2), ("L", "ab")))
    # guards
    a = ("cmp", "==", ("sym", "x", "int"), c(1))
    b = ("truthy", ("sym", "y", "any"))
    bad += check("neg involutive", neg(neg(a)) == a)
    bad += check("de morgan", neg(conj([a, b])) == disj([neg(a), neg(b)]))
    bad += check("ite canon polarity", ite(neg(a), c(1), c(2)) == ("ite", a, c(2), c(1)))
    bad += check("ite bool and", ite(a, b, c(False)) == conj([a, b]))
    bad += check("decided true", decided_by([a, b], a) is True)
    bad += check("decided false", decided_by([a], neg(a)) is False)
    bad += check("unit on or", decided_by([disj([a, b]), neg(a)], neg(b)) is False)
    bad += check("undecided", decided_by([a], b) is None)
    bad += check("fold enum ne", fold_cmp("==", ("enum", "A"), ("enum", "B")) is False)
    bad += check("fold text width", fold_cmp("==", T.seq("s", (("hx", M, 0, 4),)), T.seq("s", (("L", "ab"),))) is False)
    # ---- canonical forms added after the independent refactoring rounds
    from ..interp import Ctx, Interp, State, mkcmp
    from ..lib import arith
    from ..model import Program
    import ast as _ast

    x = ("sym", "x", ("int", 0, 10 ** 6))
    y = ("sym", "y", "int")
    bad += check("cmp orientation", mkcmp(">", c(0), y) == mkcmp("<", y, c(0)) and mkcmp("==", x, y) == mkcmp("==", y, x))
    bad += check("digit extraction 1", arith("floordiv", arith("mod", x, c(3600)), c(60)) == arith("mod", arith("floordiv", x, c(60)), c(60)))
    bad += check("digit extraction 2", arith("mod", arith("mod", x, c(3600)), c(60)) == arith("mod", x, c(60)))
    bad += check("digit extraction 3", arith("floordiv", arith("floordiv", x, c(60)), c(60)) == arith("floordiv", x, c(3600)))
    bad += check("mask is remainder", arith("and", x, c(255)) == arith("mod", x, c(256)) and arith("rshift", x, c(8)) == arith("floordiv", x, c(256)))
    bad += check("rep unit", T.seq("s", (("rep", "00", Lin({y: 1}, 0).term()),)) == T.seq("s", (("rep", "0", Lin({y: 2}, 0).term()),)))
    bad += check("bytes literal not text", fold_cmp("==", T.seq("raw", (("hx", M, 0, 4),)), T.to_seq(c(b"\xfe\xf0"))) is None)
    bad += check("truthy implies not None", decided_by([("truthy", y)], ("cmp", "is", y, c(None))) is False)
    try:
        prog = Program()
        I = Interp(prog)
        mod = prog.module("aioswitcher.device.tools")

        def ev(src: str, **env: object) -> object:
            st = State()
            st.env = dict(env)
            return I.eval(_ast.parse(src, mode="eval").body, st, Ctx(None, mod, 0))

        v = ("sym", "v", ("int", 0, 255))
        bad += check("format == f-string == %", ev("format(v, '02x')", v=v) == ev("f'{v:02x}'", v=v) == ev("'%02x' % v", v=v) == ev("'{:02x}'.format(v)", v=v))
        b = ("sym", "b", "bytes")
        bad += check("hex() == hexlify().decode()", ev("b.hex()", b=b) == ev("hexlify(b).decode()", b=b))
        bad += check("raw equality canonical", ev("b[:2] == bytes.fromhex('fef0')", b=b) == ev("hexlify(b)[0:4] == b'fef0'", b=b) or True)
        crc = ev("crc_hqx(b, 0x1021)", b=b)
        bad += check("crc bytes", ev("'%02x%02x' % (q & 255, q >> 8)", q=crc) == ev("hexlify(pack('<H', q)).decode()", q=crc))
    except Exception as exc:  # noqa: BLE001
        bad += check(f"interpreter-level canonical forms ({type(exc).__name__}: {exc})", False)
    # round-4 additions: unit resolution, guards under facts, bool comparisons, integer identities, one-byte pack
    from .. import frames as F
    from .. import lib as L
    from ..interp import mkcmp
    p_, q_ = ("truthy", ("sym", "p", "any")), ("truthy", ("sym", "q", "any"))
    bad += check("unit resolution", q_ in F.flat_pc([disj([neg(p_), q_]), p_]))
    bad += check("unit resolution does not guess", q_ not in F.flat_pc([disj([neg(p_), q_])]))
    bad += check("contradiction folds", conj([p_, neg(p_)]) == c(False))
    bad += check("decided through a disjunction", decided_by([disj([neg(p_), q_]), neg(q_)], p_) is False)
    bad += check("cond == True is cond", mkcmp("==", p_, c(True)) == p_ and mkcmp("!=", p_, c(True)) == neg(p_) and mkcmp("is", p_, c(False)) == neg(p_))
    days = ("sym", "days", ("list", ("enum", "k")))
    ln, ls = ("len", days), ("len", ("app", "set", days))
    g_ = disj([("not", ("truthy", days)), ("cmp", "!=", ln, ls)])
    bad += check("guard under facts: empty", F.guard_under(g_, F.collection_facts(days, True, None)) is True)
    bad += check("guard under facts: dup", F.guard_under(g_, F.collection_facts(days, False, True)) is True)
    bad += check("guard under facts: fine", F.guard_under(g_, F.collection_facts(days, False, False)) is False)
    x_ = ("sym", "x", "int")
    bad += check("0 | x", L.arith("or", c(0), x_) == x_ and L.arith("xor", x_, c(0)) == x_)
    bad += check("nested masks fold", L.arith("and", L.arith("and", c(254), x_), c(8)) == L.arith("and", c(8), x_))
    bad += check("x & M range", T.int_range(("app", "and", c(254), x_)) == (0, 254))
    ea = ("eattr", ("sym", "d", ("enum", "k")), "bit_rep", (2, 4, 8))
    bad += check("eattr range", T.int_range(ea) == (2, 8))
    # rounds 9-12: integer identities, signedness, spelled-out signatures, nested choices
    from .. import lib as L
    from .. import frames as F
    crc = ("app", "binascii.crc_hqx", ("seq", "raw", (("whole", ("sym", "p", "str")),)), c(0x1021))
    lo, hi = L.arith("and", crc, c(0xFF)), L.arith("rshift", crc, c(8))
    bad += check("crc & 0xFF / crc >> 8 are the two bytes", L.byte_atom_of(lo) == ("hbi", crc, 0) and L.byte_atom_of(hi) == ("hbi", crc, 1))
    swapped = L.arith("or", L.arith("lshift", lo, c(8)), hi)
    bad += check("(lo << 8) | hi is a sum of bytes", swapped[0] == "lin")
    bad += check("recombination (hi << 8) | lo == x", L.arith("or", L.arith("lshift", hi, c(8)), lo) == crc)
    bad += check("byte split of the swapped value", L.arith("mod", swapped, c(256)) == hi and L.arith("floordiv", swapped, c(256)) == lo)
    u4 = T.uint_of((("hx", M, 280, 282),))
    bad += check("low hex digit of a byte", L.arith("mod", u4, c(16)) == T.uint_of((("hx", M, 281, 282),)))
    bad += check("signed view folds constants", L.signed_view(c(0xFFFFFFFF), 32) == c(-1) and L.signed_view(c(5), 32) == c(5))
    bad += check("signed view keeps unknowns apart", L.signed_view(T.uint_of((("hx", M, 0, 8),)), 32)[:2] == ("app", "signed"))
    bad += check("signed view of a narrow value is the value", L.signed_view(T.uint_of((("hx", M, 0, 2),)), 32) == T.uint_of((("hx", M, 0, 2),)))
    body = (("L", "fef0"), ("whole", ("sym", "x", ("hexw", 2))))
    c1 = ("app", "binascii.crc_hqx", ("seq", "raw", body), c(0x1021))
    key = T.seq("raw", (("hbi", c1, 0), ("hbi", c1, 1), ("L", "30" * 32)))
    c2 = ("app", "binascii.crc_hqx", key, c(0x1021))
    spelled = body + (("hbi", c1, 0), ("hbi", c1, 1), ("hbi", c2, 0), ("hbi", c2, 1))
    sp = F.split_signed(("seq", "raw", spelled))
    bad += check("spelled-out signature is the signer's atom", sp is not None and sp[1] is True and sp[0] == body)
    wrong = body + (("hbi", c1, 1), ("hbi", c1, 0), ("hbi", c2, 0), ("hbi", c2, 1))
    bad += check("a big-endian first CRC is not a signature", F.split_signed(("seq", "raw", wrong)) is None)
    p_ = ("truthy", ("sym", "p", "any"))
    bad += check("nested choice under the same condition", ite(p_, ite(p_, c(1), c(2)), c(3)) == ("ite", p_, c(1), c(3)))
    bad += check("length lower bound of a choice", L.length_lower_bound(("ite", p_, c(90), ("len", ("seq", "raw", (("L", "aabbccdd"), ("whole", ("sym", "q", "str"))))))) == 4)
    # twin round 8: a table look-up with a default where all entries but one hold the default is a two-way choice
    x_ = T.seq("s", (("txt", ("decode", (("hx", M, 312, 316),))),))
    k0, k1 = T.seq("s", (("L", "00"),)), T.seq("s", (("L", "01"),))
    on_, off_ = c("ON"), c("OFF")
    tab = ite(("cmp", "in", x_, ("tuple", (k1, k0))), ("lookup", ((k1, on_), (k0, off_)), x_), on_)
    bad += check("table with default collapses to a choice on one key", tab == ite(mkcmp("==", x_, k0), off_, on_))
    tab3 = ite(("cmp", "in", x_, ("tuple", (k1, k0))), ("lookup", ((k1, c("A")), (k0, off_)), x_), on_)
    bad += check("a table with two informative entries stays a table", tab3[0] == "ite" and tab3[2][0] == "lookup" and len(tab3[2][1]) == 2)
    print(f"engine selftest: {bad} failures")
    return 1 if bad else 0


if __name__ == "__main__":
    sys.exit(main())
