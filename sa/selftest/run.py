"""Self-test of the rules: seeded variants of /repo analysed in scratch copies.

Each variant is one textual edit of one construct of the *current* /repo
sources (the edit is located by a unique anchor string; if the anchor is gone
the variant is reported as STALE, it never silently passes).  The edited copy
lives in a temporary directory outside /repo and /verif, is byte-compiled to
make sure it is still a valid program, analysed with SA_REPO pointing at it,
and removed.  Expectation per variant: 'violation' (the check must print a
VIOLATION line naming the property) or 'pass' (behaviour-preserving twin: exit 0).

usage: python -m sa.selftest.run [PROPERTY ...] [--jobs N] [--list] [--id VARIANT]
"""
from __future__ import annotations

import argparse
import json
import os
import py_compile
import shutil
import subprocess
import sys
import tempfile
from concurrent.futures import ThreadPoolExecutor
from typing import Any, Dict, List, Tuple

HERE = os.path.dirname(os.path.abspath(__file__))
VERIF = os.path.dirname(os.path.dirname(HERE))


def load_variants() -> List[Dict[str, Any]]:
    out: List[Dict[str, Any]] = []
    vdir = os.path.join(HERE, "variants")
    for fn in sorted(os.listdir(vdir)):
        if fn.endswith(".json"):
            with open(os.path.join(vdir, fn)) as fh:
                for v in json.load(fh):
                    v.setdefault("expect", "violation")
                    out.append(v)
    return out


def make_copy(repo: str) -> str:
    tmp = tempfile.mkdtemp(prefix="sa_variant_")
    for sub in ("src", "scripts"):
        src = os.path.join(repo, sub)
        if os.path.isdir(src):
            shutil.copytree(src, os.path.join(tmp, sub), ignore=shutil.ignore_patterns("__pycache__", "*.pyc"))
    return tmp


def apply_patch(root: str, patch_rel: str) -> Tuple[bool, str]:
    """Apply a stored unified diff (seeded/<id>/patch.diff) to the scratch copy; both sides are LF-normalised
    because /repo's working tree mixes LF and CRLF files."""
    src = os.path.join(VERIF, patch_rel)
    if not os.path.exists(src):
        return False, f"patch {patch_rel} missing"
    with open(src, "rb") as fh:
        data = fh.read().replace(b"\r\n", b"\n")
    touched = []
    for line in data.decode("utf-8", "replace").splitlines():
        if line.startswith("+++ b/"):
            touched.append(line[6:].strip())
    for rel in touched:
        q = os.path.join(root, rel)
        if os.path.exists(q):
            with open(q, "rb") as fh:
                raw = fh.read()
            if b"\r\n" in raw:
                with open(q, "wb") as fh:
                    fh.write(raw.replace(b"\r\n", b"\n"))
    norm = os.path.join(root, "_variant.diff")
    with open(norm, "wb") as fh:
        fh.write(data)
    for cmd in (["patch", "-p1", "-s", "-i", norm], ["git", "apply", "-p1", norm]):
        try:
            p = subprocess.run(cmd, cwd=root, capture_output=True, text=True)
        except FileNotFoundError:
            continue
        if p.returncode == 0:
            break
        return False, f"patch does not apply: {(p.stdout + p.stderr)[-200:]}"
    else:
        return False, "neither patch nor git is available"
    for rel in touched:
        if rel.endswith(".py") and os.path.exists(os.path.join(root, rel)):
            try:
                py_compile.compile(os.path.join(root, rel), doraise=True, cfile=os.path.join(root, "_tmp.pyc"))
            except py_compile.PyCompileError as exc:
                return False, f"variant does not compile: {exc}"
    return True, ""


def apply_edits(root: str, edits: List[Dict[str, str]]) -> Tuple[bool, str]:
    for e in edits:
        path = os.path.join(root, e["file"])
        if not os.path.exists(path):
            return False, f"file {e['file']} missing"
        with open(path) as fh:
            txt = fh.read()
        n = txt.count(e["old"])
        want = int(e.get("count", 1))
        if n != want:
            return False, f"anchor occurs {n} times (expected {want}) in {e['file']}: {e['old'][:60]!r}"
        txt = txt.replace(e["old"], e["new"])
        with open(path, "w") as fh:
            fh.write(txt)
        try:
            py_compile.compile(path, doraise=True, cfile=os.path.join(root, "_tmp.pyc"))
        except py_compile.PyCompileError as exc:
            return False, f"variant does not compile: {exc}"
    return True, ""


def run_variant(v: Dict[str, Any], repo: str) -> Dict[str, Any]:
    tmp = make_copy(repo)
    try:
        ok, why = apply_patch(tmp, v["patch"]) if "patch" in v else (True, "")
        if ok:
            ok, why = apply_edits(tmp, v.get("edits", []))
        if not ok:
            return {"id": v["id"], "status": "STALE", "why": why}
        results = {}
        verdict = "OK"
        for prop in v["properties"]:
            env = dict(os.environ)
            env["SA_REPO"] = tmp
            env["SA_EVIDENCE_DIR"] = os.path.join(tmp, "_evidence")
            p = subprocess.run([sys.executable, "-m", "sa.check", prop, "--tier", "quick"], cwd=VERIF, env=env, capture_output=True, text=True)
            viol = any(line.startswith(f"VIOLATION property={prop}") for line in p.stdout.splitlines())
            results[prop] = {"rc": p.returncode, "violation": viol}
            want = v.get("expect_map", {}).get(prop, v["expect"])
            if want == "undecided":
                # a documented limit of the analysis: the change is met with "cannot decide" (exit 2), never exit 0
                if p.returncode != 2 or viol:
                    verdict = "MISSED" if p.returncode == 0 else f"WRONG-EXIT({p.returncode})"
                    results[prop]["tail"] = p.stdout[-1500:] + p.stderr[-500:]
            elif want == "violation":
                if not (p.returncode == 1 and viol):
                    verdict = "MISSED" if p.returncode == 0 else f"WRONG-EXIT({p.returncode})"
                    results[prop]["tail"] = p.stdout[-1500:] + p.stderr[-500:]
            else:
                if p.returncode != 0:
                    verdict = f"FALSE-ALARM({p.returncode})"
                    results[prop]["tail"] = p.stdout[-1500:] + p.stderr[-500:]
        return {"id": v["id"], "status": verdict, "results": results}
    finally:
        shutil.rmtree(tmp, ignore_errors=True)


def main() -> int:
    ap = argparse.ArgumentParser()
    ap.add_argument("props", nargs="*")
    ap.add_argument("--jobs", type=int, default=min(16, os.cpu_count() or 4))
    ap.add_argument("--list", action="store_true")
    ap.add_argument("--id", default=None)
    ap.add_argument("--verbose", action="store_true")
    a = ap.parse_args()
    repo = os.environ.get("SA_REPO", "/repo")
    vs = load_variants()
    if a.props:
        want = {p.upper() for p in a.props}
        vs = [v for v in vs if want & set(v["properties"])]
        for v in vs:
            v["properties"] = [p for p in v["properties"] if p in want]
    if a.id:
        vs = [v for v in vs if v["id"] == a.id]
    if a.list:
        for v in vs:
            print(v["id"], v["properties"], v["expect"], "-", v.get("what", ""))
        return 0
    with ThreadPoolExecutor(max_workers=a.jobs) as ex:
        res = list(ex.map(lambda v: run_variant(v, repo), vs))
    bad = [r for r in res if r["status"] != "OK"]
    for r in res:
        if r["status"] != "OK" or a.verbose:
            print(json.dumps(r, indent=1))
    print(f"selftest: {len(res)} variants, {len(res) - len(bad)} as expected, {len(bad)} not")
    return 0 if not bad else 2


if __name__ == "__main__":
    sys.exit(main())
