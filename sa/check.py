"""CLI: /venv/bin/python -m sa.check <PROPERTY> [--tier quick|thorough] [--explain PATH]

exit 0  every obligation discharged (known findings are printed, not counted)
exit 1  a VIOLATION line was printed (violation not in known_findings.json)
exit 2  ANALYSIS-ERROR: the analyser could not decide (never a VIOLATION line)
"""
from __future__ import annotations

import argparse
import importlib
import json
import os
import sys
import traceback

from .model import AnalysisError, Program
from .report import Report, analysis_error


def run_property(prop: str, tier: str, root: str | None = None) -> int:
    modname = f"sa.props.{prop.lower()}"
    try:
        mod = importlib.import_module(modname)
    except ModuleNotFoundError:
        return analysis_error(prop, tier, "other", f"no checker implemented for {prop}")
    level = getattr(mod, "LEVEL", "other")
    rep = None
    try:
        prog = Program(root)
        rep = Report(prop, tier, level)
        rep.analysed["modules"] = prog.digests()
        rep.analysed["repo_root"] = prog.root
        # one budget for the whole analysis of the property (interpreters and rule code): beyond it the answer is
        # "cannot decide" (exit 2) - never a hang
        import time as _time
        from . import frames as _frames
        budget = float(os.environ.get("SA_MAX_TOTAL_SECONDS", "240"))
        _frames.DEADLINE = _time.process_time() + budget
        import signal as _signal

        def _on_alarm(_sig: int, _frm: object) -> None:
            # raised wherever the main thread is (term traversals of rule code included); repeats every few seconds
            # until it has escaped every handler on the way out
            raise AnalysisError(f"analysis budget exceeded ({int(budget)} s for one property, SA_MAX_TOTAL_SECONDS): the paths / guards grew too large to handle")

        # CPU time of this process (ITIMER_PROF), not wall-clock time: the verdict must not depend on the load of the machine
        have_alarm = hasattr(_signal, "setitimer") and hasattr(_signal, "ITIMER_PROF")
        if have_alarm:
            _signal.signal(_signal.SIGPROF, _on_alarm)
            _signal.setitimer(_signal.ITIMER_PROF, budget, 5.0)
        try:
            mod.run(prog, rep, tier)
        finally:
            if have_alarm:
                _signal.setitimer(_signal.ITIMER_PROF, 0)
            _frames.DEADLINE = None
        if tier == "thorough":
            from . import thorough

            if hasattr(mod, "run_thorough"):
                mod.run_thorough(prog, rep)
            thorough.engine_obligations(rep)
            thorough.selftest_obligations(prop, rep, prog.root)
            thorough.fuzz_obligations(prop, rep, prog.root)
            thorough.mypy_second_witness(rep, prog.root)
        seed = int(os.environ.get("VERIF_SEED", "0") or 0)
        return rep.finish(seed)
    except AnalysisError as exc:
        if rep is not None and any(o.verdict == "VIOLATED" for o in rep.obligations):
            # a rule had already refuted the property before the analysis met something it cannot follow: the
            # violation stands, the rest is reported as not decided
            rep.rules.setdefault("ENGINE-ABORT", "the analysis of this property ran to its end")
            rep.undecided("ENGINE-ABORT", "analysis aborted", "-", str(exc))
            return rep.finish(int(os.environ.get("VERIF_SEED", "0") or 0))
        return analysis_error(prop, tier, level, str(exc))
    except Exception as exc:  # noqa: BLE001
        traceback.print_exc()
        return analysis_error(prop, tier, level, f"internal error: {type(exc).__name__}: {exc}")


def main(argv: list[str] | None = None) -> int:
    ap = argparse.ArgumentParser()
    ap.add_argument("prop")
    ap.add_argument("--tier", default=os.environ.get("VERIF_TIER", "quick"), choices=["quick", "thorough"])
    ap.add_argument("--explain", default=None)
    ap.add_argument("--root", default=None)
    a = ap.parse_args(argv)
    if a.explain:
        with open(a.explain) as fh:
            data = json.load(fh)
        print(json.dumps(data, indent=1))
        print("--- re-deriving on the current tree ---")
    return run_property(a.prop.upper(), a.tier, a.root)


if __name__ == "__main__":
    rc = main()
    sys.stdout.flush()
    sys.exit(rc)
