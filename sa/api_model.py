"""Shared set-up for analysing the TCP API classes (C01, C02, C03, C09, C16, C18).

Builds a *symbolic* API instance (device id = 6 hex digits, key = 2 hex digits,
reader/writer = opaque stream objects) and abstractly interprets each public
operation, returning the guarded paths with their ordered event traces.
"""
from __future__ import annotations

import ast
from typing import Any, Dict, List, Optional, Tuple

from . import terms as T
from .interp import Ctx, Event, HeapObj, Interp, Outcome, State, conj
from .model import AnalysisError, ClassInfo, FunctionInfo, Program
from .terms import Term, c

API_MOD = "aioswitcher.api"
TOOLS = "aioswitcher.device.tools"

# operation -> (class, symbolic argument types).  Types: see Interp.type_of_annotation
# plus ('int', lo, hi) ranges taken from the property statements (assumptions).
OPERATIONS: Dict[str, Tuple[str, Dict[str, Any]]] = {
    "get_state": ("SwitcherType1Api", {}),
    "control_device": ("SwitcherType1Api", {"command": ("enum", "aioswitcher.api:Command"), "minutes": "int"}),
    "set_auto_shutdown": ("SwitcherType1Api", {"full_time": "timedelta"}),
    "set_device_name": ("SwitcherType1Api", {"name": "str"}),
    "get_schedules": ("SwitcherType1Api", {}),
    "delete_schedule": ("SwitcherType1Api", {"schedule_id": ("hexw", 1)}),
    "create_schedule": ("SwitcherType1Api", {"start_time": "str", "end_time": "str", "days": ("set", ("enum", "aioswitcher.schedule:Days"))}),
    "stop": ("SwitcherType2Api", {}),
    "set_position": ("SwitcherType2Api", {"position": ("int", 0, 100)}),
    "get_breeze_state": ("SwitcherType2Api", {}),
    "get_shutter_state": ("SwitcherType2Api", {}),
    "control_breeze_device": (
        "SwitcherType2Api",
        {
            "remote": ("obj", "aioswitcher.api.remotes:SwitcherBreezeRemote"),
            "state": ("opt", ("enum", "aioswitcher.device:DeviceState")),
            "mode": ("opt", ("enum", "aioswitcher.device:ThermostatMode")),
            "target_temp": ("int", 0, 255),
            "fan_level": ("opt", ("enum", "aioswitcher.device:ThermostatFanLevel")),
            "swing": ("opt", ("enum", "aioswitcher.device:ThermostatSwing")),
            "update_state": "bool",
        },
    ),
}

ASSUMPTIONS = [
    "A1: the login reply is at least 12 bytes long (it 'carries a session id'), so hexlify(reply)[16:24] is 8 nibbles",
    "A2: device_id is 6 hex digits (3 bytes), device_key is 2 hex digits (1 byte)",
    "A3: schedule_id is one hex digit; position in [0,100]; target temperature in [0,255]",
    "A4: 0 <= time.time() < 2**32 (struct.pack('<I') of the clock cannot overflow)",
    "A5: the IR text Para|HexCode is 1..2000 bytes long (the property's quantifier)",
]


def sig_stub(I: Interp, args: List[Term], kwargs: Dict[str, Term], st: State, ctx: Ctx, node: ast.AST) -> Term:
    """Summary of sign_packet_with_crc_key proved by C04: p ++ SIG(p), SIG 8 nibbles.

    unhexlify(p) runs first inside the real function, so non-hex / odd input raises."""
    p = args[0]
    from . import lib

    lib.unhexlify(I, p, st, ctx, node)
    s = T.to_seq(p)
    if s is None:
        return T.top("sign of non-text")
    return T.seq(s[1], s[2] + (("sig", s),))


REMOTES = "aioswitcher.api.remotes"


def _ir_command_stub(kind: str):
    """Summary of SwitcherBreezeRemote.build_command / build_swing_command (decided by C15):
    returns SwitcherBreezeCommand("00000000" + hexlify(<ASCII IR text>)); the call and its
    arguments are recorded as an event; the real SwitcherBreezeCommand constructor is interpreted."""

    def stub(I: Interp, args: List[Term], kwargs: Dict[str, Term], st: State, ctx: Ctx, node: ast.AST) -> Term:
        st.events.append(Event("call", f"remote.{kind}", tuple(args[1:]), tuple(sorted(kwargs.items())), ctx.loc(node), ctx.fi.key if ctx.fi else "", False, None, len(st.pc)))
        st.may_raise("RuntimeError", ("ext", f"{kind}: unsupported mode / missing IR key", st.fresh("ext")), ctx.loc(node))
        st.may_raise("KeyError", ("ext", f"{kind}: IR key missing", st.fresh("ext")), ctx.loc(node))
        n = st.fresh("irtext")
        ir = ("sym", n, ("bytesr", 1, 2000))
        cmd = T.seq("s", (("L", "00000000"), ("hx", ir, 0, None)))
        ci = I.prog.cls(f"{REMOTES}:SwitcherBreezeCommand")
        return I.call_user_nested(("class", ci), [cmd], {}, st, ctx, node)

    return stub


def make_interp(prog: Program, summarise_sign: bool = True, extra_stubs: Optional[Dict[str, Any]] = None) -> Interp:
    stubs: Dict[str, Any] = {}
    prog.func(f"{REMOTES}:SwitcherBreezeRemote.build_command")
    prog.func(f"{REMOTES}:SwitcherBreezeRemote.build_swing_command")
    stubs[f"{REMOTES}:SwitcherBreezeRemote.build_command"] = _ir_command_stub("build_command")
    stubs[f"{REMOTES}:SwitcherBreezeRemote.build_swing_command"] = _ir_command_stub("build_swing_command")
    if summarise_sign:
        prog.func(f"{TOOLS}:sign_packet_with_crc_key")
        stubs[f"{TOOLS}:sign_packet_with_crc_key"] = sig_stub
    if extra_stubs:
        stubs.update(extra_stubs)
    return Interp(prog, stubs=stubs)


def api_self(I: Interp, st: State, cls: ClassInfo, connected: bool = True) -> Term:
    fields: Dict[str, Term] = {
        "_ip_address": ("sym", "ip_address", "str"),
        "_device_id": ("sym", "device_id", ("hexw", 6)),
        "_device_key": ("sym", "device_key", ("hexw", 2)),
        "_port": ("sym", "port", "int"),
        "_connected": c(connected),
    }
    cls.require_attrs(list(fields) + ["_reader", "_writer"], "symbolic API instance")
    if connected:
        fields["_reader"] = ("sym", "reader", ("extobj", "StreamReader"))
        fields["_writer"] = ("sym", "writer", ("extobj", "StreamWriter"))
    return st.alloc(HeapObj("obj", cls, fields, [], False, "self", False, () if connected else ("_reader", "_writer")))


def sym_arg(I: Interp, st: State, name: str, typ: Any) -> Term:
    if isinstance(typ, tuple) and typ and typ[0] == "opt":
        raise AnalysisError("optional arguments are expanded by run_operation")
    return I.materialise(("sym", name, typ), st)


def expand_optionals(types: Dict[str, Any]) -> List[Dict[str, Any]]:
    """Each ('opt', t) argument is analysed both as None and as a symbolic t."""
    combos: List[Dict[str, Any]] = [{}]
    for name, typ in types.items():
        new = []
        for cmb in combos:
            if isinstance(typ, tuple) and typ and typ[0] == "opt":
                new.append({**cmb, name: None})
                new.append({**cmb, name: typ[1]})
            else:
                new.append({**cmb, name: typ})
        combos = new
    return combos


def run_operation(prog: Program, op: str, I: Optional[Interp] = None, reply_minlen: Optional[Dict[int, int]] = None, retype: Optional[Dict[str, Any]] = None) -> Tuple[Interp, List[Outcome], FunctionInfo]:
    clsname, types = OPERATIONS[op]
    if retype:
        types = {**types, **retype}      # the same operation with an argument given in another accepted form
    I = I or make_interp(prog)
    ci = prog.cls(f"{API_MOD}:{clsname}")
    fi = ci.find_method(op)
    if fi is None:
        raise AnalysisError(f"anchor vanished: {clsname}.{op}")
    outs: List[Outcome] = []
    for combo in expand_optionals(types):
        st = I.new_state()
        for k_, n_ in (reply_minlen or {}).items():
            st.minlen[("sym", f"reply#{k_}", "bytes")] = n_      # a premise of the calling rule: the k-th reply read has at least n bytes
        selfv = api_self(I, st, ci)
        args: Dict[str, Term] = {fi.params[0]: selfv}
        for name, typ in combo.items():
            if name not in fi.params:
                raise AnalysisError(f"anchor vanished: parameter {name} of {clsname}.{op}")
            args[name] = c(None) if typ is None else sym_arg(I, st, name, typ)
        outs.extend(I.run(fi, args, st))
    return I, outs, fi


def run_operation_by_combo(prog: Program, op: str, I: Optional[Interp] = None) -> Tuple[Interp, List[Tuple[Dict[str, Any], List[Outcome]]], FunctionInfo]:
    """Like run_operation, but keeps the outcomes of each given/omitted combination of optional arguments apart."""
    clsname, types = OPERATIONS[op]
    I = I or make_interp(prog)
    ci = prog.cls(f"{API_MOD}:{clsname}")
    fi = ci.find_method(op)
    if fi is None:
        raise AnalysisError(f"anchor vanished: {clsname}.{op}")
    res = []
    for combo in expand_optionals(types):
        st = I.new_state()
        selfv = api_self(I, st, ci)
        args: Dict[str, Term] = {fi.params[0]: selfv}
        for name, typ in combo.items():
            if name not in fi.params:
                raise AnalysisError(f"anchor vanished: parameter {name} of {clsname}.{op}")
            args[name] = c(None) if typ is None else sym_arg(I, st, name, typ)
        res.append((combo, I.run(fi, args, st)))
    return I, res, fi


# ---------------------------------------------------------------------------
def writes(o: Outcome) -> List[Event]:
    return [e for e in o.state.events if e.kind == "call" and e.target == "writer.write"]


def reads(o: Outcome) -> List[Event]:
    return [e for e in o.state.events if e.kind == "call" and e.target == "reader.read"]


def io_trace(o: Outcome) -> List[Event]:
    return [e for e in o.state.events if e.kind == "call" and e.target.split(".")[0] in ("writer", "reader")]


def excluded_by_assumptions(pc: List[Term]) -> bool:
    """True if the path's guard contradicts A1-A4 (syntactic test on guard atoms)."""
    for g in pc:
        if _contradicts(g):
            return True
    return False


def _contradicts(g: Term) -> bool:
    if not isinstance(g, tuple) or not g:
        return False
    if g[0] == "outofrange":
        v = g[1]
        # A4: the clock fits 32 bits
        if _mentions(v, "time.time") or _mentions(v, "time.mktime"):
            return True
        return False
    if g[0] == "cmp" and g[1] == "<" and isinstance(g[2], tuple) and g[2] and g[2][0] == "len":
        # A1: login reply long enough
        src = g[2][1]
        if isinstance(src, tuple) and src and src[0] == "sym" and str(src[1]).startswith("reply#0") and T.is_c(g[3]) and g[3][1] <= 12:
            return True
    if g[0] == "or":
        return all(_contradicts(x) for x in g[1:])
    return False


def _mentions(v: Any, name: str) -> bool:
    if isinstance(v, tuple):
        if len(v) > 1 and v[0] == "app" and v[1] == name:
            return True
        return any(_mentions(x, name) for x in v)
    if isinstance(v, T.Lin):
        return any(_mentions(t, name) for t in v.coef)
    return False


def sign_summary_premise(prog: Program, rep: Any, claims_signature: bool = False) -> None:
    """The API analyses replace sign_packet_with_crc_key by its summary (p ++ 8 signature nibbles over p, raising on
    bad hex).  That summary is C04's theorem; it is re-derived here on the current tree, and whatever C04 cannot
    discharge is inherited as rule PREMISE-C04: as a violation by the property whose statement includes the signature
    (C01), as "premise not established" (undecided) by the others, whose conclusions merely rest on it."""
    from .props import c04
    from .report import DISCHARGED, Report, UNDECIDED, VIOLATED

    sub = Report("C04", "quick", "proof")
    c04.run(prog, sub, "quick")
    rep.rule("PREMISE-C04", "the signer summary used for every written frame (p ++ LE16(crc(p)) ++ LE16(crc(LE16bytes ++ 0x30*32)), ValueError on bad hex) is derivable on this tree (C04's rules)", 1)
    bad = [o for o in sub.obligations if o.verdict != DISCHARGED]
    if not bad:
        rep.ok("PREMISE-C04", "signer summary", "src/aioswitcher/device/tools.py sign_packet_with_crc_key", f"{len(sub.obligations)} obligations of C04 discharged")
    for o in bad:
        if o.verdict == VIOLATED and claims_signature:
            rep.bad("PREMISE-C04", f"{o.rule} {o.instance}", o.where, f"the frames are signed by a function that violates C04 {o.rule}: {o.why}", key=f"PREMISE-C04|{o.rule}|{o.instance}")
        else:
            rep.undecided("PREMISE-C04", f"{o.rule} {o.instance}", o.where, f"C04 {o.rule} is {'violated' if o.verdict == VIOLATED else 'undecided'} on this tree, so the signer summary this analysis rests on is not established: {o.why}")


def ir_builder_premise(prog: Program, rep: Any) -> None:
    """C16's frames carry whatever remote.build_command / build_swing_command return; that those return the stored code
    best matching the request (clamped temperature, fallback, refusal of unsupported modes) is C15's theorem.  C15's
    rules are re-run on the current tree and what they cannot discharge is inherited as rule PREMISE-C15 - as a
    violation: the command C16 says "encodes the requested value" is built there."""
    from .props import c15
    from .report import DISCHARGED, Report, VIOLATED

    sub = Report("C15", "quick", "other")
    c15.run(prog, sub, "quick")
    rep.rule("PREMISE-C15", "the IR command builder used for every thermostat command returns the stored code that matches the request (C15's rules on this tree)", 1)
    bad = [o for o in sub.obligations if o.verdict != DISCHARGED]
    if not bad:
        rep.ok("PREMISE-C15", "IR command builder", "src/aioswitcher/api/remotes.py SwitcherBreezeRemote.build_command", f"{len(sub.obligations)} obligations of C15 discharged")
    for o in bad[:6]:
        if o.verdict == VIOLATED:
            rep.bad("PREMISE-C15", f"{o.rule} {o.instance}", o.where, f"the thermostat command is built by a function that violates C15 {o.rule}: {o.why}", key=f"PREMISE-C15|{o.rule}|{o.instance}")
        else:
            rep.undecided("PREMISE-C15", f"{o.rule} {o.instance}", o.where, f"C15 {o.rule} is undecided on this tree, so what build_command returns is not established: {o.why}")


def duration_premise(prog: Program, rep: Any) -> None:
    """A listed schedule reports a duration, computed by calc_duration from the two decoded clock texts; that this is
    (end - start) mod 24 h for every pair of times is C14's theorem.  C14's rules are re-run on the current tree and what
    they cannot discharge is inherited as rule PREMISE-C14 (a violation stays a violation: the duration is one of the
    fields C10 says are decoded exactly)."""
    from .props import c14
    from .report import DISCHARGED, Report, VIOLATED

    sub = Report("C14", "quick", "proof")
    c14.run(prog, sub, "quick")
    rep.rule("PREMISE-C14", "the duration every listed schedule reports is calc_duration(start, end) = (end - start) mod 24 h (C14's rules on this tree)", 1)
    bad = [o for o in sub.obligations if o.verdict != DISCHARGED]
    if not bad:
        rep.ok("PREMISE-C14", "schedule duration", "src/aioswitcher/schedule/tools.py calc_duration", f"{len(sub.obligations)} obligations of C14 discharged")
    for o in bad[:6]:
        if o.verdict == VIOLATED:
            rep.bad("PREMISE-C14", f"{o.rule} {o.instance}", o.where, f"the duration of a listed schedule is computed by a function that violates C14 {o.rule}: {o.why}", key=f"PREMISE-C14|{o.rule}|{o.instance}")
        else:
            rep.undecided("PREMISE-C14", f"{o.rule} {o.instance}", o.where, f"C14 {o.rule} is undecided on this tree, so the duration a listed schedule reports is not established: {o.why}")


def gate_premise(prog: Program, rep: Any) -> None:
    """"Each valid broadcast is delivered once - and nothing else is" rests on the gate that decides what a valid
    broadcast is: C06's rules R6.1 / R6.2 are re-run on the current tree and what they do not discharge is inherited as
    rule PREMISE-C06 (a violation stays a violation: a foreign datagram that passes the gate is handed to the callback)."""
    from .props import c06
    from .report import DISCHARGED, Report, VIOLATED

    sub = Report("C06", "quick", "proof")
    rep.rule("PREMISE-C06", "what is delivered is what the gate accepts: the gate is fef0 + one of the three broadcast lengths and rejects silently (C06 R6.1 / R6.2 on this tree)", 1)
    try:
        c06.run(prog, sub, "quick")
    except AnalysisError as exc:
        rep.undecided("PREMISE-C06", "gate", "src/aioswitcher/bridge.py", f"C06's analysis stopped on this tree: {exc}")
        return
    rep.rule("PREMISE-C06", "what is delivered is what the gate accepts: the gate is fef0 + one of the three broadcast lengths and rejects silently (C06 R6.1 / R6.2 on this tree)", 1)
    bad = [o for o in sub.obligations if o.verdict != DISCHARGED and o.rule in ("R6.1", "R6.2")]
    if not bad:
        rep.ok("PREMISE-C06", "gate", "src/aioswitcher/bridge.py DatagramParser.is_switcher_originator", "C06 R6.1 / R6.2 discharged")
    for o in bad[:6]:
        if o.verdict == VIOLATED:
            rep.bad("PREMISE-C06", f"{o.rule} {o.instance}", o.where, f"the gate that decides which datagrams reach the callback violates C06 {o.rule}: {o.why}", key=f"PREMISE-C06|{o.rule}|{o.instance}")
        else:
            rep.undecided("PREMISE-C06", f"{o.rule} {o.instance}", o.where, f"C06 {o.rule} is undecided on this tree, so which datagrams reach the callback is not established: {o.why}")
