"""Program model: loader, symbol tables, constant folder, enum/dataclass tables.

Only `ast` is used.  No module of the analysed repository is imported.
"""
from __future__ import annotations

import ast
import hashlib
import os
from dataclasses import dataclass, field
from typing import Any, Dict, List, Optional, Tuple


def repo_root() -> str:
    return os.environ.get("SA_REPO", "/repo")


PKG_DIR = "src/aioswitcher"
PKG_NAME = "aioswitcher"
SCRIPTS_DIR = "scripts"


class AnalysisError(Exception):
    """The analyser cannot decide (unknown construct, vanished anchor...)."""


class NotConst(Exception):
    pass


@dataclass(frozen=True)
class EnumRef:
    cls: str  # "module:Class"
    member: str

    def __repr__(self) -> str:  # pragma: no cover
        return f"{self.cls.split(':')[1]}.{self.member}"


@dataclass(eq=False)
class FunctionInfo:
    module: "Module"
    qualname: str
    node: ast.AST
    cls: Optional["ClassInfo"]
    is_async: bool

    @property
    def name(self) -> str:
        return self.qualname.split(".")[-1]

    @property
    def key(self) -> str:
        return f"{self.module.name}:{self.qualname}"

    @property
    def params(self) -> List[str]:
        a = self.node.args
        return [x.arg for x in a.posonlyargs + a.args]

    @property
    def decorators(self) -> List[str]:
        out = []
        for d in self.node.decorator_list:
            out.append(ast.unparse(d))
        return out

    def defaults(self) -> Dict[str, ast.AST]:
        a = self.node.args
        names = [x.arg for x in a.posonlyargs + a.args]
        out: Dict[str, ast.AST] = {}
        for n, d in zip(names[len(names) - len(a.defaults):], a.defaults):
            out[n] = d
        for k, d in zip(a.kwonlyargs, a.kw_defaults):
            if d is not None:
                out[k.arg] = d
        return out


@dataclass
class DCField:
    name: str
    annotation: Optional[ast.AST]
    default: Optional[ast.AST]
    init: bool
    initvar: bool
    owner: str


def _fold_local(node: ast.AST, env: Dict[str, Any]) -> Any:
    """Constant evaluation of a small arithmetic expression over named constants."""
    if isinstance(node, ast.Constant):
        return node.value
    if isinstance(node, ast.Name) and node.id in env:
        return env[node.id]
    if isinstance(node, ast.UnaryOp) and isinstance(node.op, ast.USub):
        return -_fold_local(node.operand, env)
    if isinstance(node, ast.BinOp):
        a, b = _fold_local(node.left, env), _fold_local(node.right, env)
        ops = {ast.Add: lambda x, y: x + y, ast.Sub: lambda x, y: x - y, ast.Mult: lambda x, y: x * y, ast.LShift: lambda x, y: x << y,
               ast.RShift: lambda x, y: x >> y, ast.BitOr: lambda x, y: x | y, ast.BitAnd: lambda x, y: x & y, ast.FloorDiv: lambda x, y: x // y,
               ast.Mod: lambda x, y: x % y, ast.Pow: lambda x, y: x ** y}
        if type(node.op) in ops and isinstance(a, int) and isinstance(b, int) and not (isinstance(node.op, (ast.LShift, ast.Pow)) and b > 64):
            return ops[type(node.op)](a, b)
    raise NotConst(f"enum attribute expression {ast.unparse(node)}")


@dataclass
class EnumInfo:
    members: Dict[str, Any]  # name -> folded value (tuple or scalar)
    attrs: Dict[str, Any]  # property name -> tuple index, or "whole"
    resolver: Any = None   # (member, attr) -> value, by interpreting __new__ and the property (set by Program; used when
                           # the attribute is not a plain copy of one constructor argument)

    def attr(self, member: str, attr: str) -> Any:
        if attr not in self.attrs:
            raise KeyError(attr)
        idx = self.attrs[attr]
        v = self.members[member]
        if idx == "whole":
            return v
        if isinstance(idx, tuple) and idx and idx[0] == "expr":
            # attribute computed in __new__ from the member's arguments, e.g. `1 << (weekday + 1)`
            _, node, params = idx
            vals = v if isinstance(v, tuple) else (v,)
            return _fold_local(node, dict(zip(params, vals)))
        if isinstance(idx, tuple):
            if self.resolver is not None:
                return self.resolver(member, attr)
            raise AnalysisError(f"enum attribute {attr} is computed in a way the model does not fold ({idx[0]})")
        return v[idx]


@dataclass(eq=False)
class ClassInfo:
    module: "Module"
    name: str
    node: ast.ClassDef
    base_exprs: List[ast.AST]
    methods: Dict[str, FunctionInfo] = field(default_factory=dict)
    properties: Dict[str, FunctionInfo] = field(default_factory=dict)
    is_dataclass: bool = False
    frozen: bool = False
    own_fields: List[DCField] = field(default_factory=list)
    enum: Optional[EnumInfo] = None
    bases: List["ClassInfo"] = field(default_factory=list)
    ext_bases: List[str] = field(default_factory=list)

    @property
    def key(self) -> str:
        return f"{self.module.name}:{self.name}"

    def mro(self) -> List["ClassInfo"]:
        # C3 linearisation restricted to repository classes
        def merge(seqs: List[List[ClassInfo]]) -> List[ClassInfo]:
            res: List[ClassInfo] = []
            seqs = [list(s) for s in seqs if s]
            while seqs:
                for s in seqs:
                    cand = s[0]
                    if not any(cand in t[1:] for t in seqs):
                        break
                else:
                    raise AnalysisError(f"inconsistent MRO for {self.key}")
                res.append(cand)
                seqs = [[x for x in t if x is not cand] for t in seqs]
                seqs = [t for t in seqs if t]
            return res

        return [self] + merge([b.mro() for b in self.bases] + [list(self.bases)])

    def stored_attrs(self) -> set:
        """Names X for which some method of this class (or a repository base class) stores `self.X`, plus
        dataclass fields and class-level assignments."""
        out: set = set()
        for c in self.mro():
            for f in c.own_fields:
                out.add(f.name)
            for st in c.node.body:
                if isinstance(st, (ast.Assign, ast.AnnAssign)):
                    for t in (st.targets if isinstance(st, ast.Assign) else [st.target]):
                        if isinstance(t, ast.Name):
                            out.add(t.id)
            for fi in list(c.methods.values()) + list(c.properties.values()):
                selfname = fi.params[0] if fi.params else "self"
                for n in ast.walk(fi.node):
                    if isinstance(n, ast.Attribute) and isinstance(n.ctx, ast.Store) and isinstance(n.value, ast.Name) and n.value.id == selfname:
                        out.add(n.attr)
        return out

    def require_attrs(self, names: Any, who: str = "") -> None:
        """The hand-written symbolic instance of this class names its fields as today's source does; if the source
        no longer stores one of them the model no longer describes the class -> anchor vanished (exit 2)."""
        have = self.stored_attrs()
        missing = sorted(n for n in names if n not in have)
        if missing:
            raise AnalysisError(f"anchor vanished: {self.name} no longer stores attribute(s) {missing}{' (' + who + ')' if who else ''}")

    def find_method(self, name: str) -> Optional[FunctionInfo]:
        for c in self.mro():
            if name in c.methods:
                return c.methods[name]
            if name in c.properties:
                return c.properties[name]
        return None

    def find_property(self, name: str) -> Optional[FunctionInfo]:
        for c in self.mro():
            if name in c.properties:
                return c.properties[name]
            if name in c.methods:
                return None
        return None

    def dc_fields(self) -> List[DCField]:
        out: Dict[str, DCField] = {}
        for c in reversed(self.mro()):
            if not c.is_dataclass:
                continue
            for f in c.own_fields:
                if f.name in out:
                    del out[f.name]  # keeps original position in CPython; the
                    # repository never redefines a field, fail closed if it does
                    raise AnalysisError(f"dataclass field {f.name} redefined in {c.key}")
                out[f.name] = f
        return list(out.values())

    def init_params(self) -> List[DCField]:
        return [f for f in self.dc_fields() if f.init]

    def class_level_init(self, attr: str) -> Optional[Tuple["ClassInfo", ast.AST]]:
        """`attr = value` / `attr: T = value` in the body of this class or of a base (not a dataclass field)."""
        for c in self.mro():
            if c.is_dataclass and any(f.name == attr for f in c.own_fields):
                return None
            for st_ in c.node.body:
                if isinstance(st_, ast.Assign) and len(st_.targets) == 1 and isinstance(st_.targets[0], ast.Name) and st_.targets[0].id == attr:
                    return c, st_.value
                if isinstance(st_, ast.AnnAssign) and isinstance(st_.target, ast.Name) and st_.target.id == attr and st_.value is not None:
                    return c, st_.value
        return None

    def is_subclass_of_ext(self, extname: str) -> bool:
        for c in self.mro():
            if extname in c.ext_bases:
                return True
        return False


class Module:
    def __init__(self, prog: "Program", name: str, path: str, is_pkg: bool, in_package: bool):
        self.prog = prog
        self.name = name
        self.path = path
        self.is_pkg = is_pkg
        self.in_package = in_package
        with open(path, "rb") as fh:
            data = fh.read()
        self.sha256 = hashlib.sha256(data).hexdigest()
        self.source = data.decode("utf-8")
        self.tree = ast.parse(self.source, filename=path)
        self.functions: Dict[str, FunctionInfo] = {}
        self.classes: Dict[str, ClassInfo] = {}
        self.constants: Dict[str, ast.AST] = {}
        self.const_nodes: Dict[str, ast.AST] = {}
        self.imports: Dict[str, Tuple[str, Optional[str]]] = {}
        self._index()

    @property
    def relpath(self) -> str:
        return os.path.relpath(self.path, self.prog.root)

    # ------------------------------------------------------------------
    def _abs_module(self, level: int, mod: Optional[str]) -> str:
        if level == 0:
            return mod or ""
        parts = self.name.split(".")
        if not self.is_pkg:
            parts = parts[:-1]
        if level > 1:
            parts = parts[: len(parts) - (level - 1)]
        base = ".".join(parts)
        if mod:
            return base + "." + mod if base else mod
        return base

    def _index(self) -> None:
        for node in self.tree.body:
            self._index_stmt(node)

    def _index_stmt(self, node: ast.AST) -> None:
        if isinstance(node, ast.Import):
            for a in node.names:
                local = a.asname or a.name.split(".")[0]
                self.imports[local] = (a.name if a.asname else a.name.split(".")[0], None)
        elif isinstance(node, ast.ImportFrom):
            base = self._abs_module(node.level, node.module)
            for a in node.names:
                self.imports[a.asname or a.name] = (base, a.name)
        elif isinstance(node, (ast.FunctionDef, ast.AsyncFunctionDef)):
            self.functions[node.name] = FunctionInfo(
                self, node.name, node, None, isinstance(node, ast.AsyncFunctionDef)
            )
        elif isinstance(node, ast.ClassDef):
            self._index_class(node)
        elif isinstance(node, ast.Assign):
            if len(node.targets) == 1 and isinstance(node.targets[0], ast.Name):
                self.constants[node.targets[0].id] = node.value
                self.const_nodes[node.targets[0].id] = node
            elif len(node.targets) == 1 and isinstance(node.targets[0], ast.Tuple) and all(isinstance(t, ast.Name) for t in node.targets[0].elts):
                # `A, B, C = <iterable>`: each name is the i-th item of it (element-wise when the right side is a display too)
                names = [t.id for t in node.targets[0].elts]  # type: ignore[attr-defined]
                val = node.value
                for i, nm in enumerate(names):
                    if isinstance(val, (ast.Tuple, ast.List)) and len(val.elts) == len(names) and not any(isinstance(e, ast.Starred) for e in val.elts):
                        item: ast.expr = val.elts[i]
                    else:
                        item = ast.Subscript(value=ast.Call(func=ast.Name(id="tuple", ctx=ast.Load()), args=[val], keywords=[]), slice=ast.Constant(value=i), ctx=ast.Load())
                        ast.copy_location(item, node)
                        ast.fix_missing_locations(item)
                    self.constants[nm] = item
                    self.const_nodes[nm] = node
        elif isinstance(node, ast.AnnAssign):
            if isinstance(node.target, ast.Name) and node.value is not None:
                self.constants[node.target.id] = node.value
                self.const_nodes[node.target.id] = node
        elif isinstance(node, (ast.If, ast.Try)):
            # module-level conditionals (e.g. `if __name__ == "__main__"`)
            for sub in ast.iter_child_nodes(node):
                if isinstance(sub, ast.stmt):
                    self._index_stmt(sub)

    def _index_class(self, node: ast.ClassDef) -> None:
        ci = ClassInfo(self, node.name, node, list(node.bases))
        for d in node.decorator_list:
            txt = ast.unparse(d)
            if txt.split("(")[0].split(".")[-1] == "dataclass":
                ci.is_dataclass = True
                if isinstance(d, ast.Call):
                    for kw in d.keywords:
                        if kw.arg == "frozen" and isinstance(kw.value, ast.Constant):
                            ci.frozen = bool(kw.value.value)
        for st in node.body:
            if isinstance(st, (ast.FunctionDef, ast.AsyncFunctionDef)):
                fi = FunctionInfo(
                    self, f"{node.name}.{st.name}", st, ci, isinstance(st, ast.AsyncFunctionDef)
                )
                decs = [ast.unparse(d) for d in st.decorator_list]
                if "property" in decs:
                    ci.properties[st.name] = fi
                elif any(d.endswith(".setter") for d in decs):
                    ci.methods[st.name + ".setter"] = fi
                else:
                    ci.methods[st.name] = fi
            elif isinstance(st, ast.AnnAssign) and isinstance(st.target, ast.Name):
                ann = ast.unparse(st.annotation)
                initvar = ann.startswith("InitVar")
                init = True
                default = st.value
                if isinstance(st.value, ast.Call) and ast.unparse(st.value.func).split(".")[-1] == "field":
                    default = None
                    for kw in st.value.keywords:
                        if kw.arg == "init" and isinstance(kw.value, ast.Constant):
                            init = bool(kw.value.value)
                        if kw.arg in ("default", "default_factory"):
                            default = kw.value
                if not ann.startswith("ClassVar"):
                    ci.own_fields.append(
                        DCField(st.target.id, st.annotation, default, init, initvar, node.name)
                    )
        self.classes[node.name] = ci

    def all_functions(self) -> List[FunctionInfo]:
        out = list(self.functions.values())
        for c in self.classes.values():
            out.extend(c.methods.values())
            out.extend(c.properties.values())
        return out


class Program:
    """All parsed modules of the package (and, separately, scripts/)."""

    def __init__(self, root: Optional[str] = None):
        self.root = root or repo_root()
        self.modules: Dict[str, Module] = {}
        self.scripts: Dict[str, Module] = {}
        pkg = os.path.join(self.root, PKG_DIR)
        if not os.path.isdir(pkg):
            raise AnalysisError(f"package directory {pkg} not found")
        for dirpath, dirnames, filenames in os.walk(pkg):
            dirnames[:] = sorted(d for d in dirnames if d != "__pycache__")
            for fn in sorted(filenames):
                if not fn.endswith(".py"):
                    continue
                full = os.path.join(dirpath, fn)
                rel = os.path.relpath(full, pkg)[:-3].split(os.sep)
                is_pkg = rel[-1] == "__init__"
                if is_pkg:
                    rel = rel[:-1]
                name = ".".join([PKG_NAME] + rel)
                self.modules[name] = Module(self, name, full, is_pkg, True)
        sdir = os.path.join(self.root, SCRIPTS_DIR)
        if os.path.isdir(sdir):
            for fn in sorted(os.listdir(sdir)):
                if fn.endswith(".py"):
                    self.scripts["scripts." + fn[:-3]] = Module(
                        self, "scripts." + fn[:-3], os.path.join(sdir, fn), False, False
                    )
        self._link_classes()
        self._build_enums()
        self._fold_cache: Dict[Tuple[str, str], Any] = {}

    # ------------------------------------------------------------------
    def all_modules(self, with_scripts: bool = False) -> List[Module]:
        out = list(self.modules.values())
        if with_scripts:
            out += list(self.scripts.values())
        return out

    def digests(self) -> Dict[str, str]:
        return {m.relpath: m.sha256 for m in self.all_modules(True)}

    def module(self, name: str) -> Module:
        if name not in self.modules:
            raise AnalysisError(f"anchor vanished: module {name}")
        return self.modules[name]

    def func(self, key: str) -> FunctionInfo:
        modname, qual = key.split(":")
        m = self.module(modname)
        parts = qual.split(".")
        if len(parts) == 1:
            if qual not in m.functions:
                raise AnalysisError(f"anchor vanished: function {key}")
            return m.functions[qual]
        cls = m.classes.get(parts[0])
        if cls is None:
            raise AnalysisError(f"anchor vanished: class {modname}:{parts[0]}")
        f = cls.methods.get(parts[1]) or cls.properties.get(parts[1])
        if f is None:
            raise AnalysisError(f"anchor vanished: method {key}")
        return f

    def cls(self, key: str) -> ClassInfo:
        modname, name = key.split(":")
        m = self.module(modname)
        if name not in m.classes:
            raise AnalysisError(f"anchor vanished: class {key}")
        return m.classes[name]

    # ------------------------------------------------------------------
    # name resolution
    def resolve_name(self, mod: Module, name: str, _depth: int = 0) -> Optional[tuple]:
        """Resolve a module-scope name to a tagged reference."""
        if _depth > 10:
            return None
        if name in mod.functions:
            return ("func", mod.functions[name])
        if name in mod.classes:
            return ("class", mod.classes[name])
        if name in mod.constants:
            return ("const", mod, name)
        if name in mod.imports:
            base, attr = mod.imports[name]
            if attr is None:
                if base in self.modules:
                    return ("module", self.modules[base])
                return ("extmod", base)
            if base in self.modules or base.startswith(PKG_NAME):
                sub = f"{base}.{attr}"
                if sub in self.modules:
                    return ("module", self.modules[sub])
                if base in self.modules:
                    return self.resolve_name(self.modules[base], attr, _depth + 1)
                return None
            return ("ext", f"{base}.{attr}")
        return None

    def resolve_expr(self, mod: Module, node: ast.AST) -> Optional[tuple]:
        """Resolve Name / dotted Attribute at module scope."""
        if isinstance(node, ast.Name):
            return self.resolve_name(mod, node.id)
        if isinstance(node, ast.Attribute):
            base = self.resolve_expr(mod, node.value)
            if base is None:
                return None
            if base[0] == "module":
                return self.resolve_name(base[1], node.attr)
            if base[0] == "extmod":
                return ("ext", f"{base[1]}.{node.attr}")
            if base[0] == "ext":
                return ("ext", f"{base[1]}.{node.attr}")
            if base[0] == "class":
                ci: ClassInfo = base[1]
                if ci.enum is not None and node.attr in ci.enum.members:
                    return ("enum", EnumRef(ci.key, node.attr))
                m = ci.find_method(node.attr)
                if m is not None:
                    return ("func", m)
            return None
        return None

    # ------------------------------------------------------------------
    def _link_classes(self) -> None:
        for m in self.all_modules(True):
            for ci in m.classes.values():
                for b in ci.base_exprs:
                    r = self.resolve_expr(m, b)
                    if r and r[0] == "class":
                        ci.bases.append(r[1])
                    elif r and r[0] == "ext":
                        ci.ext_bases.append(r[1])
                    else:
                        ci.ext_bases.append(ast.unparse(b))

    def _build_enums(self) -> None:
        # two passes so that enum values referring to other enums fold
        pending = []
        for m in self.all_modules(True):
            for ci in m.classes.values():
                if any(ci.is_subclass_of_ext(b_) for b_ in ("enum.Enum", "enum.IntEnum", "enum.StrEnum", "enum.Flag", "enum.IntFlag")):
                    pending.append(ci)
        for _ in range(3):
            for ci in pending:
                try:
                    ci.enum = self._enum_info(ci)
                except NotConst:
                    ci.enum = ci.enum
        for ci in pending:
            if ci.enum is None:
                raise AnalysisError(f"cannot fold enum {ci.key}")
            ci.enum.resolver = (lambda member, attr, _ci=ci: self._enum_attr_by_interpretation(_ci, member, attr))

    def _enum_info(self, ci: ClassInfo) -> EnumInfo:
        members: Dict[str, Any] = {}
        prop_alias: Dict[str, Optional[str]] = {}
        auto_n = 0
        for st in ci.node.body:
            if isinstance(st, ast.Assign) and len(st.targets) == 1 and isinstance(st.targets[0], ast.Name):
                nm = st.targets[0].id
                if nm.startswith("_"):
                    continue
                if isinstance(st.value, ast.Call) and ast.unparse(st.value.func).split(".")[-1] == "auto":
                    auto_n += 1
                    members[nm] = auto_n
                elif isinstance(st.value, ast.Call) and isinstance(st.value.func, ast.Name) and st.value.func.id == "property" and self.resolve_name(ci.module, "property") is None:
                    # a descriptor in an enum body is not a member: `name = property(attrgetter("_x"))` is the read-only
                    # accessor `@property def name(self): return self._x`
                    g = st.value.args[0] if st.value.args else next((k.value for k in st.value.keywords if k.arg == "fget"), None)
                    r = self.resolve_expr(ci.module, g.func) if isinstance(g, ast.Call) else None
                    if (r == ("ext", "operator.attrgetter") and len(g.args) == 1 and not g.keywords and isinstance(g.args[0], ast.Constant)  # type: ignore[union-attr]
                            and isinstance(g.args[0].value, str) and g.args[0].value.isidentifier()):  # type: ignore[union-attr]
                        prop_alias[nm] = g.args[0].value  # type: ignore[union-attr]
                    else:
                        prop_alias[nm] = None
                else:
                    members[nm] = self.fold(ci.module, st.value)
        attrs: Dict[str, Any] = {}
        new = ci.find_method("__new__")         # (own or inherited from a member-less base enum)
        init_idiom = False
        init_m = ci.find_method("__init__")
        if new is None and init_m is not None and len(init_m.params) > 1:
            # the documented alternative: the enum machinery creates the member (its _value_ is the whole tuple) and
            # calls __init__(self, *items): attributes set there are read the same way as those set in __new__
            new = init_m
            init_idiom = True
        if new is None:
            attrs["value"] = "whole"
            attrs["_value_"] = "whole"
        else:
            params = new.params[1:]
            slot: Dict[str, int] = {}
            computed: Dict[str, Any] = {}
            for st in ast.walk(new.node):
                if (isinstance(st, ast.Assign) and len(st.targets) == 1 and isinstance(st.targets[0], ast.Tuple) and isinstance(st.value, ast.Tuple)
                        and len(st.targets[0].elts) == len(st.value.elts)):
                    # a, b = x, y  sets each attribute from the value at the same position
                    for t, v in zip(st.targets[0].elts, st.value.elts):
                        if isinstance(t, ast.Attribute) and isinstance(v, ast.Name) and v.id in params:
                            slot[t.attr] = params.index(v.id)
                        elif isinstance(t, ast.Attribute) and isinstance(v, (ast.BinOp, ast.UnaryOp, ast.Constant)) and all(
                                (not isinstance(n, ast.Name)) or n.id in params for n in ast.walk(v)) and not any(isinstance(n, (ast.Call, ast.Attribute, ast.Subscript)) for n in ast.walk(v)):
                            computed[t.attr] = ("expr", v, tuple(params))
                    continue
                if isinstance(st, ast.Assign) and all(isinstance(t, ast.Attribute) for t in st.targets):
                    if isinstance(st.value, ast.Name) and st.value.id in params:
                        for t in st.targets:
                            slot[t.attr] = params.index(st.value.id)
                    elif isinstance(st.value, (ast.BinOp, ast.UnaryOp, ast.Constant)) and all(
                            (not isinstance(n, ast.Name)) or n.id in params for n in ast.walk(st.value)) and not any(isinstance(n, (ast.Call, ast.Attribute, ast.Subscript)) for n in ast.walk(st.value)):
                        for t in st.targets:
                            computed[t.attr] = ("expr", st.value, tuple(params))
            for k, v in computed.items():
                attrs[k] = v
            for k, v in slot.items():
                attrs[k] = v
            if "_value_" in slot:
                attrs["value"] = slot["_value_"]
            else:
                # Enum machinery: without _value_ the value is the whole tuple
                attrs["value"] = "whole"
            if init_idiom and "_value_" not in slot:
                attrs["_value_"] = "whole"
        props_all: Dict[str, Any] = {}
        for k_ in reversed(ci.mro()):
            props_all.update(k_.properties)
        for pname, pf in props_all.items():
            body = [s for s in pf.node.body if not (isinstance(s, ast.Expr) and isinstance(s.value, ast.Constant))]
            if (
                len(body) == 1
                and isinstance(body[0], ast.Return)
                and isinstance(body[0].value, ast.Attribute)
                and isinstance(body[0].value.value, ast.Name)
                and body[0].value.value.id == "self"
                and body[0].value.attr in attrs
            ):
                attrs[pname] = attrs[body[0].value.attr]
            else:
                attrs[pname] = ("opaque", pname)
        for pname, src in prop_alias.items():
            attrs[pname] = attrs[src] if src is not None and src in attrs else ("opaque", pname)
        return EnumInfo(members, attrs)

    def _enum_attr_by_interpretation(self, ci: "ClassInfo", member: str, attr: str) -> Any:
        """Value of a member attribute that is not a plain copy of a constructor argument: the member is built by
        interpreting the enum's __new__ / __init__ on the member's arguments and the property is interpreted on it."""
        memo = self.__dict__.setdefault("_enum_interp_memo", {})
        k = (ci.key, member, attr)
        if k not in memo:
            from .interp import Interp
            I = self.__dict__.get("_enum_interp")
            if I is None:
                I = self.__dict__["_enum_interp"] = Interp(self)
            memo[k] = I.enum_member_attr(ci, member, attr)
        if isinstance(memo[k], AnalysisError):
            raise memo[k]
        return memo[k]

    # ------------------------------------------------------------------
    # constant folder (module-level constant expressions only)
    def fold(self, mod: Module, node: ast.AST, _depth: int = 0) -> Any:
        if _depth > 50:
            raise NotConst("depth")
        f = lambda n: self.fold(mod, n, _depth + 1)  # noqa: E731
        if isinstance(node, ast.Constant):
            return node.value
        if isinstance(node, ast.Tuple):
            return tuple(f(e) for e in node.elts)
        if isinstance(node, ast.List):
            return [f(e) for e in node.elts]
        if isinstance(node, ast.Set):
            return frozenset(f(e) for e in node.elts)
        if isinstance(node, ast.Dict):
            out = {}
            for k, v in zip(node.keys, node.values):
                if k is None:
                    raise NotConst("dict unpack")
                out[f(k)] = f(v)
            return out
        if isinstance(node, ast.JoinedStr):
            parts = []
            for v in node.values:
                if isinstance(v, ast.Constant):
                    parts.append(str(v.value))
                elif isinstance(v, ast.FormattedValue) and v.format_spec is None and v.conversion == -1:
                    val = f(v.value)
                    if not isinstance(val, (str, int)):
                        raise NotConst("fstring")
                    parts.append(str(val))
                else:
                    raise NotConst("fstring")
            return "".join(parts)
        if isinstance(node, ast.BinOp):
            l, r = f(node.left), f(node.right)
            try:
                if isinstance(node.op, ast.Add):
                    return l + r
                if isinstance(node.op, ast.Mult):
                    return l * r
                if isinstance(node.op, ast.Sub):
                    return l - r
                if isinstance(node.op, ast.Mod) and isinstance(l, int):
                    return l % r
                if isinstance(node.op, ast.FloorDiv):
                    return l // r
                if isinstance(node.op, ast.LShift):
                    return l << r
                if isinstance(node.op, ast.BitOr):
                    return l | r
            except Exception as exc:  # noqa: BLE001
                raise NotConst(str(exc))
            raise NotConst("binop")
        if isinstance(node, ast.UnaryOp) and isinstance(node.op, ast.USub):
            return -f(node.operand)
        if isinstance(node, ast.Subscript):
            base = f(node.value)
            if isinstance(node.slice, ast.Slice):
                lo = f(node.slice.lower) if node.slice.lower else None
                hi = f(node.slice.upper) if node.slice.upper else None
                st = f(node.slice.step) if node.slice.step else None
                return base[lo:hi:st]
            idx = f(node.slice)
            try:
                return base[idx]
            except Exception as exc:  # noqa: BLE001
                raise NotConst(str(exc))
        if isinstance(node, (ast.Name, ast.Attribute)):
            r = self.resolve_expr(mod, node)
            if r is None:
                raise NotConst(ast.unparse(node))
            if r[0] == "const":
                key = (r[1].name, r[2])
                if key in self._fold_cache_get():
                    return self._fold_cache[key]
                val = self.fold(r[1], r[1].constants[r[2]], _depth + 1)
                self._fold_cache[key] = val
                return val
            if r[0] == "enum":
                return r[1]
            raise NotConst(ast.unparse(node))
        if isinstance(node, ast.Call):
            fn = ast.unparse(node.func)
            if fn == "str" and len(node.args) == 1:
                return str(f(node.args[0]))
            if fn == "int" and 1 <= len(node.args) <= 2:
                try:
                    return int(*[f(a) for a in node.args])
                except Exception as exc:  # noqa: BLE001
                    raise NotConst(str(exc))
            if isinstance(node.func, ast.Attribute) and node.func.attr == "format" and not node.keywords:
                base = f(node.func.value)
                if isinstance(base, str):
                    try:
                        return base.format(*[f(a) for a in node.args])
                    except Exception as exc:  # noqa: BLE001
                        raise NotConst(str(exc))
            if isinstance(node.func, ast.Attribute) and node.func.attr == "join" and len(node.args) == 1:
                base = f(node.func.value)
                seq = f(node.args[0])
                if isinstance(base, str) and isinstance(seq, (list, tuple)):
                    return base.join(seq)
            raise NotConst(fn)
        raise NotConst(type(node).__name__)

    def _fold_cache_get(self) -> Dict[Tuple[str, str], Any]:
        if not hasattr(self, "_fold_cache"):
            self._fold_cache = {}
        return self._fold_cache

    def const(self, key: str) -> Any:
        """Folded value of `module:NAME`; AnalysisError if vanished/not constant."""
        modname, name = key.split(":")
        m = self.module(modname)
        if name not in m.constants:
            raise AnalysisError(f"anchor vanished: constant {key}")
        try:
            return self.fold(m, m.constants[name])
        except NotConst as exc:
            # a table derived from other constants (comprehension, sorted(...), ...): interpret the initialiser
            from .interp import Interp, unlift

            I = self.__dict__.setdefault("_const_interp", None) or Interp(self)
            self.__dict__["_const_interp"] = I
            v = I.module_const_value(m, name)
            if v is not None:
                try:
                    return unlift(v)
                except ValueError:
                    pass
            raise AnalysisError(f"constant {key} does not fold: {exc}")

    def enum_of(self, ref: EnumRef) -> EnumInfo:
        ci = self.cls(ref.cls)
        assert ci.enum is not None
        return ci.enum

    def enum_attr(self, ref: EnumRef, attr: str) -> Any:
        return self.enum_of(ref).attr(ref.member, attr)


def loc(fi_or_mod: Any, node: ast.AST) -> str:
    mod = fi_or_mod.module if isinstance(fi_or_mod, (FunctionInfo, ClassInfo)) else fi_or_mod
    return f"{mod.relpath}:{getattr(node, 'lineno', 0)}"


def norm_stmt(node: ast.AST) -> str:
    """Normalised text of a statement/expression (formatting-independent)."""
    return ast.unparse(node)


def stmt_digest(node: ast.AST) -> str:
    return hashlib.sha256(norm_stmt(node).encode()).hexdigest()[:12]
