"""Shared set-up for analysing api/remotes.py (C15, C16)."""
from __future__ import annotations

from typing import Any, Dict, List, Optional, Tuple

from . import terms as T
from .interp import Ctx, Event, HeapObj, Interp, Outcome, State
from .model import AnalysisError, EnumRef, Program
from .terms import Term, c

REMOTES = "aioswitcher.api.remotes"
DEV = "aioswitcher.device"


def remote_self(I: Interp, st: State, prog: Program, on_off_type: Optional[bool] = None) -> Term:
    ci = prog.cls(f"{REMOTES}:SwitcherBreezeRemote")
    wave = st.alloc(HeapObj("dict", None, {}, [], True, "self._ir_wave_map", False))
    feats = st.alloc(HeapObj("dict", None, {}, [], True, "self._modes_features", False))
    ci.require_attrs(["_min_temp", "_max_temp", "_on_off_type", "_remote_id", "_ir_wave_map", "_modes_features", "_separated_swing_command"], "symbolic remote")
    return st.alloc(HeapObj("obj", ci, {
        "_min_temp": ("sym", "min_temp", "int"),
        "_max_temp": ("sym", "max_temp", "int"),
        "_on_off_type": ("sym", "on_off_type", "bool") if on_off_type is None else c(on_off_type),
        "_remote_id": ("sym", "remote_id", "str"),
        "_ir_wave_map": wave,
        "_modes_features": feats,
        "_separated_swing_command": ("sym", "separated_swing", "bool"),
    }, [], False, "self", False))


def member(prog: Program, enum: str, name: str) -> Term:
    return ("enum", EnumRef(prog.cls(f"{DEV}:{enum}").key, name))


def run_build_command(prog: Program, state: str, mode: str, swing: str, on_off_type: bool, current_state: Optional[str]) -> Tuple[Interp, List[Outcome], Any]:
    ci = prog.cls(f"{REMOTES}:SwitcherBreezeRemote")
    fi = ci.find_method("build_command")
    if fi is None:
        raise AnalysisError("anchor vanished: SwitcherBreezeRemote.build_command")
    I = Interp(prog, max_paths=20000)
    st = I.new_state()
    selfv = remote_self(I, st, prog, on_off_type)
    args = {
        fi.params[0]: selfv,
        "state": member(prog, "DeviceState", state),
        "mode": member(prog, "ThermostatMode", mode),
        "target_temp": ("sym", "target_temp", "int"),
        "fan_level": ("sym", "fan_level", ("enum", f"{DEV}:ThermostatFanLevel")),
        "swing": member(prog, "ThermostatSwing", swing),
        "current_state": c(None) if current_state is None else member(prog, "DeviceState", current_state),
    }
    for p in fi.params[1:]:
        if p not in args:
            raise AnalysisError(f"anchor changed: unexpected parameter {p} of build_command")
    return I, I.run(fi, args, st), fi
