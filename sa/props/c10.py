"""C10 - listed schedules decode exactly; a created schedule reads back unchanged (writer/reader agreement)."""
from __future__ import annotations

from typing import Any, Dict, List, Optional, Set, Tuple

from .. import api_model as A
from .. import frames as F
from .. import terms as T
from ..interp import Ctx, HeapObj, Interp, Outcome, conj, ite
from ..model import AnalysisError, Program, loc
from ..report import Report
from ..terms import c
from .c02 import load_spec as load_wire
from .c05 import canon

LEVEL = "translation_validation"
PARSER = "aioswitcher.schedule.parser"
TOOLS = "aioswitcher.schedule.tools"
M = ("sym", "message", "bytes")

RECORD = {"id": (0, 2), "enabled": (2, 4), "days": (4, 6), "state": (6, 8), "start": (8, 16), "end": (16, 24)}  # nibble ranges in a record
FIRST_RECORD_NIBBLE = 90  # byte 45
RECORD_NIBBLES = 32       # 16 bytes
TRAILER_NIBBLES = 8       # 4 bytes


def strip_known(v):
    """The stubbed tool calls are expected opaque applications, not imprecision."""
    return v


def opaque(name: str):
    def f(I: Interp, args: List[T.Term], kw: Dict[str, T.Term], st: Any, ctx: Ctx, node: Any) -> T.Term:
        return ("app", name) + tuple(args)
    return f


def le32(b: int, lo: int) -> T.Term:
    return ("uint", tuple(("hx", M, b + lo + 2 * i, b + lo + 2 * i + 2) for i in reversed(range(4))))


def local_hhmm(x: T.Term) -> T.Term:
    return ("seq", "s", (("txt", ("app", "time.strftime", c("%H:%M"), ("app", "time.localtime", x))),))


def expected_fields(b: int, emptyset: T.Term) -> Dict[str, T.Term]:
    daybyte = T.seq("s", (("hx", M, b + 4, b + 6),))
    zero = T.seq("s", (("L", "00"),))
    start = local_hhmm(le32(b, 8))
    end = local_hhmm(le32(b, 16))
    days = ite(("cmp", "==", daybyte, zero), emptyset, ("app", "bit_summary_to_days", ("uint", (("hx", M, b + 4, b + 6),))))
    return {
        "schedule_id": T.seq("s", (("fmt", "d", ("uint", (("hx", M, b, b + 2),))),)),
        "recurring": ("cmp", "!=", daybyte, zero),
        "days": days,
        "start_time": start,
        "end_time": end,
        "duration": ("app", "calc_duration", start, end),
        "display": ("app", "pretty_next_run", start, days),
    }


def run(prog: Program, rep: Report, tier: str) -> None:
    rep.rule("R10.1", "record slicing: records are the 16-byte chunks of reply bytes 45..len-4; an empty reply yields an empty set without raising", 3)
    rep.rule("R10.2", "record getters and SwitcherSchedule wiring: id=decimal rec[0], recurring <=> rec[2] != 0, days=bit_summary_to_days(rec[2]) or {} , start/end = local HH:MM of LE32 rec[4:8]/rec[8:12], duration=calc_duration(start,end), display=pretty_next_run(start,days)", 14)
    rep.rule("R10.3", "schedule identity is the slot id: __hash__ and __eq__ depend on schedule_id only", 2)
    rep.rule("R10.5", "nothing on the listing path is memoised (the local-time decoder depends on the host zone; parsed schedules must reflect the reply just read)", 3, structural=True)
    rep.rule("R10.4", "writer/reader agreement: the record create_schedule emits has days/start/end at the offsets and widths the reader uses, the same byte order, mktime<->localtime (both local), '%H:%M' on both sides, the non-recurring constant the reader tests against, and an empty day collection is written as that constant (not refused)", 7)
    from ..api_model import duration_premise
    duration_premise(prog, rep)
    rep.rule("R10.6", "the day set of a listed schedule stays what was decoded: pretty_next_run, which SwitcherSchedule.__post_init__ hands its own `days` set, does not change that collection in place "
                      "(shares its sweep with C13 R13.7)", 0, structural=True)
    from .c13 import argument_mutation_rule
    argument_mutation_rule(prog, rep, f"{TOOLS}:pretty_next_run", 1, "R10.6")
    rep.trusted += [
        "textwrap.wrap on whitespace-free text yields consecutive chunks of the given width ('' -> [])",
        "time.mktime / time.localtime are inverse on existing local times (libc; the zone/DST behaviour itself is not decided, see C11)",
        "weekday mask encode/decode are inverse (C12)",
    ]
    stubs = {f"{TOOLS}:bit_summary_to_days": opaque("bit_summary_to_days"), f"{TOOLS}:calc_duration": opaque("calc_duration"), f"{TOOLS}:pretty_next_run": opaque("pretty_next_run")}
    for k in stubs:
        prog.func(k)
    fi = prog.func(f"{PARSER}:get_schedules")
    where = f"{loc(fi, fi.node)} {fi.qualname}"
    I = Interp(prog, stubs=stubs)
    st = I.new_state()
    st.minlen[M] = 4000
    outs = I.run(fi, {fi.params[0]: M}, st)
    rep.analysed["functions"] = sorted(I.functions_visited)
    rep.analysed["paths"] = len(outs)
    rets = [o for o in outs if o.kind == "return"]
    # R10.1
    chunk_terms = set()
    for o in outs:
        for g in o.state.pc:
            if isinstance(g, tuple) and g and g[0] == "itercount":
                chunk_terms.add(g[1])
    want_chunks = ("chunks", T.seq("s", (("hx", M, FIRST_RECORD_NIBBLE, -TRAILER_NIBBLES),)), RECORD_NIBBLES)
    # the same records written as area[off:off + 32] for off in range(0, len(area), 32); the slices themselves are
    # pinned by R10.2 (absolute nibble positions of the fields of records 0 and 1)
    from .. import lib as _lib
    area_len = _lib.length(I, want_chunks[1], st, None, None)
    want_range = ("app", "builtins.range", c(0), area_len, c(RECORD_NIBBLES))
    # the same chunks cut from the hex digits as a byte string (a reader over hexlify(reply)[90:-8] without .decode())
    want_chunks_b = ("chunks", T.seq("b", want_chunks[1][2]), RECORD_NIBBLES)
    if not chunk_terms:
        rep.undecided("R10.1", "record area and size", where, "no iteration over the records was found on any path (the loop is not where this rule looks, or the analysis did not reach it)")
    else:
      rep.check(chunk_terms in ({want_chunks}, {want_range}, {want_chunks_b}), "R10.1", "record area and size", where,
              f"records are iterated as {[T.show(x)[:120] for x in chunk_terms]}; expected 32-nibble chunks of hexlify(reply)[90:-8] (16-byte records from byte 45, 4-byte trailer)", key="R10.1|slicing")
    empties = [o for o in rets if any(isinstance(g, tuple) and g[0] == "itercount" and g[2] == 0 for g in o.state.pc)]
    ok_empty = len(empties) == 1 and empties[0].value[0] == "obj" and empties[0].state.heap[empties[0].value[1]].kind == "set" and not empties[0].state.heap[empties[0].value[1]].items and len(empties[0].state.pc) == 1
    if not chunk_terms:
        rep.undecided("R10.1", "no records => empty set", where, "no path with a decided record count was explored")
    else:
      rep.check(ok_empty, "R10.1", "no records => empty set", where, "the zero-record path does not return an empty set unconditionally (something may raise or be added first)", key="R10.1|empty")
    rep.check(all(o.exc_name in ("ValueError", "OverflowError", "UnicodeDecodeError") for o in outs if o.kind == "raise"), "R10.1", "only decode errors raise", where,
              f"listing can raise {sorted({o.exc_name for o in outs if o.kind == 'raise'})}", key="R10.1|raise")
    # R10.2
    two = [o for o in rets if o.value[0] == "obj" and len(o.state.heap[o.value[1]].items) == 2]
    if not two:
        rep.undecided("R10.2", "two-record path", where, "no path with two records was explored")
    else:
        o = two[0]
        items = o.state.heap[o.value[1]].items
        for k, it in enumerate(items):
            ho = o.state.heap[it[1]]
            cls_ok = ho.cls is not None and ho.cls.name == "SwitcherSchedule"
            b = FIRST_RECORD_NIBBLE + RECORD_NIBBLES * k
            emptyset = None
            d = ho.fields.get("days")
            if isinstance(d, tuple) and d and d[0] == "ite":
                for br in (d[2], d[3]):
                    if br[0] == "obj" and o.state.heap[br[1]].kind == "set" and not o.state.heap[br[1]].items:
                        emptyset = br
            exp = expected_fields(b, emptyset or ("obj", -1))
            for fname, want in exp.items():
                got = ho.fields.get(fname)
                if got is None or not cls_ok:
                    rep.bad("R10.2", f"record {k}: {fname}", where, f"field {fname} missing / wrong class", key=f"R10.2|{fname}")
                    continue
                if T.contains_top(got):
                    rep.undecided("R10.2", f"record {k}: {fname}", where, f"not understood: {T.contains_top(got)}")
                    continue
                rep.check_term(canon(got) == canon(want), strip_known(got), "R10.2", f"record {k}: {fname}", where,
                          f"{fname} of record {k} is {T.show(got)[:240]}; expected {T.show(want)[:240]}", key=f"R10.2|{fname}")
        rep.sample({"record0": {k_: T.show(v)[:160] for k_, v in o.state.heap[items[0][1]].fields.items()}})
    listing_keys = [f"{PARSER}:get_schedules", f"{TOOLS}:hexadecimale_timestamp_to_localtime", f"{TOOLS}:bit_summary_to_days", f"{PARSER}:ScheduleParser.get_start_time", f"{PARSER}:ScheduleParser.get_end_time"]
    listing_keys += [k_ for k_ in sorted(I.functions_visited) if k_ not in listing_keys]   # everything the listing actually runs through
    for key in listing_keys:
        f_ = prog.func(key)
        decos = [d for d in f_.decorators if any(x in d.split("(")[0].split(".")[-1] for x in ("cache", "lru_cache", "cached_property", "memoize"))]
        rep.check(not decos, "R10.5", f"{f_.qualname} not memoised", f"{loc(f_, f_.node)} {f_.qualname}", f"{f_.qualname} is decorated with {decos}: a listing parsed after the host zone changed (or another reply with the same bytes) returns stale values", key=f"R10.5|{f_.qualname}")
    # R10.3
    sci = prog.cls(f"{PARSER}:SwitcherSchedule")
    for meth in ("__hash__", "__eq__"):
        mf = sci.find_method(meth)
        wherem = f"{loc(sci, sci.node)} SwitcherSchedule.{meth}"
        if mf is None:
            rep.bad("R10.3", meth, wherem, f"SwitcherSchedule.{meth} is not defined: identity would not be the slot id", key=f"R10.3|{meth}")
            continue
        I2 = Interp(prog)
        st2 = I2.new_state()
        sci.require_attrs(["schedule_id"], "symbolic schedule")
        a = st2.alloc(HeapObj("obj", sci, {"schedule_id": ("sym", "id_a", "str")}, [], True, "a", False))
        if meth == "__hash__":
            outs2 = I2.run(mf, {mf.params[0]: a}, st2)
            vals = [o.value for o in outs2 if o.kind == "return"]
            rep.check(vals == [("app", "hash", ("sym", "id_a", "str"))], "R10.3", meth, wherem, f"__hash__ is {[T.show(v)[:80] for v in vals]}; expected hash(schedule_id)", key="R10.3|hash")
        else:
            b2 = st2.alloc(HeapObj("obj", sci, {"schedule_id": ("sym", "id_b", "str")}, [], True, "b", False))
            outs2 = I2.run(mf, {mf.params[0]: a, mf.params[1]: b2}, st2)
            vals = [o.value for o in outs2 if o.kind == "return"]
            from ..interp import mkcmp
            want_eq = mkcmp("==", ("sym", "id_a", "str"), ("sym", "id_b", "str"))
            rep.check(len(vals) == 1 and canon(vals[0]) == canon(want_eq), "R10.3", meth, wherem, f"__eq__ between schedules is {[T.show(v)[:120] for v in vals]}; expected schedule_id == other.schedule_id", key="R10.3|eq")
    # R10.4
    wire = load_wire()
    toks = wire["frames"]["create_schedule"]
    off = 0
    pos: Dict[str, Tuple[int, int]] = {}
    rec_start = None
    for t in toks:
        if t in F.FIXED_W:
            w = F.FIXED_W[t]
        elif t.startswith("0*"):
            w = int(t[2:])
        elif t.startswith("ARG:"):
            w = int(t.split(":")[2])
            pos[t.split(":")[1]] = (off, off + w)
        else:
            w = len(t)
            if t == "ff":
                rec_start = off
        off += w
    Iop, oouts, ofi = A.run_operation(prog, "create_schedule")
    wherew = f"{loc(ofi, ofi.node)} {ofi.qualname}"
    checked = False
    for o in oouts:
        if o.kind != "return" or A.excluded_by_assumptions(o.state.pc):
            continue
        w_ = A.writes(o)
        if len(w_) < 2:
            continue
        sp = F.split_signed(w_[1].args[0])
        if not sp:
            continue
        mm, holes = F.match_layout(sp[0], toks)
        if mm:
            rep.bad("R10.4", "writer layout", wherew, f"create_schedule frame deviates from the reference: {mm[0]}", key="R10.4|writer-layout")
            checked = True
            break
        if checked:
            continue
        checked = True
        assert rec_start is not None
        for role, rname in (("days", "days"), ("start", "start"), ("end", "end")):
            wr = (pos[role][0] - rec_start, pos[role][1] - rec_start)
            rep.check(wr == RECORD[rname], "R10.4", f"offset of {role}", wherew,
                      f"writer puts {role} at record nibbles {wr}, the reader takes it from {RECORD[rname]}", key=f"R10.4|offset|{role}")
        for role in ("start", "end"):
            v = F.le32_of(holes["ARG:" + role])
            okw = v is not None and isinstance(v, tuple) and v[:2] == ("app", "int") and isinstance(v[2], tuple) and v[2][:2] == ("app", "time.mktime") \
                and isinstance(v[2][2], tuple) and v[2][2][:2] == ("app", "time.strptime") and T.is_c(v[2][2][3]) and str(v[2][2][3][1]).endswith(" %H:%M")
            if not okw and v is not None and isinstance(v, tuple) and v[:2] == ("app", "int") and isinstance(v[2], tuple) and v[2][:2] == ("app", "time.mktime") \
                    and not (isinstance(v[2][2], tuple) and v[2][2][:2] == ("app", "time.strptime")) and __import__("sa.props.c11", fromlist=["dst_flag_unknown"]).dst_flag_unknown(v[2][2]):
                rep.undecided("R10.4", f"encoder of {role}", wherew, f"writer encodes {role} as LE32 of {T.show(v)[:160]}: int(time.mktime(..)) of a time tuple built another way than strptime - a form this rule does not compare")
                continue
            rep.check(okw, "R10.4", f"encoder of {role}", wherew,
                      f"writer encodes {role} as LE32 of {T.show(v)[:160] if v else T.show(holes['ARG:' + role])[:120]}; the reader decodes LE32 -> time.localtime -> '%H:%M', so the writer must be '%H:%M' -> time.mktime -> LE32",
                      key=f"R10.4|encoder|{role}")
    if not checked:
        rep.undecided("R10.4", "writer", wherew, "no returning path of create_schedule with a command frame")
    # an empty day collection is the one-time schedule: some path an empty collection can take writes the command frame,
    # and its day field is the non-recurring constant (the reader's `!= "00"` test)
    days_sym = ("sym", "days", ("set", ("enum", "aioswitcher.schedule:Days")))
    empty_facts = F.collection_facts(days_sym, True, None)
    sent_empty = []
    for o in oouts:
        if A.excluded_by_assumptions(o.state.pc) or len(A.writes(o)) < 2:
            continue
        if any(F.guard_under(g, empty_facts) is False for g in F.flat_pc(list(o.state.pc))):
            continue
        sent_empty.append(o)
    if checked:
        ok_e = False
        for o in sent_empty:
            sp = F.split_signed(A.writes(o)[1].args[0])
            if sp:
                mm_, holes_ = F.match_layout(sp[0], toks)
                fld_ = holes_.get("ARG:days")
                for _ in range(4):
                    # a field chosen inside the value (conditional expression in a helper): the choice an empty collection takes
                    if not (isinstance(fld_, tuple) and fld_[:1] == ("seq",) and len(fld_[2]) == 1 and isinstance(fld_[2][0], tuple) and len(fld_[2][0]) == 4 and fld_[2][0][0] == "alt"):
                        break
                    d_ = [F.guard_under(g, empty_facts) for g in F.flat_pc([fld_[2][0][1]])]
                    if any(x is False for x in d_):
                        fld_ = fld_[2][0][3]
                    elif all(x is True for x in d_):
                        fld_ = fld_[2][0][2]
                    else:
                        break
                if not mm_ and F.literal(fld_) == "00":
                    ok_e = True
        refused = sorted({o.exc_name for o in oouts if o.kind == "raise" and len(A.writes(o)) <= 1 and not A.excluded_by_assumptions(o.state.pc)
                          and not any(F.guard_under(g, empty_facts) is False for g in F.flat_pc(list(o.state.pc)))
                          and any(F.guard_under(g, F.collection_facts(days_sym, False, None)) is False for g in F.flat_pc(list(o.state.pc)))})
        rep.check(ok_e, "R10.4", "an empty day set is written as the non-recurring record", wherew,
                  f"no path that an empty day collection can take writes the command frame with day field '00'" + (f" (it is refused with {refused} before the command frame)" if refused else "")
                  + ": a one-time schedule can no longer be created, so nothing reads back", key="R10.4|empty-days")
    nonrec = prog.const("aioswitcher.api.packets:NON_RECURRING_SCHEDULE")
    rep.check(nonrec == "00", "R10.4", "non-recurring constant", "src/aioswitcher/api/packets.py NON_RECURRING_SCHEDULE", f"writer's non-recurring mask is {nonrec!r}; the reader treats exactly '00' as non-recurring", key="R10.4|nonrecurring")
    rep.extra["programs"] = 3
