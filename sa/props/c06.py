"""C06 - only genuine Switcher broadcasts are accepted; anything else is ignored quietly."""
from __future__ import annotations

import json
import os
from typing import Any, Dict, List, Optional, Set

from .. import bridge_model as B
from .. import layout_spec as LS
from .. import terms as T
from ..interp import HeapObj, Interp, Outcome, conj, neg
from ..model import AnalysisError, Program, loc
from ..report import Report, VERIF
from ..terms import c
from .c05 import canon, joined_value, load_spec, run_getter

LEVEL = "proof"
MSG = B.MSG


def flatten(cond: T.Term, tag: str) -> List[T.Term]:
    if isinstance(cond, tuple) and cond and cond[0] == tag:
        out: List[T.Term] = []
        for x in cond[1:]:
            out.extend(flatten(x, tag))
        return out
    return [cond]


class _NotFinite(Exception):
    pass


def gate_truth_table(t: Any, magic_atoms: Any, msg: Any) -> Optional[Set[Any]]:
    """The set of (magic holds?, length) pairs a gate accepts, when the gate is a boolean / choice combination of exactly
    two kinds of atoms: the magic test and tests of len(m) against integer constants.  Such a gate depends on m only
    through one boolean and through which of the finitely many mentioned constants (or none of them: None) the length
    equals, so evaluating the term for every combination decides it - a finite abstraction, no input is chosen."""
    consts: Set[int] = set()

    def atoms(x: Any) -> None:
        if not isinstance(x, tuple) or x in magic_atoms:
            return
        if x[:1] == ("cmp",) and len(x) == 4 and ("len", msg) in (x[2], x[3]):
            other = x[3] if x[2] == ("len", msg) else x[2]
            if T.is_c(other) and type(other[1]) is int:
                consts.add(other[1])
            elif isinstance(other, tuple) and other[:1] == ("tuple",) and all(T.is_c(k) and type(k[1]) is int for k in other[1]):
                consts.update(k[1] for k in other[1])
            return
        for y in x:
            atoms(y)

    def ev(x: Any, m: bool, ln: Optional[int]) -> bool:
        if x in magic_atoms:
            return m
        if T.is_c(x) and isinstance(x[1], bool):
            return x[1]
        if isinstance(x, tuple) and x[:1] == ("and",):
            return all(ev(y, m, ln) for y in x[1:])
        if isinstance(x, tuple) and x[:1] == ("or",):
            return any(ev(y, m, ln) for y in x[1:])
        if isinstance(x, tuple) and x[:1] == ("not",) and len(x) == 2:
            return not ev(x[1], m, ln)
        if isinstance(x, tuple) and x[:1] == ("ite",) and len(x) == 4:
            return ev(x[2], m, ln) if ev(x[1], m, ln) else ev(x[3], m, ln)
        if isinstance(x, tuple) and x[:1] == ("cmp",) and len(x) == 4:
            if x[2] == ("len", msg) and T.is_c(x[3]) and type(x[3][1]) is int and x[1] in ("==", "!="):
                return (ln == x[3][1]) == (x[1] == "==")
            if x[3] == ("len", msg) and T.is_c(x[2]) and type(x[2][1]) is int and x[1] in ("==", "!="):
                return (ln == x[2][1]) == (x[1] == "==")
            if x[2] == ("len", msg) and x[1] in ("in", "not in") and isinstance(x[3], tuple) and x[3][:1] == ("tuple",) and all(T.is_c(k) and type(k[1]) is int for k in x[3][1]):
                return (ln in {k[1] for k in x[3][1]}) == (x[1] == "in")
        raise _NotFinite()

    atoms(t)
    try:
        return {(m, ln) for m in (True, False) for ln in sorted(consts) + [None] if ev(t, m, ln)}   # type: ignore[list-item]
    except _NotFinite:
        return None


def ranges_as_tuples(x: Any) -> Any:
    """`v in range(a, b[, step])` with integer constants (at most 64 members) is `v in (a, a+step, ...)`: the same
    finite set for the integer `len(...)` the gate tests, spelled as the tuple form the rule compares."""
    if not isinstance(x, tuple):
        return x
    if (len(x) == 4 and x[0] == "cmp" and x[1] in ("in", "not in") and isinstance(x[3], tuple) and x[3][:1] == ("app",) and len(x[3]) in (3, 4, 5)
            and x[3][1] in ("range", "builtins.range") and isinstance(x[2], tuple) and x[2][:1] == ("len",)
            and all(T.is_c(a) and type(a[1]) is int for a in x[3][2:])):
        members = range(*[a[1] for a in x[3][2:]]) if not (len(x[3]) == 5 and x[3][4][1] == 0) else None
        if members is not None and len(members) <= 64:
            return ("cmp", x[1], x[2], ("tuple", tuple(c(m) for m in members)))
    return tuple(ranges_as_tuples(y) for y in x)


def run(prog: Program, rep: Report, tier: str) -> None:
    rep.rule("R6.1", "gate normal form: hex(m)[0:4] == 'fef0' and len(m) in {165,168,159}; no other conjunct or disjunct; the gate itself cannot raise", 3)
    rep.rule("R6.2", "silent rejection: when the gate is false the only effect is a debug log and the function returns None - no callback, no warning, no exception; nothing that can raise is evaluated before the gate", 3)
    rep.rule("R6.3", "unknown model: for a frame that passes the gate with a model code outside DeviceType, the model lookup returns (does not raise) and the builder warns 'unknown' exactly once and constructs no device", 2)
    rep.rule("R6.5", "each byte string is judged on its own: nothing on the builder's path stores to an object that outlives the call, declares a global, or mutates a module-level container", 1)
    rep.rule("R6.4", "model extraction: the type is looked up in the complete DeviceType.hex_rep table with the hex text of bytes 74..75", 1)
    rep.trusted += ["slicing never raises; bytes.__len__; hexlify; dict semantics; logger.debug has no observable effect for the property", "spec/broadcast_layout.json gate section (from the property statement)"]
    spec = load_spec()
    rep.rule("R6.6", "structural: no function reachable from the datagram builder declares a global or mutates / stores into a module-level name (a frame would be judged by what came before it)", 1, structural=True)
    from .c07 import module_state_on_receive_path
    ms_ = module_state_on_receive_path(prog)
    rep.check(not ms_, "R6.6", "no module-level state on the receive path", "src/aioswitcher/bridge.py", f"{ms_[:3]}: whether and how a byte string is accepted depends on the byte strings seen before it", key="R6.6|module-state")
    # ---- R6.1
    outs, fi = run_getter(prog, "aioswitcher.bridge:DatagramParser", "is_switcher_originator", "message", MSG, None)
    if outs is None:
        raise AnalysisError("anchor vanished: DatagramParser.is_switcher_originator")
    where = f"{loc(fi, fi.node)} {fi.qualname}"
    raising = [o for o in outs if o.kind == "raise"]
    rep.check(not raising, "R6.1", "gate cannot raise", where, f"the gate may raise {[o.exc_name for o in raising]} (e.g. when {T.show(conj(raising[0].state.pc))[:160] if raising else ''})", key="R6.1|raise")
    g = joined_value(outs)
    gate_cond: Optional[T.Term] = None
    gate_foreign = False
    if g is None or T.contains_top(g):
        rep.undecided("R6.1", "gate normal form", where, f"gate not understood: {T.contains_top(g) if g else 'no return'}")
    else:
        I0 = Interp(prog)
        gate_cond = I0.truth(g, I0.new_state())
        gate_raw = gate_cond                       # (R6.2 matches the builder's path conditions against the gate as written)
        gate_cond = ranges_as_tuples(gate_cond)
        conjs = flatten(gate_cond, "and")
        magic_want = ("cmp", "==", T.seq("s", (("hx", MSG, 0, 4),)), T.seq("s", (("L", spec["gate"]["magic"]),)))
        magic_alt = ("cmp", "==", magic_want[3], magic_want[2])
        magics = [x for x in conjs if x in (magic_want, magic_alt)]
        others = [x for x in conjs if x not in (magic_want, magic_alt)]
        def is_len_test(d: Any) -> bool:
            return (isinstance(d, tuple) and d[:1] == ("cmp",) and ((d[1] == "==" and ("len", MSG) in (d[2], d[3]) and T.is_c(d[3] if d[2] == ("len", MSG) else d[2]))
                                                                    or (d[1] == "in" and d[2] == ("len", MSG) and isinstance(d[3], tuple) and d[3][:1] == ("tuple",) and all(T.is_c(x) for x in d[3][1]))))

        def is_head_test(d: Any) -> bool:
            # a comparison of leading hex digits of the message with a literal
            if not (isinstance(d, tuple) and d[:1] == ("cmp",) and d[1] in ("==", "!=")):
                return False
            for x, y in ((d[2], d[3]), (d[3], d[2])):
                if T.is_seq(x) and len(x[2]) == 1 and x[2][0][:2] == ("hx", MSG) and x[2][0][2] == 0 and T.is_seq(y) and all(a[0] == "L" for a in y[2]):
                    return True
            return False

        # recognised skeleton = a conjunction of comparisons of the length / of the leading digits with constants; then
        # every deviation is a violation.  Any other conjunct makes the gate a form this rule does not compare.
        def only_known_atoms(x: Any) -> bool:
            if isinstance(x, tuple) and x[:1] in (("and",), ("or",)):
                return all(only_known_atoms(y) for y in x[1:])
            if isinstance(x, tuple) and x[:1] == ("not",) and len(x) == 2:
                return only_known_atoms(x[1])
            return is_head_test(x) or is_len_test(x)

        foreign_conj = [x for x in conjs if not only_known_atoms(x)]
        gate_foreign = bool(foreign_conj)
        table = gate_truth_table(gate_cond, (magic_want, magic_alt), MSG) if foreign_conj else None
        if table is not None:
            # a choice / boolean combination of the magic test and of length tests only: decided by its finite truth table
            want_table = {(True, n) for n in spec["gate"]["lengths"]}
            extra, missing = sorted(table - want_table, key=str), sorted(want_table - table, key=str)
            rep.check(not any(not m for m, _ in extra) and not missing, "R6.1", "magic", where,
                      f"gate is {T.show(gate_cond)[:300]}: by its truth table over (magic holds, length) it accepts {[x for x in extra if not x[0]][:3]} without the magic / rejects {missing[:3]}; it must require hex(m)[0:4] == '{spec['gate']['magic']}'", key="R6.1|magic")
            rep.check(not any(m for m, _ in extra) and not missing, "R6.1", "lengths", where,
                      f"gate is {T.show(gate_cond)[:300]}: by its truth table over (magic holds, length) it also accepts {[x for x in extra if x[0]][:3]} (None = any other length) / rejects {missing[:3]}; it must accept exactly {sorted(spec['gate']['lengths'])} and nothing else", key="R6.1|lengths")
        elif foreign_conj:
            rep.undecided("R6.1", "gate normal form", where, f"gate is {T.show(gate_cond)[:300]}: the conjunct {T.show(foreign_conj[0])[:120]} is neither a test of the length nor of the leading bytes; "
                                                              f"whether the gate equals hex(m)[0:4] == 'fef0' and len(m) in {{165,168,159}} is not decided by comparing normal forms")
        else:
            rep.check(len(magics) == 1, "R6.1", "magic", where, f"gate is {T.show(gate_cond)[:300]}: it must require hex(m)[0:4] == '{spec['gate']['magic']}'", key="R6.1|magic")
            lens: Set[Any] = set()
            ok_len = len(others) == 1
            if ok_len:
                for d in flatten(others[0], "or"):
                    if d[0] == "cmp" and d[1] == "==" and ("len", MSG) in (d[2], d[3]) and T.is_c(d[3] if d[2] == ("len", MSG) else d[2]):
                        lens.add((d[3] if d[2] == ("len", MSG) else d[2])[1])
                    elif d[0] == "cmp" and d[1] == "in" and d[2] == ("len", MSG) and d[3][0] == "tuple":
                        lens |= {x[1] for x in d[3][1]}
                    else:
                        ok_len = False
            rep.check(ok_len and lens == set(spec["gate"]["lengths"]), "R6.1", "lengths", where,
                      f"gate is {T.show(gate_cond)[:300]}: accepted lengths {sorted(lens) if ok_len else '?'}; it must accept exactly {sorted(spec['gate']['lengths'])} and nothing else", key="R6.1|lengths")
        rep.sample({"gate_normal_form": T.show(gate_cond)[:400]})
        gate_cond = gate_raw

    # ---- R6.2
    I, pouts = B.run_parse(prog, None)
    pfi = prog.func("aioswitcher.bridge:_parse_device_from_datagram")
    pwhere = f"{loc(pfi, pfi.node)} {pfi.qualname}"
    rep.analysed["functions"] = sorted(I.functions_visited)
    rep.analysed["paths"] = len(pouts)
    if gate_cond is not None:
        neg_gate = neg(gate_cond)
        rejecting = [o for o in pouts if neg_gate in o.state.pc or all(x in o.state.pc for x in flatten(neg_gate, "and"))]
        accepting = [o for o in pouts if o not in rejecting]
        # R6.2 finds the gate in the builder's path conditions by comparing terms.  When the gate has a form R6.1 does not
        # compare (e.g. an `or` of calls, which the builder's paths split and the joined gate value spells as a choice), not
        # finding it there says nothing about the code: undecided, never a violation (round 17, variant c06-twin-in-ranges)
        if gate_foreign and not rejecting:
            rep.undecided("R6.2", "rejecting path exists", pwhere, "the gate has a form R6.1 does not compare and no path condition of the builder spells its negation literally: whether the builder consults the gate first is not decided")
            early_undecidable = True
        else:
            early_undecidable = False
            rep.check(len(rejecting) >= 1, "R6.2", "rejecting path exists", pwhere, "no path of the builder is guarded by the negated gate (is the gate still consulted first?)", key="R6.2|exists")
        for o in rejecting:
            evs = [e for e in o.state.events if e.kind == "call"]
            bad = [e for e in evs if not e.target.startswith("logger.debug")]
            okp = o.kind == "return" and T.is_c(o.value) and o.value[1] is None and not bad
            rep.check(okp, "R6.2", "rejection is silent", pwhere,
                      f"on the gate-false path the builder {'raises ' + o.exc_name if o.kind == 'raise' else 'does ' + ', '.join(e.target for e in bad)}; it must only log at debug level and return", key="R6.2|silent")
        early = [o for o in accepting if o.kind == "raise" and not (gate_cond in o.state.pc or all(x in o.state.pc for x in flatten(gate_cond, "and")))]
        if early_undecidable and early:
            rep.undecided("R6.2", "nothing raises before the gate", pwhere, f"{len(early)} raising path(s) carry no literal copy of the gate in their condition; the gate has a form this rule does not compare")
            early = []
        rep.check(not early, "R6.2", "nothing raises before the gate", pwhere,
                  f"{len(early)} raising path(s) are not guarded by the gate, e.g. {early[0].exc_name + ' at ' + early[0].value[3] if early else ''}: a foreign datagram can raise", key="R6.2|before-gate")

    # ---- R6.5 each frame is treated on its own (no memory between datagrams)
    from .c07 import receive_path_state
    st65 = receive_path_state(prog, pouts)
    rep.check(not st65, "R6.5", "the builder keeps no memory between datagrams", pwhere,
              f"{st65[:3]}: what happens to a frame (device, warning, silence) now depends on the frames seen before it - e.g. a second unknown-model frame no longer gets its warning", key="R6.5|state")

    # ---- R6.4 model extraction
    outs, gfi = run_getter(prog, "aioswitcher.bridge:DatagramParser", "get_device_type", "message", MSG, 159)
    if outs is None:
        raise AnalysisError("anchor vanished: DatagramParser.get_device_type")
    gwhere = f"{loc(gfi, gfi.node)} {gfi.qualname}"
    want = LS.term_of(prog, spec["model"], MSG)
    vals = [o.value for o in outs if o.kind == "return"]
    jv_ = joined_value(outs)          # (a first-match loop over the members returns one member per path: the table it spells)
    if jv_ is not None:
        vals.append(jv_)
    def has_lookup(v: Any) -> bool:
        if v == want:
            return True
        return isinstance(v, tuple) and any(has_lookup(x) for x in v)
    rep.check(any(has_lookup(canon(v)) for v in vals), "R6.4", "model table lookup", gwhere,
              f"model lookup is {[T.show(v)[:160] for v in vals]}; expected the DeviceType member whose hex_rep equals hex(m[74:76])", key="R6.4|lookup")

    # ---- R6.3 unknown model, decided on a message whose model bytes are a literal outside the table
    dt = prog.cls("aioswitcher.device:DeviceType")
    assert dt.enum is not None
    codes = {dt.enum.attr(m, "hex_rep") for m in dt.enum.members}
    unknown = next(f"{k:04x}" for k in range(0xFFFF, 0, -1) if f"{k:04x}" not in codes)
    msg2 = T.seq("raw", (("hx", MSG, 0, 148), ("L", unknown), ("hx", MSG, 152, None)))
    ci = prog.cls("aioswitcher.bridge:DatagramParser")
    I2 = Interp(prog)
    st = I2.new_state()
    st.minlen[MSG] = 159
    o2 = I2.run(pfi, {pfi.params[0]: ("sym", "device_callback", "callable"), pfi.params[1]: msg2}, st)
    def _rejected(o: Any) -> bool:
        # the gate-false path of this frame: guarded by the negated gate (any number of debug logs, nothing else)
        if gate_cond is not None:
            ng = neg(gate_cond)
            if ng in o.state.pc or all(x in o.state.pc for x in flatten(ng, "and")) or any(neg(x) in o.state.pc for x in flatten(gate_cond, "and")):
                return True
        return o.kind == "return" and not B.warns(o) and not B.callbacks(o) and len(o.state.events) == 1 and any(e.target.startswith("logger.debug") for e in B.logs(o))
    acc2 = [o for o in o2 if not _rejected(o)]
    if not acc2:
        rep.bad("R6.3", "unknown model reaches the builder", pwhere, "no gate-true path for a frame with an unknown model code", key="R6.3|nopath")
    n_raise = [o for o in acc2 if o.kind == "raise"]
    if n_raise:
        o = n_raise[0]
        rep.bad("R6.3", "unknown model does not raise", o.value[3],
                f"a gate-passing frame whose model code ({unknown}) is not a DeviceType raises {o.exc_name} at {o.value[3]} instead of producing the 'unknown device' warning; "
                f"the builder's trailing `else: warn(...)` is unreachable because the lookup never returns a falsy value (the caller tests `if device_type and ...`, the callee cannot return None)",
                key="R6.3|get_device_type|KeyError")
    else:
        rep.ok("R6.3", "unknown model does not raise", pwhere, f"model code {unknown}: no raising path")
    for o in [o for o in acc2 if o.kind == "return"]:
        w = B.warns(o)
        okw = len(w) == 1 and not B.callbacks(o) and "unknown" in T.show(w[0].args[0]).lower()
        rep.check(okw, "R6.3", "unknown model warns once, no device", pwhere,
                  f"for an unknown model the builder makes {len(B.callbacks(o))} callback(s) and {len(w)} warning(s) {[T.show(x.args[0])[:60] for x in w]}", key="R6.3|warn")
    if not [o for o in acc2 if o.kind == "return"] and not n_raise:
        rep.bad("R6.3", "unknown model warns once, no device", pwhere, "no returning path", key="R6.3|warn")
