"""C01 - every frame written to a device is self-consistent and correctly signed."""
from __future__ import annotations

import ast
from typing import Any, Dict, List, Tuple

from .. import api_model as A
from .. import frames as F
from .. import terms as T
from ..interp import conj
from ..model import Program, loc
from ..report import Report
from ..terms import Lin

LEVEL = "proof"

SEND_METHODS = {"write", "writelines", "send", "sendall", "sendto", "sendmsg", "write_eof"}
OK_WRITER_METHODS = {"write", "close", "wait_closed", "is_closing"}


def writer_sweep(prog: Program, rep: Report) -> None:
    """R1.1a: who may touch the stream writer / send bytes (AST sweep over src/ and scripts/)."""
    n_write_sites = 0
    for m in prog.all_modules(True):
        parents: Dict[ast.AST, ast.AST] = {}
        for node in ast.walk(m.tree):
            for ch in ast.iter_child_nodes(node):
                parents[ch] = node
        for node in ast.walk(m.tree):
            if isinstance(node, ast.Attribute) and node.attr == "_writer":
                par = parents.get(node)
                where = f"{m.relpath}:{node.lineno}"
                if isinstance(par, ast.Attribute) and isinstance(parents.get(par), ast.Call) and parents[par].func is par:
                    meth = par.attr
                    call = parents[par]
                    if meth == "write":
                        n_write_sites += 1
                        arg_ok = (
                            len(call.args) == 1
                            and isinstance(call.args[0], ast.Call)
                            and ast.unparse(call.args[0].func).split(".")[-1] in ("unhexlify", "fromhex")
                        )
                        # the value itself is checked on the abstract frames (R1.1b); here only the shape
                        rep.ok("R1.1", f"writer use .write #{n_write_sites}", where, "bytes reach the socket only through writer.write(...)")
                    elif meth in OK_WRITER_METHODS:
                        rep.ok("R1.1", f"writer use .{meth}", where)
                    else:
                        rep.bad("R1.1", f"writer use .{meth}", where, f"stream writer used through .{meth}(): frames may bypass signing")
                elif isinstance(node.ctx, ast.Store):
                    rep.ok("R1.1", "writer store", where)
                elif isinstance(par, (ast.BoolOp, ast.If, ast.UnaryOp)) or (isinstance(par, ast.Tuple) and isinstance(par.ctx, ast.Store)):
                    rep.ok("R1.1", "writer test/store", where)
                elif local_alias_is_enumerable(node, par, parents):
                    rep.ok("R1.1", "writer local alias", where, "aliased to a local that is only tested or used through close/wait_closed/is_closing in the same function")
                elif isinstance(par, ast.Compare) and all(isinstance(c_, ast.Constant) and c_.value is None for c_ in par.comparators if c_ is not node):
                    rep.ok("R1.1", "writer test", where)
                elif isinstance(par, ast.Call) and isinstance(par.func, ast.Name) and par.func.id in ("bool", "isinstance", "id", "type", "callable") and node in par.args:
                    rep.ok("R1.1", "writer test", where, f"only inspected by {par.func.id}()")
                elif passed_to_enumerable_param(prog, m, node, par):
                    rep.ok("R1.1", "writer passed to a closing helper", where, "handed to a repository function whose parameter is only tested or used through close/wait_closed/is_closing")
                else:
                    rep.bad("R1.1", "writer escapes", where, f"stream writer escapes into `{ast.unparse(par) if par is not None else '?'}`: writes can no longer be enumerated")
    rep.analysed["write_sites"] = n_write_sites


def foreign_sender_sweep(prog: Program, rep: Report, resolved_sites: set) -> None:
    """R1.1a, second half: no other send primitive is called in the package.  A call `x.send(...)` whose callee the
    interpreter resolved to a repository function on an analysed path is that function (its own writes are judged like
    all others); a site never reached by an analysed path whose method name a repository class defines cannot be told
    from a socket call by name alone (undecided); anything else named like a send primitive is one."""
    repo_methods = {name for m in prog.all_modules(True) for ci in m.classes.values() for name in ci.methods}
    for m in prog.all_modules(True):
        if not m.in_package:
            continue
        for node in ast.walk(m.tree):
            if isinstance(node, ast.Call) and isinstance(node.func, ast.Attribute) and node.func.attr in SEND_METHODS:
                recv = node.func.value
                if isinstance(recv, ast.Attribute) and recv.attr == "_writer" and node.func.attr == "write":
                    continue
                site = f"{m.relpath}:{node.lineno}"
                if site in resolved_sites:
                    rep.ok("R1.1", f"call .{node.func.attr} is a repository method", site, "resolved by the interpreter on an analysed path")
                elif node.func.attr in repo_methods:
                    rep.undecided("R1.1", f"sender .{node.func.attr}?", site, f"`{ast.unparse(node)[:80]}`: a repository class defines .{node.func.attr}() but no analysed path reaches this call, so it cannot be told from a socket call")
                else:
                    rep.bad("R1.1", f"foreign sender .{node.func.attr}", site,
                            f"`{ast.unparse(node)[:80]}` sends bytes outside writer.write(unhexlify(signed))")


def _name_uses_enumerable(fn: ast.AST, name: str) -> bool:
    """Every load of `name` in fn is a truth test, a comparison with None, or the receiver of close / wait_closed / is_closing."""
    parents: Dict[ast.AST, ast.AST] = {}
    for nd in ast.walk(fn):
        for ch in ast.iter_child_nodes(nd):
            parents[ch] = nd
    for n in ast.walk(fn):
        if isinstance(n, ast.Name) and n.id == name:
            if not isinstance(n.ctx, ast.Load):
                return False        # re-bound: the name no longer denotes the parameter
            p = parents.get(n)
            if isinstance(p, ast.Attribute) and p.attr in ("close", "wait_closed", "is_closing") and isinstance(parents.get(p), ast.Call) and parents[p].func is p:
                continue
            if isinstance(p, (ast.If, ast.BoolOp, ast.UnaryOp, ast.While, ast.IfExp)) or (isinstance(p, ast.Compare) and all(isinstance(c_, ast.Constant) and c_.value is None for c_ in p.comparators)):
                continue
            return False
    return True


def passed_to_enumerable_param(prog: Program, m: Any, node: ast.AST, par: Any) -> bool:
    """`helper(self._writer)` / `self._helper(self._writer)` where helper is a function of this module (or a method of a
    class of this module) and the parameter that receives the writer is only closed / tested there."""
    if not (isinstance(par, ast.Call) and node in par.args and not any(isinstance(a, ast.Starred) for a in par.args)):
        return False
    idx = par.args.index(node)
    f = par.func
    fname = f.attr if isinstance(f, ast.Attribute) else f.id if isinstance(f, ast.Name) else None
    if fname is None:
        return False
    cands = [fi for fi in m.all_functions() if fi.qualname.split(".")[-1] == fname]
    if len(cands) != 1:
        return False
    fi = cands[0]
    params = [a.arg for a in fi.node.args.posonlyargs + fi.node.args.args]
    is_method = fi.cls is not None and not any(d.split("(")[0].split(".")[-1] == "staticmethod" for d in fi.decorators)
    if is_method and isinstance(f, ast.Attribute):
        params = params[1:]
    if idx >= len(params) or fi.node.args.vararg is not None:
        return False
    return _name_uses_enumerable(fi.node, params[idx])


def local_alias_is_enumerable(node: ast.AST, par: Any, parents: Dict[ast.AST, ast.AST]) -> bool:
    """`w = self._writer` inside a function where every later use of `w` is a truth test or a call of
    close / wait_closed / is_closing (never write, never passed on, never returned or stored)."""
    if not (isinstance(par, ast.Assign) and len(par.targets) == 1 and isinstance(par.targets[0], ast.Name) and par.value is node):
        return False
    name = par.targets[0].id
    fn = par
    while fn is not None and not isinstance(fn, (ast.FunctionDef, ast.AsyncFunctionDef)):
        fn = parents.get(fn)
    if fn is None:
        return False
    for n in ast.walk(fn):
        if isinstance(n, ast.Name) and n.id == name and isinstance(n.ctx, ast.Load):
            p = parents.get(n)
            if isinstance(p, ast.Attribute) and p.attr in ("close", "wait_closed", "is_closing") and isinstance(parents.get(p), ast.Call) and parents[p].func is p:
                continue
            if isinstance(p, (ast.If, ast.BoolOp, ast.UnaryOp, ast.While)) or (isinstance(p, ast.Compare) and all(isinstance(c_, ast.Constant) and c_.value is None for c_ in p.comparators)):
                continue
            return False
    return True


def run(prog: Program, rep: Report, tier: str) -> None:
    from ..api_model import sign_summary_premise
    sign_summary_premise(prog, rep, claims_signature=True)
    rep.rule("R1.1", "sole writer: the only operations on the stream writer are write/close/wait_closed, no other send primitive exists in the package, and every written value is unhexlify(sign(p))", 14 + 12)
    rep.rule("R1.2", "the signature atom covers exactly all preceding nibbles of the written frame", 14)
    rep.rule("R1.3", "nibbles 0-3 are the literal fef0 and nibbles 76-79 the literal f0fe (all fields before nibble 80 have constant width)", 14)
    rep.rule("R1.4", "nibbles 4-7 denote LE16 of the total frame length (body/2 + 4) for every argument value", 14)
    rep.rule("R1.6", "the widths assumed for the configured fields hold: _device_id / _device_key are stored once, in SwitcherApi.__init__, from the same-named parameter unchanged (A2/A3 speak of the caller's "
             "values; a constructor that rewrites them - strips, pads, re-formats - changes the frame length while the templates' length field stays what it was)", 4)
    rep.rule("R1.5", "for accepted arguments frame construction cannot fail in unhexlify (even nibble count, hex alphabet)", 12)
    rep.assumptions += A.ASSUMPTIONS
    rep.trusted += [
        "summary of sign_packet_with_crc_key = p ++ SIG(p) (8 nibbles), established by C04",
        "binascii.unhexlify rejects odd-length / non-hex text before anything reaches the socket",
        "str.format, slicing, struct.pack, str.ljust semantics (CPython docs; spec/library_facts.json)",
        "sa.interp abstract interpreter and sa.lib transfer functions",
    ]
    writer_sweep(prog, rep)
    seen: Dict[Tuple[str, T.Term], str] = {}
    funcs = set()
    total_paths = 0
    resolved_sites: set = set()
    for op in A.OPERATIONS:
        I, outs, fi = A.run_operation(prog, op, reply_minlen={0: 12})    # A1
        funcs |= set(I.functions_visited)
        resolved_sites |= {w.split(" ")[0] for w, _k in I.calls_resolved}
        total_paths += len(outs)
        where_op = f"{loc(fi, fi.node)} {fi.qualname}"
        bin_err = []
        for o in outs:
            if A.excluded_by_assumptions(o.state.pc):
                continue
            if o.kind == "raise" and o.exc_name == "binascii.Error":
                bin_err.append(o)
            r = T.contains_top(tuple(e.args for e in A.writes(o)))
            for e in A.writes(o):
                key = (op, e.args[0])
                if key not in seen:
                    seen[key] = e.where
        if bin_err:
            o = bin_err[0]
            rep.bad("R1.5", f"{op}", where_op,
                    f"{len(bin_err)} path(s) raise binascii.Error while building a frame from accepted arguments, e.g. at {o.value[3]} when {T.show(conj(o.state.pc[-2:]))[:300]}")
        else:
            rep.ok("R1.5", f"{op}", where_op, "no path raises binascii.Error under A1-A5")
    foreign_sender_sweep(prog, rep, resolved_sites)
    from .c02 import config_sweep
    config_sweep(prog, rep, "R1.6")
    rep.analysed["functions"] = sorted(funcs)
    rep.analysed["paths"] = total_paths
    rep.analysed["distinct_frames"] = len(seen)
    n = 0
    for (op, frame), where in sorted(seen.items(), key=lambda kv: (kv[0][0], kv[1], T.show(kv[0][1])[:80])):
        n += 1
        inst = f"{op} frame@{where.split(' ')[0].split('/')[-1]}#{n}"
        r = T.contains_top(frame)
        if r:
            rep.undecided("R1.1", inst, where, f"written value not understood: {r}")
            continue
        sp = F.split_signed(frame)
        if sp is None:
            rep.bad("R1.1", inst, where, f"value written to the socket is not unhexlify(sign_packet_with_crc_key(p)): {T.show(frame)[:300]}",
                    key=f"R1.1|{op}|unsigned-write")
            continue
        rep.ok("R1.1", inst, where, "written value is unhexlify(sign(p))")
        body, covers = sp
        rep.check(covers, "R1.2", inst, where, "signature does not cover exactly the bytes that precede it", key=f"R1.2|{op}|sig-coverage")
        # R1.3
        magic = F.literal(F.field(body, 0, 4))
        term = F.field(body, 76, 80)
        rep.check(magic == "fef0", "R1.3", inst + " magic", where, f"frame starts with {magic!r}, not fef0", key=f"R1.3|{op}|magic")
        tl = F.literal(term)
        if T.is_top(term):
            rep.bad("R1.3", inst + " terminator", where, f"a field before nibble 80 has no constant width, the f0fe terminator is not at bytes 38-39: {term[1]}", key=f"R1.3|{op}|terminator")
        else:
            rep.check(tl == "f0fe", "R1.3", inst + " terminator", where, f"bytes 38-39 are {T.show(term)[:80]}, not f0fe", key=f"R1.3|{op}|terminator")
        # R1.4
        W = F.body_width(body)
        lf = F.field(body, 4, 8)
        if W is None or T.is_top(lf):
            rep.bad("R1.4", inst, where, "frame width or length field not determinable (variable-width field inside the header)", key=f"R1.4|{op}|length")
            continue
        from fractions import Fraction
        L = Lin({t: Fraction(k, 2) if k % 2 else k // 2 for t, k in W.coef.items()}, Fraction(W.const, 2) if W.const % 2 else W.const // 2) + 4
        kind, val, note = F.length_field_denotation(lf)
        detail = {"frame_length": repr(L), "length_field": T.show(lf)[:200]}
        if len(rep.samples) < 6 and op in ("control_device", "set_device_name", "control_breeze_device", "create_schedule"):
            rep.sample({"operation": op, "site": where, "symbolic_frame": F.layout(body), "total_length_bytes": repr(L), "length_field": T.show(lf)[:200]})
        if kind == "const":
            if L.is_const():
                rep.check(int(L.const) == val, "R1.4", inst, where, f"header length literal says {val} but the frame is {L.const} bytes", key=f"R1.4|{op}|literal-length", **detail)
            else:
                rep.bad("R1.4", inst, where, f"header length is the literal {val} but the frame length varies with the arguments: {L!r} bytes", key=f"R1.4|{op}|literal-length-variable-frame", **detail)
        elif kind == "le16":
            same = Lin.of(val) == L
            rng = T.int_range(val)
            fits = rng is not None and rng[0] is not None and rng[1] is not None and rng[0] >= 0 and rng[1] <= 65535
            if not same:
                rep.bad("R1.4", inst, where, f"length field encodes {T.show(val)[:200]} but the frame is {L!r} bytes", key=f"R1.4|{op}|computed-length", **detail)
            else:
                rep.check(fits, "R1.4", inst, where, f"length {T.show(val)[:120]} not provably within 16 bits (interval {rng})", "LE16 of the exact frame length", key=f"R1.4|{op}|computed-length-range", **detail)
        elif kind == "idiom":
            nterm, lo, hi = val
            same = Lin.of(nterm) == L
            rng = T.int_range(nterm) or (None, None)
            inside = rng[0] is not None and rng[1] is not None and lo <= rng[0] and rng[1] <= hi
            if not same:
                rep.bad("R1.4", inst, where, f"length field encodes {T.show(nterm)[:200]} but the frame is {L!r} bytes", key=f"R1.4|{op}|computed-length", **detail)
            elif not inside:
                rep.bad("R1.4", inst, where,
                        f"length field is built by {note}; here n = {L!r} ranges over {rng}, so e.g. a 256-byte frame gets header bytes 10 00 (=16) instead of 00 01",
                        key=f"R1.4|{op}|hex-ljust-idiom", **detail)
            else:
                rep.ok("R1.4", inst, where, f"hex-ljust idiom within its validity range: n in {rng}", **detail)
        elif kind == "be16":
            rep.bad("R1.4", inst, where, "length field is big-endian", key=f"R1.4|{op}|endianness", **detail)
        else:
            rep.undecided("R1.4", inst, where, f"length field not understood: {note}")
