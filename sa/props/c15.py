"""C15 - the IR command built is the stored code that best matches the request (structural clauses)."""
from __future__ import annotations

import ast
from typing import Any, Dict, List, Optional, Set, Tuple

from .. import frames as F
from .. import remote_model as RM
from .. import terms as T
from ..interp import Ctx, HeapObj, Interp, Outcome, conj, neg
from ..model import AnalysisError, EnumRef, Program, loc
from ..report import Report
from ..terms import Lin, c

LEVEL = "other"
REMOTES = RM.REMOTES
DEV = RM.DEV
MAPSYM = ("sym", "self._ir_wave_map", "any")
KEYS = ("keysof", MAPSYM)


def beyond_a5(o: Outcome) -> bool:
    """Path excluded by A5: the IR text would exceed 65535 bytes (the property quantifies over 1..2000)."""
    for g in flat(o.state.pc):
        if isinstance(g, tuple) and g and g[0] == "outofrange" and g[2:] == (0, 65535) and F.mentions(g[1], "self._ir_wave_map"):
            return True
    return False


def flat(pc: List[T.Term]) -> List[T.Term]:
    out: List[T.Term] = []
    for g in pc:
        if isinstance(g, tuple) and g and g[0] == "and":
            out.extend(g[1:])
        else:
            out.append(g)
    return out


def map_guards(pc: List[T.Term]) -> List[Tuple[T.Term, bool]]:
    out = []
    for g in flat(pc):
        if isinstance(g, tuple) and g[0] == "cmp" and g[1] in ("in", "not in") and g[3] == KEYS:
            if (g[2], g[1] == "in") not in out:   # the same fact established twice is one fact
                out.append((g[2], g[1] == "in"))
    return out


def text(parts: List[Any]) -> T.Term:
    atoms: List[T.Term] = []
    for p in parts:
        if isinstance(p, str):
            atoms.append(("L", p))
        else:
            atoms.append(p)
    return T.seq("s", atoms)


def run(prog: Program, rep: Report, tier: str) -> None:
    rep.rule("R15.1", "MODE_TO_COMMAND/COMMAND_TO_MODE and FAN_LEVEL_TO_COMMAND/COMMAND_TO_FAN_LEVEL are mutually inverse and total over their enums", 2, structural=True)
    rep.rule("R15.2", "key grammar and fallback per path: the key is ('on_')? mode (temp)? '_'fan ('_d1')? (or 'off'); lookups try the full key, then without swing, then without fan, ... down to one part, test membership in the same map the final lookup reads, and use the first hit", 100)
    rep.rule("R15.4", "clamp before use: the temperature in the key is max when target > max, min when target < min, else the target", 30)
    rep.rule("R15.5", "unsupported mode raises RuntimeError before any IR lookup", 10)
    rep.rule("R15.6", "payload = 00000000 ++ hex(text(Para ++ '|' ++ HexCode)) of the entry under the final key, and the length field is the little-endian 16-bit payload size for every size", 3)
    rep.rule("R15.7", "capabilities are read from the set: toggle type from OnOffType == 1, separate-swing flag from membership of IRSetID in the special list, each wave stored under its own key with its own Para/HexCode, temperature range = min and max (updated independently) of the numeric key[2:4]", 4)
    rep.rule("R15.9", "a remote's tables belong to the instance: no container read by the remote's methods is created in a class body and mutated in place through instances "
                      "(it would be one table for all remotes, so a remote of one IR set would answer with another set's codes and modes)", 0, structural=True)
    rep.claims_instance_state = "R15.9"
    rep.rule("R15.8", "remote cache: get_remote constructs from the loaded set's entry for remote_id, stores it under and returns it by the same id", 1)
    rep.explanation = (
        "Decides structural clauses on every control-flow path of build_command / build_swing_command / SwitcherBreezeCommand / get_remote, with mode, power state, swing, toggle type and previous state "
        "case-split over their enum members and temperature, fan level and the IR map kept symbolic: key grammar and the order in which swing then fan are dropped, membership test and final lookup on the same map, "
        "clamping before the key is built, refusal of unsupported modes, payload composition and the length encoding, and how capabilities are read. "
        "NOT decided: that for a GIVEN IR set the entry reached is the most specific present (data-dependent search; only the loop's shape is decided); regex semantics of the fan-level scan; JSON loading."
    )
    rep.trusted += ["dict membership/lookup, list.pop() removes the last element, str.join (CPython docs)", "C12-style enum table folding"]
    rep.assumptions += ["A5: IR text 1..2000 bytes"]
    tables(prog, rep)
    funcs: Set[str] = set()
    m2c = prog.const(f"{REMOTES}:MODE_TO_COMMAND")
    f2c = prog.const(f"{REMOTES}:FAN_LEVEL_TO_COMMAND")
    fan_sym = ("sym", "fan_level", ("enum", f"{DEV}:ThermostatFanLevel"))
    fan_tab = tuple((("enum", k), c(v)) for k, v in f2c.items())
    fan_atom = ("txt", ("lookup", fan_tab, fan_sym))
    temps = {"max": ("fmt", "d", ("sym", "max_temp", "int")), "min": ("fmt", "d", ("sym", "min_temp", "int")), "mid": ("fmt", "d", ("sym", "target_temp", "int"))}
    from ..interp import mkcmp
    t_gt = mkcmp(">", ("sym", "target_temp", "int"), ("sym", "max_temp", "int"))
    t_lt = mkcmp("<", ("sym", "target_temp", "int"), ("sym", "min_temp", "int"))
    fi0 = None
    bad_counts: Dict[str, int] = {}
    first_bad: Dict[str, Tuple[str, str]] = {}
    n_paths = 0
    for state in ("ON", "OFF"):
        for mode in ("AUTO", "DRY", "FAN", "COOL", "HEAT"):
            for swing in ("ON", "OFF"):
                for toggle in (True, False):
                    for cur in (None, "ON", "OFF"):
                        I, outs, fi = RM.run_build_command(prog, state, mode, swing, toggle, cur)
                        fi0 = fi
                        funcs |= set(I.functions_visited)
                        where = f"{loc(fi, fi.node)} {fi.qualname}"
                        combo = f"state={state} mode={mode} swing={swing} toggle={toggle} previous={cur}"
                        seen_cases: Set[str] = set()
                        saw_unsupported = False
                        mkey = EnumRef(prog.cls(f"{DEV}:ThermostatMode").key, mode)
                        if mkey not in m2c:
                            rep.bad("R15.1", f"mode {mode} has no command code", where, f"{mode} missing from MODE_TO_COMMAND", key=f"R15.1|missing|{mode}")
                            continue
                        for o in outs:
                            if beyond_a5(o):
                                continue
                            n_paths += 1
                            pcs = flat(o.state.pc)
                            guards = map_guards(o.state.pc)
                            unsupported = any(isinstance(g, tuple) and g[0] == "cmp" and g[1] == "not in" and g[2] == ("enum", mkey) for g in pcs)
                            if unsupported:
                                saw_unsupported = True
                                okp = o.kind == "raise" and o.exc_name == "RuntimeError" and not guards
                                _rec(rep, bad_counts, first_bad, "R15.5", okp, where, f"{combo}: with an unsupported mode the builder {'raises ' + o.exc_name if o.kind == 'raise' else 'returns'} after {len(guards)} IR lookups; expected RuntimeError before any lookup")
                                continue
                            # clamp case of this path
                            case = "max" if t_gt in pcs else ("min" if t_lt in pcs else "mid")
                            # expected key parts
                            if not toggle and state == "OFF":
                                parts: List[Any] = ["off"]
                                loop = False
                            else:
                                parts = []
                                if toggle and cur is not None and cur != state:
                                    parts.append("on_")
                                parts.append(m2c[mkey])
                                if mode in ("COOL", "HEAT"):
                                    parts.append(temps[case])
                                parts.append("_")
                                parts.append(fan_atom)
                                if swing == "ON":
                                    parts.append("_d1")
                                loop = True
                            # list elements as the builder appends them ('_' + fan is one element)
                            elems: List[List[Any]] = []
                            i = 0
                            while i < len(parts):
                                if parts[i] == "_" and i + 1 < len(parts) and parts[i + 1] is fan_atom:
                                    elems.append(["_", fan_atom])
                                    i += 2
                                else:
                                    elems.append([parts[i]])
                                    i += 1
                            cands = [text([x for e in elems[:k] for x in e]) for k in range(len(elems), 0, -1)] if loop else [text(parts)]
                            # guards actually taken
                            got = [(canon_key(k), inn) for k, inn in guards]
                            exp_hit = None
                            ok = True
                            why = ""
                            if not loop:
                                ok = len(got) == 1 and got[0][0] == canon_key(cands[0]) and (got[0][1] or o.kind == "raise")
                                exp_hit = cands[0]
                                why = f"{combo}: non-toggle OFF must look up 'off' directly, path tests {[(T.show(k)[:40], i_) for k, i_ in got]}"
                            else:
                                # loop guards: c0 miss .. c_{j-1} miss, c_j hit (j <= n-2);  or all of c0..c_{n-2} miss and then
                                # the final lookup of the single remaining part c_{n-1} (hit -> return, miss -> KeyError)
                                seq_ok = True
                                for idx, (k, inn) in enumerate(got):
                                    if idx >= len(cands) or k != canon_key(cands[idx]):
                                        seq_ok = False
                                        break
                                    if inn and idx != len(got) - 1:
                                        seq_ok = False
                                if seq_ok and got and got[-1][1]:
                                    exp_hit = cands[len(got) - 1]
                                elif seq_ok and len(got) == len(cands) and all(not i_ for _, i_ in got):
                                    exp_hit = cands[-1]
                                    seq_ok = o.kind == "raise"
                                else:
                                    seq_ok = False
                                ok = seq_ok
                                why = (f"{combo} [{case}]: lookups tried {[(T.show(k)[:60], 'hit' if i_ else 'miss') for k, i_ in got]}; expected the candidates in this order: {[T.show(k)[:60] for k in cands]} "
                                       f"(swing is dropped first, then the fan level; membership tested in the map the final lookup reads)")
                            _rec(rep, bad_counts, first_bad, "R15.2", ok, where, why)
                            if mode in ("COOL", "HEAT") and loop:
                                used = [k for k, _ in got[:1]]
                                okc = bool(used) and used[0] == canon_key(cands[0])
                                if case == "mid" and not (neg(t_gt) in pcs and neg(t_lt) in pcs):
                                    okc = False
                                seen_cases.add(case)
                                _rec(rep, bad_counts, first_bad, "R15.4", okc, where, f"{combo}: on the path where target is {'above max' if case == 'max' else 'below min' if case == 'min' else 'within range'} the key is built with {T.show(used[0])[:80] if used else None}; expected the {'max' if case == 'max' else 'min' if case == 'min' else 'requested'} temperature")
                            # final lookup / payload
                            if ok and exp_hit is not None:
                                kk = canon_key(exp_hit)
                                entry = ("item", MAPSYM, kk)
                                if o.kind == "return":
                                    v = o.value
                                    cmdv = o.state.heap[v[1]].fields.get("command") if v[0] == "obj" else None
                                    want = payload_term(entry)
                                    okp = cmdv is not None and cmdv == want
                                    _rec(rep, bad_counts, first_bad, "R15.6", okp, where, f"{combo}: payload is {T.show(cmdv)[:300] if cmdv else None}; expected 00000000 ++ hex(Para ++ '|' ++ HexCode) of the entry under {T.show(kk)[:60]}")
                                else:
                                    okr = o.exc_name == "KeyError"
                                    _rec(rep, bad_counts, first_bad, "R15.2", okr, where, f"{combo}: raises {o.exc_name} at {o.value[3]}")
                        if not saw_unsupported:
                            _rec(rep, bad_counts, first_bad, "R15.5", False, where, f"{combo}: no path refuses a mode that is not among the remote's supported modes")
                        if mode in ("COOL", "HEAT") and (toggle or state == "ON") and seen_cases != {"max", "min", "mid"}:
                            _rec(rep, bad_counts, first_bad, "R15.4", False, where, f"{combo}: clamp cases explored {sorted(seen_cases)}; expected above-max, below-min and in-range to be distinguished before the key is built")
    for rid in ("R15.2", "R15.4", "R15.5", "R15.6"):
        if rid in first_bad:
            w, why = first_bad[rid]
            rep.bad(rid, "build_command", w, f"{why} ({bad_counts[rid]} path(s))", key=f"{rid}|build_command")
    rep.analysed["paths"] = n_paths
    length_rule(prog, rep)
    swing_command_rule(prog, rep)
    capabilities_rule(prog, rep)
    cache_rule(prog, rep)
    rep.analysed["functions"] = sorted(funcs)


def _rec(rep: Report, counts: Dict[str, int], first: Dict[str, Tuple[str, str]], rid: str, ok: bool, where: str, why: str) -> None:
    if ok:
        rep.ok(rid, "path", where)
    else:
        counts[rid] = counts.get(rid, 0) + 1
        first.setdefault(rid, (where, why))


def canon_key(k: T.Term) -> T.Term:
    s = T.to_seq(k) if not T.is_seq(k) else k
    return ("seq", "s", s[2]) if s is not None else k


def payload_term(entry: T.Term) -> T.Term:
    para = ("item", entry, T.seq("s", (("L", "Para"),)))
    hexc = ("item", entry, T.seq("s", (("L", "HexCode"),)))
    txt = T.seq("s", (("txt", para), ("L", "|"), ("txt", hexc)))
    # str(command).encode() -> hexlify -> decode, prefixed with four zero bytes
    raw = [("hexof", ("utf8", a)) if a[0] != "L" else ("L", a[1].encode().hex()) for a in txt[2]]
    return T.seq("s", (("L", "00000000"),) + tuple(raw))


def tables(prog: Program, rep: Report) -> None:
    where = "src/aioswitcher/api/remotes.py"
    for fwd, back, enum in (("MODE_TO_COMMAND", "COMMAND_TO_MODE", "ThermostatMode"), ("FAN_LEVEL_TO_COMMAND", "COMMAND_TO_FAN_LEVEL", "ThermostatFanLevel")):
        a = prog.const(f"{REMOTES}:{fwd}")
        b = prog.const(f"{REMOTES}:{back}")
        en = prog.cls(f"{DEV}:{enum}").enum
        assert en is not None
        members = {EnumRef(prog.cls(f"{DEV}:{enum}").key, m) for m in en.members}
        ok = isinstance(a, dict) and isinstance(b, dict) and set(a) == members and {v: k for k, v in a.items()} == b and len(set(a.values())) == len(a)
        rep.check(ok, "R15.1", f"{fwd} / {back}", where, f"{fwd}={a} and {back}={b} are not mutually inverse and total over {enum}", key=f"R15.1|{fwd}")


def length_rule(prog: Program, rep: Report) -> None:
    ci = prog.cls(f"{REMOTES}:SwitcherBreezeCommand")
    I = Interp(prog)
    st = I.new_state()
    ir = ("sym", "irtext", ("bytesr", 1, 2000))
    cmd = T.seq("s", (("L", "00000000"), ("hx", ir, 0, None)))
    outs = I.construct(ci, [cmd], {}, st, Ctx(None, ci.module, 0), ci.node)
    where = f"{loc(ci, ci.node)} SwitcherBreezeCommand"
    rets = [o for o in outs if o.kind == "return"]
    if len(rets) != 1:
        rep.bad("R15.6", "command length", where, f"constructor has {len(rets)} normal outcomes / may raise {[o.exc_name for o in outs if o.kind == 'raise']}", key="R15.6|length|paths")
        return
    ho = rets[0].state.heap[rets[0].value[1]]
    lf = ho.fields.get("length")
    cf = ho.fields.get("command")
    rep.check(cf == cmd, "R15.6", "command kept", where, "the command text is altered by the constructor", key="R15.6|command")
    n_want = Lin({("len", ir): 1}, 4)
    kind, val, note = F.length_field_denotation(T.to_seq(lf) if lf is not None and not T.is_seq(lf) and T.to_seq(lf) else lf) if lf is not None else ("unknown", None, "missing")
    if kind == "le16":
        same = Lin.of(val) == n_want
        rng = T.int_range(val)
        rep.check(same and rng is not None and rng[1] is not None and rng[1] <= 65535, "R15.6", "command length", where,
                  f"length encodes {T.show(val)[:120]} (interval {rng}); expected LE16 of the payload size {n_want!r}", key="R15.6|length|value")
    elif kind == "idiom":
        nterm, lo, hi = val
        rng = T.int_range(nterm) or (None, None)
        rep.bad("R15.6", "command length", where,
                f"the IR command length is built by {note}; the payload is 4 + len(Para|HexCode) bytes = {T.show(nterm)[:80]} ranging over {rng}, so a 15-byte payload gets 'f000' (=240) and a 304-byte payload '1300' (=19) instead of 0f00 / 3001",
                key="R15.6|SwitcherBreezeCommand._get_command_length|hex-ljust-idiom")
    else:
        rep.bad("R15.6", "command length", where, f"length field is {T.show(lf)[:200] if lf else None} ({note}); expected the little-endian 16-bit payload size", key="R15.6|length|form")


def swing_command_rule(prog: Program, rep: Report) -> None:
    ci = prog.cls(f"{REMOTES}:SwitcherBreezeRemote")
    fi = ci.find_method("build_swing_command")
    if fi is None:
        rep.undecided("R15.2", "build_swing_command", "-", "anchor vanished")
        return
    where = f"{loc(fi, fi.node)} {fi.qualname}"
    for sw, key in (("OFF", "FUN_d0"), ("ON", "FUN_d1")):
        I = Interp(prog)
        st = I.new_state()
        selfv = RM.remote_self(I, st, prog)
        outs = [o for o in I.run(fi, {fi.params[0]: selfv, fi.params[1]: RM.member(prog, "ThermostatSwing", sw)}, st) if not beyond_a5(o)]
        kk = T.seq("s", (("L", key),))
        want = payload_term(("item", MAPSYM, kk))
        rets = [o for o in outs if o.kind == "return"]
        okr = bool(rets) and all(o.state.heap[o.value[1]].fields.get("command") == want for o in rets)
        okx = all(o.exc_name == "RuntimeError" for o in outs if o.kind == "raise")
        rep.check(okr and okx, "R15.6", f"swing command {sw}", where,
                  f"swing {sw}: payload {[T.show(o.state.heap[o.value[1]].fields.get('command'))[:160] for o in rets]} / raises {[o.exc_name for o in outs if o.kind == 'raise']}; expected the entry under '{key}' and RuntimeError when it is missing", key=f"R15.6|swing|{sw}")


def capabilities_rule(prog: Program, rep: Report) -> None:
    """R15.7: what the constructor derives from an IR set, decided by interpreting __init__ and
    _resolve_capabilities on a symbolic set with zero or one wave."""
    ci = prog.cls(f"{REMOTES}:SwitcherBreezeRemote")
    where = f"{loc(ci, ci.node)} SwitcherBreezeRemote.__init__/_resolve_capabilities"
    I = Interp(prog, max_paths=50000, unroll=1)
    st = I.new_state()
    irs = ("sym", "ir_set", "json")
    outs = I.construct(ci, [irs], {}, st, Ctx(None, ci.module, 0), ci.node)
    rets = [o for o in outs if o.kind == "return"]
    if not rets:
        rep.bad("R15.7", "constructor", where, "SwitcherBreezeRemote(ir_set) never returns", key="R15.7|noreturn")
        return
    onoff = ("item", irs, T.seq("s", (("L", "OnOffType"),)))
    setid = ("item", irs, T.seq("s", (("L", "IRSetID"),)))
    special = prog.const(f"{REMOTES}:SPECIAL_SWING_COMMAND_REMOTE_IDS")
    bad_t = bad_s = bad_w = bad_r = None
    und_r: Optional[str] = None
    n_temp = n_wave = 0
    for o in rets:
        ho = o.state.heap[o.value[1]]
        pcs = flat(o.state.pc)
        # toggle type
        is1 = ("cmp", "==", onoff, c(1)) in pcs
        not1 = ("cmp", "!=", onoff, c(1)) in pcs
        tv = ho.fields.get("_on_off_type")
        from ..interp import mkcmp as _mk
        if not ((is1 and tv == c(True)) or (not1 and tv == c(False)) or tv == _mk("==", onoff, c(1))):
            bad_t = f"toggle flag is {T.show(tv) if tv else None} on a path where OnOffType == 1 is {is1} / != 1 is {not1}"
        # separate swing
        sv = ho.fields.get("_separated_swing_command")
        okS = isinstance(sv, tuple) and sv[:3] == ("cmp", "in", setid) and isinstance(sv[3], tuple) and sv[3][0] == "tuple" and {x[2][0][1] for x in sv[3][1] if T.is_seq(x) and x[2]} == set(special)
        if not okS:
            bad_s = f"separate-swing flag is {T.show(sv)[:160] if sv else None}; expected IRSetID in SPECIAL_SWING_COMMAND_REMOTE_IDS"
        if ho.fields.get("_remote_id") != setid:
            bad_s = bad_s or f"remote id is {T.show(ho.fields.get('_remote_id'))[:80]}, not ir_set['IRSetID']"
        # one wave
        waves = [g for g in o.state.pc if isinstance(g, tuple) and g and g[0] == "itercount" and g[2] >= 1]
        if not waves:
            if ho.fields.get("_min_temp") != c(100) or ho.fields.get("_max_temp") != c(-100):
                pass  # sentinels are an implementation choice; nothing to decide without waves
            continue
        n_wave += 1
        wave = ("sym", f"{T.show(waves[0][1])}[0]", ("elemof", waves[0][1]))
        key = ("item", wave, T.seq("s", (("L", "Key"),)))
        stores = [e for e in o.state.events if e.kind == "storeitem" and isinstance(e.result, tuple) and e.result == ho.fields.get("_ir_wave_map")]
        okw = len(stores) == 1 and stores[0].args[0] == key and stores[0].args[1][0] == "obj"
        if okw:
            ent = dict((k[1] if T.is_c(k) else T.show(k), v) for k, v in o.state.heap[stores[0].args[1][1]].items)
            okw = ent == {"Para": ("item", wave, T.seq("s", (("L", "Para"),))), "HexCode": ("item", wave, T.seq("s", (("L", "HexCode"),)))}
        if not okw:
            bad_w = f"wave map after one wave: {[(T.show(e.args[0])[:60], T.show(e.args[1])[:40]) for e in stores]}; expected map[wave['Key']] = {{'Para': wave['Para'], 'HexCode': wave['HexCode']}}"
        # temperature range: both bounds examined independently for every digit temperature
        digit = [g for g in pcs if isinstance(g, tuple) and g[:1] == ("truthy",) and isinstance(g[1], tuple) and g[1][:2] == ("app", ".isdigit")]
        if digit:
            n_temp += 1
            ttxt = digit[0][1][2]
            t = ("app", "int", ttxt)
            mx0, mn0 = None, None
            gmax = [g for g in pcs if isinstance(g, tuple) and g[0] == "cmp" and g[2] == t and T.is_c(g[3]) and g[1] in (">", "<=") and g[3][1] < 0]
            gmin = [g for g in pcs if isinstance(g, tuple) and g[0] == "cmp" and g[2] == t and T.is_c(g[3]) and g[1] in ("<", ">=") and g[3][1] > 0]
            fmax, fmin = ho.fields.get("_max_temp"), ho.fields.get("_min_temp")

            def _ext(v: Any, fn: str, neg_start: bool) -> bool:
                # max(start, t) / min(start, t) with a constant start value: the bound is always updated from t
                return (isinstance(v, tuple) and v[:2] == ("app", fn) and len(v) == 4 and {v[2], v[3]} >= {t}
                        and any(T.is_c(x) and isinstance(x[1], int) and ((x[1] < 0) if neg_start else (x[1] > 0)) for x in (v[2], v[3])))
            if _ext(fmax, "max", True) and _ext(fmin, "min", False):
                pass   # both bounds follow the temperature unconditionally: independent by construction
            elif fmax == t and fmin == t:
                pass   # after the one wave both bounds are its temperature (e.g. the ends of the sorted list of temperatures)
            elif (not gmax and not T.is_c(fmax)) or (not gmin and not T.is_c(fmin)):
                und_r = (f"range after one wave with temperature t: max={T.show(fmax)[:80]} min={T.show(fmin)[:80]} with no comparison of t against a bound on the path: "
                         f"a form this rule does not compare")
            elif not gmax or not gmin:
                bad_r = (f"for a wave with a numeric temperature the {'upper' if not gmax else 'lower'} bound of the range is not examined on a path "
                         f"(guards {[T.show(g)[:60] for g in pcs if isinstance(g, tuple) and g[0] == 'cmp' and g[2] == t]}): a temperature that extends one bound can never extend the other, "
                         f"so the first temperature seen (max starts below min) updates only one of them and the reported range is wrong")
            else:
                up = gmax[0][1] == ">"
                dn = gmin[0][1] == "<"
                if (fmax == t) != up or (fmin == t) != dn or (not up and fmax != gmax[0][3]) or (not dn and fmin != gmin[0][3]):
                    bad_r = f"range after one wave with temperature t: max={T.show(fmax)[:40]} min={T.show(fmin)[:40]} under t>max0={up}, t<min0={dn}"
            if ttxt != ("app", "slice", key, c(2), c(4)):
                bad_r = bad_r or f"temperature is read from {T.show(ttxt)[:80]}, expected characters 2..4 of the wave key"
    rep.check(bad_t is None, "R15.7", "toggle type from OnOffType == 1", where, bad_t or "", key="R15.7|toggle")
    rep.check(bad_s is None, "R15.7", "separate-swing flag from IRSetID membership", where, bad_s or "", key="R15.7|separated")
    if n_wave == 0:
        rep.undecided("R15.7", "wave map", where, "no path with one wave explored")
    else:
        rep.check(bad_w is None, "R15.7", "each wave stored under its key with its own Para/HexCode", where, bad_w or "", key="R15.7|wavemap")
    if n_temp == 0:
        rep.undecided("R15.7", "temperature range", where, "no path with a numeric temperature explored")
    else:
        if bad_r is None and und_r is not None:
            rep.undecided("R15.7", "temperature range: min and max updated independently from key[2:4]", where, und_r)
        else:
            rep.check(bad_r is None, "R15.7", "temperature range: min and max updated independently from key[2:4]", where, bad_r or "", f"{n_temp} paths", key="R15.7|range")


def cache_rule(prog: Program, rep: Report) -> None:
    ci = prog.cls(f"{REMOTES}:SwitcherBreezeRemoteManager")
    fi = ci.find_method("get_remote")
    if fi is None:
        rep.undecided("R15.8", "get_remote", "-", "anchor vanished")
        return
    where = f"{loc(fi, fi.node)} {fi.qualname}"
    rid = ("sym", fi.params[1], "str")

    def remote_stub(I: Interp, args: List[T.Term], kw: Dict[str, T.Term], st: Any, ctx: Ctx, node: Any) -> T.Term:
        return ("app", "SwitcherBreezeRemote") + tuple(args)

    I = Interp(prog, stubs={f"{REMOTES}:SwitcherBreezeRemote": remote_stub})
    st = I.new_state()
    db = st.alloc(HeapObj("dict", None, {}, [], False, "self._remotes_db", False))
    ci.require_attrs(["_remotes_db", "_remotes_db_fpath"], "symbolic remote manager")
    selfv = st.alloc(HeapObj("obj", ci, {"_remotes_db": db, "_remotes_db_fpath": ("sym", "path", "str")}, [], False, "self", False))
    outs = I.run(fi, {fi.params[0]: selfv, fi.params[1]: rid}, st)
    rets = [o for o in outs if o.kind == "return"]
    ok = bool(rets)
    why = "get_remote never returns"
    for o in rets:
        v = o.value
        stores = [e for e in o.state.events if e.kind == "storeitem" and e.target == "self._remotes_db"]
        good = (len(stores) == 1 and stores[0].args[0] == rid and v == stores[0].args[1] and isinstance(v, tuple) and v[:2] == ("app", "SwitcherBreezeRemote")
                and len(v) == 3 and v[2][0] == "item" and v[2][2] == rid)
        if not good:
            ok = False
            why = f"get_remote returns {T.show(v)[:120]} after stores {[(T.show(e.args[0]), T.show(e.args[1])[:60]) for e in stores]}; expected SwitcherBreezeRemote(load(file)[remote_id]) stored under and returned by remote_id"
    rep.check(ok, "R15.8", "get_remote (cold cache)", where, why, key="R15.8|get_remote")
