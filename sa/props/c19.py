"""C19 - device types, categories, classes and ports are mutually consistent (finite tables)."""
from __future__ import annotations

import json
import os
import re
from typing import Any, Dict, List, Set

from .. import terms as T
from ..interp import HeapObj, Interp
from ..model import AnalysisError, EnumRef, Program, loc
from ..report import Report, VERIF
from ..terms import c

LEVEL = "proof"
DEV = "aioswitcher.device"


def accept_set(prog: Program, clsname: str) -> Dict[str, str]:
    """For each DeviceType member: 'accept' / 'reject:<exc>' when constructing class `clsname` with it."""
    ci = prog.cls(f"{DEV}:{clsname}")
    dt = prog.cls(f"{DEV}:DeviceType")
    assert dt.enum is not None
    res: Dict[str, str] = {}
    for m in dt.enum.members:
        I = Interp(prog)
        st = I.new_state()
        args: List[T.Term] = []
        for f in ci.init_params():
            if f.name == "device_type":
                args.append(("enum", EnumRef(dt.key, m)))
            else:
                args.append(I.materialise(("sym", f.name, I.type_of_annotation(f.annotation, ci.module) if f.annotation is not None else "any"), st))
        outs = I.construct(ci, args, {}, st, __import__("sa.interp", fromlist=["Ctx"]).Ctx(None, ci.module, 0), ci.node)
        kinds = {(o.kind, o.exc_name) for o in outs}
        if kinds == {("return", "")}:
            res[m] = "accept"
        elif len(kinds) == 1 and next(iter(kinds))[0] == "raise":
            res[m] = "reject:" + next(iter(kinds))[1]
        else:
            res[m] = "mixed:" + ",".join(sorted(f"{k}{'/' + e if e else ''}" for k, e in kinds))
    return res


def run(prog: Program, rep: Report, tier: str) -> None:
    rep.rule("R19.1", "DeviceType table: every member has a unique 4-hex-digit model code, protocol_type in {1,2}, a DeviceCategory member as category and a distinct value", 9, structural=True)
    rep.rule("R19.2", "each final device class accepts exactly the device types of one category (raises ValueError for all others); class -> category is a bijection onto the categories", 36)
    rep.rule("R19.4", "the two category -> port tables are constants: no statement of the package or the scripts stores / deletes an item, calls pop / popitem / clear / update / setdefault on them or re-binds them", 2, structural=True)
    rep.rule("R19.3", "both port tables cover all categories; all types of a category share one protocol type p; the table value equals the protocol's UDP/TCP port; each API class defaults to its protocol's TCP port", 10, structural=True)
    rep.trusted += ["enum/dataclass semantics of CPython (member tuple -> __new__ parameters, dataclass field order along the MRO)", "spec/ports.json (port numbers from the property statement)"]
    with open(os.path.join(VERIF, "spec", "ports.json")) as fh:
        spec = json.load(fh)
    dt = prog.cls(f"{DEV}:DeviceType")
    cat = prog.cls(f"{DEV}:DeviceCategory")
    if dt.enum is None or cat.enum is None:
        raise AnalysisError("DeviceType / DeviceCategory are no longer enums")
    where = f"{loc(dt, dt.node)} DeviceType"
    for a in ("hex_rep", "protocol_type", "category", "value"):
        if a not in dt.enum.attrs:
            raise AnalysisError(f"DeviceType.{a} is no longer an attribute of the members")
        dt.enum.attr(next(iter(dt.enum.members)), a)      # (raises when the attribute cannot be established, by slot or by interpretation)
    codes: Dict[str, str] = {}
    values: Dict[str, str] = {}
    cats = {("enum", EnumRef(cat.key, m)) for m in cat.enum.members}
    for m in dt.enum.members:
        code = dt.enum.attr(m, "hex_rep")
        ok = isinstance(code, str) and re.fullmatch(r"[0-9a-f]{4}", code) is not None
        rep.check(ok, "R19.1", f"{m} model code format", where, f"model code of {m} is {code!r}, not two bytes of lower-case hex", key=f"R19.1|{m}|code-format")
        if code in codes:
            rep.bad("R19.1", f"{m} model code unique", where, f"{m} and {codes[code]} share model code {code}", key=f"R19.1|{m}|code-unique")
        else:
            rep.ok("R19.1", f"{m} model code unique", where)
            codes[code] = m
        p = dt.enum.attr(m, "protocol_type")
        rep.check(p in (1, 2), "R19.1", f"{m} protocol type", where, f"protocol type of {m} is {p!r}", key=f"R19.1|{m}|protocol")
        cg = dt.enum.attr(m, "category")
        rep.check(isinstance(cg, EnumRef) and ("enum", cg) in cats, "R19.1", f"{m} category", where, f"category of {m} is {cg!r}", key=f"R19.1|{m}|category")
        v = dt.enum.attr(m, "value")
        if v in values:
            rep.bad("R19.1", f"{m} value unique", where, f"{m} and {values[v]} share the value {v!r}", key=f"R19.1|{m}|value-unique")
        else:
            values[v] = m
            rep.ok("R19.1", f"{m} value unique", where)
    # R19.2
    cls_cat: Dict[str, str] = {}
    for clsname, want_cat in spec["class_category"].items():
        ci = prog.cls(f"{DEV}:{clsname}")
        wherec = f"{loc(ci, ci.node)} {clsname}"
        acc = accept_set(prog, clsname)
        for m, verdict in acc.items():
            mc = dt.enum.attr(m, "category").member
            should = mc == want_cat
            if should:
                rep.check(verdict == "accept", "R19.2", f"{clsname}({m})", wherec, f"{clsname} refuses {m} ({verdict}) although its category is {mc}", key=f"R19.2|{clsname}|{m}")
            else:
                rep.check(verdict == "reject:ValueError", "R19.2", f"{clsname}({m})", wherec,
                          f"{clsname} must refuse {m} (category {mc}) with ValueError, analysis gives '{verdict}'", key=f"R19.2|{clsname}|{m}")
        accepted_cats = {dt.enum.attr(m, "category").member for m, v in acc.items() if v == "accept"}
        if len(accepted_cats) == 1:
            cls_cat[clsname] = accepted_cats.pop()
    rep.sample({"class_accepts": {k: v for k, v in cls_cat.items()}})
    rep.check(sorted(cls_cat.values()) == sorted(cat.enum.members), "R19.2", "class->category bijection", where,
              f"device classes cover categories {sorted(cls_cat.values())}, expected each of {sorted(cat.enum.members)} exactly once", key="R19.2|bijection")
    # R19.3
    cat_proto: Dict[str, Set[int]] = {}
    for m in dt.enum.members:
        cat_proto.setdefault(dt.enum.attr(m, "category").member, set()).add(dt.enum.attr(m, "protocol_type"))
    for tbl, kind in (("aioswitcher.api:SWITCHER_DEVICE_TO_TCP_PORT", "tcp"), ("aioswitcher.bridge:SWITCHER_DEVICE_TO_UDP_PORT", "udp")):
        d = prog.const(tbl)
        modname, name = tbl.split(":")
        wheret = f"{prog.module(modname).relpath}:{prog.module(modname).const_nodes[name].lineno} {name}"
        if not isinstance(d, dict):
            raise AnalysisError(f"{tbl} is not a dict literal")
        keys = {k.member for k in d if isinstance(k, EnumRef) and k.cls == cat.key}
        rep.check(keys == set(cat.enum.members) and len(d) == len(keys), "R19.3", f"{name} covers all categories", wheret,
                  f"{name} has keys {sorted(map(str, d))}, expected exactly the categories {sorted(cat.enum.members)}", key=f"R19.3|{name}|keys")
        for cm in cat.enum.members:
            protos = cat_proto.get(cm, set())
            if len(protos) != 1:
                rep.bad("R19.3", f"{name}[{cm}]", wheret, f"device types of category {cm} use protocol types {sorted(protos)}; a category must map to one port", key=f"R19.3|{name}|{cm}|proto")
                continue
            p = next(iter(protos))
            got = d.get(EnumRef(cat.key, cm))
            want = spec[str(p)][kind]
            rep.check(got == want, "R19.3", f"{name}[{cm}]", wheret, f"{kind.upper()} port for {cm} (protocol type {p}) is {got}, expected {want}", key=f"R19.3|{name}|{cm}")
    # R19.4 the tables are constants of the program: nothing removes, adds or replaces an entry at run time
    import ast as _ast
    MUT = {"pop", "popitem", "clear", "update", "setdefault", "__setitem__", "__delitem__"}
    for tbl in ("aioswitcher.api:SWITCHER_DEVICE_TO_TCP_PORT", "aioswitcher.bridge:SWITCHER_DEVICE_TO_UDP_PORT"):
        modname, name = tbl.split(":")
        n_sites = 0
        for m_ in prog.all_modules(True):
            aliases = {name} if m_.name == modname else {k for k, v in getattr(m_, "imports", {}).items() if v == (modname, name)}
            def is_tbl(e: Any) -> bool:
                return (isinstance(e, _ast.Name) and e.id in aliases) or (isinstance(e, _ast.Attribute) and e.attr == name)
            for nd in _ast.walk(m_.tree):
                hit = None
                if isinstance(nd, (_ast.Assign, _ast.Delete)) and any(isinstance(t, _ast.Subscript) and is_tbl(t.value) for t in nd.targets):
                    hit = "an item is stored / deleted"
                elif isinstance(nd, _ast.AugAssign) and (is_tbl(nd.target) or (isinstance(nd.target, _ast.Subscript) and is_tbl(nd.target.value))):
                    hit = "augmented assignment"
                elif isinstance(nd, _ast.Call) and isinstance(nd.func, _ast.Attribute) and nd.func.attr in MUT and is_tbl(nd.func.value):
                    hit = f".{nd.func.attr}() is called on it"
                elif isinstance(nd, _ast.Assign) and m_.name != modname and any(isinstance(t, _ast.Attribute) and t.attr == name for t in nd.targets):
                    hit = "the module attribute is re-bound"
                if hit:
                    n_sites += 1
                    rep.bad("R19.4", f"{name} mutated", f"{m_.relpath}:{nd.lineno}", f"{name} is changed at run time ({hit}: `{_ast.unparse(nd)[:70]}`): the category -> port mapping then depends on what ran before - "
                            f"an entry removed by one call is missing for the next device of that category", key=f"R19.4|{name}|{m_.relpath}")
        if n_sites == 0:
            rep.ok("R19.4", f"{name} is never mutated", f"{prog.module(modname).relpath} {name}", "no item store / delete, mutator call or re-binding anywhere in the package and scripts")
    for api, p in spec["api_class_protocol"].items():
        ci = prog.cls(f"aioswitcher.api:{api}")
        I = Interp(prog)
        st = I.new_state()
        from ..interp import Ctx
        outs = I.construct(ci, [("sym", "ip", "str"), ("sym", "id", "str"), ("sym", "key", "str")], {}, st, Ctx(None, ci.module, 0), ci.node)
        ports = set()
        for o in outs:
            if o.kind == "return":
                ports.add(o.state.heap[o.value[1]].fields.get("_port"))
        want = c(spec[str(p)]["tcp"])
        rep.check(ports == {want}, "R19.3", f"{api} default port", f"{loc(ci, ci.node)} {api}", f"{api} connects to port {[T.show(x) for x in ports]}, expected {want[1]}", key=f"R19.3|{api}|port")
    rep.analysed["functions"] = [f"{DEV}:{k}.__post_init__" for k in spec["class_category"]] + ["aioswitcher.api:SwitcherType1Api.__init__", "aioswitcher.api:SwitcherType2Api.__init__"]
    rep.analysed["tables"] = {"DeviceType": len(dt.enum.members), "DeviceCategory": len(cat.enum.members)}
