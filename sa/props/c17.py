"""C17 - the bridge listens exactly while running and leaves nothing behind (structural clauses)."""
from __future__ import annotations

import ast
from typing import Any, Dict, List, Optional, Set, Tuple

from .. import bridge_model as B
from .. import terms as T
from ..interp import Event, Outcome, conj
from ..model import AnalysisError, Program, loc
from ..report import Report
from ..terms import c

LEVEL = "other"


def iter_count(o: Outcome) -> Optional[int]:
    for g in o.state.pc:
        if isinstance(g, tuple) and g and g[0] == "itercount":
            return g[2]
    return None


def _anchors(prog: Program) -> None:
    prog.func("aioswitcher.bridge:_parse_device_from_datagram")          # AnalysisError "anchor vanished" if renamed
    prog.cls("aioswitcher.bridge:UdpClientProtocol").require_attrs(["_on_datagram"], "protocol handler attribute")


def run(prog: Program, rep: Report, tier: str) -> None:
    _anchors(prog)
    rep.rule("R17.1", "every endpoint is registered: the transport returned by each create_datagram_endpoint is stored in self._transports under that iteration's port before the next endpoint is created, and the endpoint is bound to that port", 2)
    rep.rule("R17.2", "stop releases every registered endpoint: for each configured port it looks the transport up and closes it unless missing/closing; stop cannot raise (safe before start and when repeated)", 3)
    rep.rule("R17.3", "flag discipline: _is_running is stored only in __init__ (False), start (True, after the whole port loop, never on a raising exit) and stop (False, after the closing loop); is_running returns it", 5)
    rep.rule("R17.4", "acquire/rollback pairing: when binding a later port raises, every transport acquired earlier in this start() is closed (or stop() runs) before the exception leaves, and the flag does not end up True", 1)
    rep.rule("R17.6", "exclusive bind: no endpoint is created with reuse_port / reuse_address (or an already bound socket), so binding a port that is in use - including by this very bridge on a repeated start - fails instead of orphaning the registered transport", 1)
    rep.rule("R17.7", "restart: start() on an instance whose _transports holds whatever an earlier start/stop cycle left (stop closes the transports but keeps the entries) still creates and registers an endpoint "
                      "for every configured port on each returning path - what is already registered never makes start skip a port, or the bridge would report running while listening on fewer ports", 1)
    rep.rule("R17.8", "endpoints are not acquired under a plain asyncio.gather: gather(...) without return_exceptions=True re-raises the first failing bind at once while the sibling binds are still in flight, "
                      "so the roll-back runs before they have registered their transports and those ports stay bound (structural, conditional)", 0, structural=True)
    rep.rule("R17.5", "context manager pairs: __aenter__ awaits start and returns self; __aexit__ awaits stop unconditionally and returns a falsy value", 2)
    rep.explanation = (
        "Decides structural necessary conditions on every path of start/stop/__aenter__/__aexit__ (port loop unrolled 0,1,2 times with symbolic ports): registration of each endpoint, "
        "release of every registered endpoint, the running flag's writers and their position, rollback on a failed bind, context-manager pairing. "
        "NOT decided: that transport.close() unregisters the reader immediately, frees the port one loop cycle later and that no callback follows (asyncio behaviour, trusted); real bind behaviour."
    )
    rep.assumptions += ["the configured broadcast ports are pairwise distinct"]
    rep.trusted += ["asyncio: create_datagram_endpoint raises OSError when the address is in use; _SelectorTransport.close removes the reader synchronously; `async with` does not call __aexit__ when __aenter__ raises"]
    ci = prog.cls("aioswitcher.bridge:SwitcherBridge")
    funcs: Set[str] = set()
    concurrent_bind_rule(prog, rep)
    # ---- start
    I, outs, fi = B.run_bridge_method(prog, "start", fresh_instance=True)
    funcs |= set(I.functions_visited)
    where = f"{loc(fi, fi.node)} {fi.qualname}"
    rets = [o for o in outs if o.kind == "return"]
    raises = [o for o in outs if o.kind == "raise"]
    bad1 = None
    for o in rets:
        k = iter_count(o)
        cde = B.ev_calls(o, ".create_datagram_endpoint")
        stores = [e for e in o.state.events if e.kind == "storeitem" and e.target == "self._transports"]
        if k is None or len(cde) != min(k, 2) or len(stores) != len(cde):
            bad1 = f"path with {k} port(s): {len(cde)} endpoints created, {len(stores)} registered"
            continue
        evs = [e for e in o.state.events if e in cde or e in stores]
        for i in range(len(cde)):
            ce, se = evs[2 * i], evs[2 * i + 1]
            port = ("sym", f"ports[{i}]", ("distinct", ("int", 1, 65535), "ports"))
            tr = ce.result[1][0] if isinstance(ce.result, tuple) and ce.result[0] == "tuple" else None
            la = dict(ce.kwargs).get("local_addr")
            if ce.kind != "call" or se.kind != "storeitem" or se.args != (port, tr):
                bad1 = f"iteration {i}: transport {T.show(tr)} of the endpoint is not stored as self._transports[port {i}] right after creation (stored: {[T.show(a)[:40] for a in se.args]})"
            if not (isinstance(la, tuple) and la[0] == "tuple" and la[1][-1] == port):
                bad1 = f"iteration {i}: endpoint is bound to {T.show(la)[:80]}, not to this iteration's port"
            if not ce.awaited:
                bad1 = f"iteration {i}: create_datagram_endpoint is not awaited"
    rep.check(bad1 is None and len(rets) >= 3, "R17.1", "start registers every endpoint", where, bad1 or f"only {len(rets)} returning paths explored", key="R17.1|start")
    # ---- R17.7: the same count on an instance with history (unknown content of _transports); shared with C07 R7.7
    try:
        bad7, n7, funcs7 = B.restart_check(prog, iter_count, _flat)
        funcs |= funcs7
        rep.check(bad7 is None and n7 >= 3, "R17.7", "restart binds every port", where, bad7 or f"only {n7} returning paths explored", key="R17.7|restart")
    except AnalysisError as e7:
        rep.undecided("R17.7", "restart binds every port", where, f"start() on an instance with history is not analysable: {e7}")
    bad6 = None
    n6 = 0
    for o in outs:
        for ce in B.ev_calls(o, ".create_datagram_endpoint"):
            n6 += 1
            kw = dict(ce.kwargs)
            for opt in ("reuse_port", "reuse_address", "sock"):
                if opt in kw and not (T.is_c(kw[opt]) and not kw[opt][1]):
                    bad6 = (f"create_datagram_endpoint is called with {opt}={T.show(kw[opt])}: binding a port that is already in use no longer fails, so a second start() (or another process) "
                            f"silently shares the port, the earlier transport registered for it is overwritten and never closed by stop()")
    rep.check(bad6 is None and n6 > 0, "R17.6", "exclusive bind", where, bad6 or "no endpoint creation explored", key="R17.6|start|reuse")
    # protocol per port with the same user callback (shared with C07/R7.4)
    und_p = None
    bad_p = None
    for o in rets:
        cde = B.ev_calls(o, ".create_datagram_endpoint")
        protos = []
        for ce in cde:
            fac = ce.args[0] if ce.args else None
            prod = B.factory_product(I, o, fac)
            if prod is None:
                bad_p = f"what the protocol factory {T.show(fac)[:60] if fac else None} returns could not be established (it must produce a UdpClientProtocol per port)"
                continue
            ho, oid_, fresh_ = prod
            od = ho.fields.get("_on_datagram")
            hb_ = B.handler_is_builder_bound_to_callback(od) if (ho.cls is not None and ho.cls.name == "UdpClientProtocol") else False
            if hb_ is False:
                bad_p = f"protocol's datagram handler is {T.show(od)[:80]}: it does not run _parse_device_from_datagram with self._on_device when the datagram arrives (bound to something else, or handed to a scheduling primitive of the event loop)"
            elif hb_ is None:
                und_p = f"protocol's datagram handler is {T.show(od)[:80]}: a form this rule does not judge"
            if not fresh_:
                protos.append(oid_)
        if len(set(protos)) != len(protos):
            bad_p = "the same protocol object is shared by several ports"
    if bad_p is None and und_p is not None:
        rep.undecided("R17.1", "one protocol per port bound to the user callback", where, und_p)
    else:
        rep.check(bad_p is None, "R17.1", "one protocol per port bound to the user callback", where, bad_p or "", key="R17.1|protocol")
    # ---- R17.4 rollback
    bad4 = None
    n_checked = 0
    for o in raises:
        cde = B.ev_calls(o, ".create_datagram_endpoint")
        if o.exc_name not in ("OSError", "asyncio.CancelledError", "CancelledError"):
            continue
        acquired = [ce.result[1][0] for ce in cde if isinstance(ce.result, tuple) and ce.result[0] == "tuple"]
        # the failing call itself left no event (it raised); earlier ones did
        if not acquired:
            continue
        n_checked += 1
        closed = set()
        closing = set()
        for e in o.state.events:
            if e.kind == "call" and e.target.endswith(".close"):
                closed.add(e.target[: -len(".close")])
            if e.kind == "call" and e.target.endswith(".is_closing") and ("truthy", e.result) in _flat(o.state.pc):
                closing.add(e.target[: -len(".is_closing")])
        for tr in acquired:
            if not (T.show(tr) in closed or T.show(tr) in closing):
                bad4 = (f"start() binds the configured ports one after another; when binding a later port raises {o.exc_name} ({'address in use' if o.exc_name == 'OSError' else 'the task is cancelled - not an Exception, let alone an OSError'}), the transport {T.show(tr)} "
                        f"acquired for an earlier port is neither closed nor is stop() run before the exception leaves start(): the earlier ports stay bound although start failed "
                        f"(`async with` does not call __aexit__ when __aenter__ raises)")
        flag_true = [e for e in o.state.events if e.kind == "store" and e.target == "self._is_running" and e.args == (c(True),)]
        last_flag = [e for e in o.state.events if e.kind == "store" and e.target == "self._is_running"]
        if last_flag and last_flag[-1].args == (c(True),):
            bad4 = bad4 or "the running flag is True when start() raises"
    if n_checked == 0:
        rep.undecided("R17.4", "rollback on failed bind", where, "no raising path with an earlier acquired transport was explored")
    else:
        rep.check(bad4 is None, "R17.4", "rollback on failed bind", where, bad4 or "", f"{n_checked} failing-bind path(s): earlier transports are released", key="R17.4|start|leak")
    # ---- stop
    I2, souts, sfi = B.run_bridge_method(prog, "stop")
    funcs |= set(I2.functions_visited)
    swhere = f"{loc(sfi, sfi.node)} {sfi.qualname}"
    rep.check(all(o.kind == "return" for o in souts), "R17.2", "stop cannot raise", swhere, f"stop may raise {sorted({o.exc_name for o in souts if o.kind == 'raise'})}", key="R17.2|raise")
    bad2 = None
    for o in souts:
        k = iter_count(o)
        gets = [e for e in o.state.events if e.kind == "call" and e.target == "self._transports.get"]
        if k is None or len(gets) != min(k, 2):
            bad2 = f"path with {k} port(s) looks up {len(gets)} transports"
            continue
        for i, ge in enumerate(gets):
            if ge.args[:1] != (("sym", f"ports[{i}]", ("distinct", ("int", 1, 65535), "ports")),):
                bad2 = f"iteration {i} looks up {T.show(ge.args[0]) if ge.args else None}, not the configured port"
            tr = ge.result
            name = T.show(tr)
            closes = [e for e in o.state.events if e.kind == "call" and e.target == f"{name}.close"]
            truthy = ("truthy", tr) in _flat(o.state.pc)
            isclosing = [e for e in o.state.events if e.kind == "call" and e.target == f"{name}.is_closing"]
            notclosing = any(("not", ("truthy", e.result)) in _flat(o.state.pc) for e in isclosing)
            should_close = truthy and notclosing
            if should_close != (len(closes) == 1):
                bad2 = f"iteration {i}: transport present={truthy}, not closing={notclosing}, but close() called {len(closes)} time(s)"
    rep.check(bad2 is None, "R17.2", "stop closes every registered, open transport of every configured port", swhere, bad2 or "", key="R17.2|stop")
    # the collection whose length bounds the loops of start and of stop (from the interpreted paths, so helper
    # generators, zip(...) and local aliases are seen through): both must be the configured ports
    ports_sym = ("sym", "ports", ("list", ("int", 1, 65535), "distinct"))

    def _roots(os_: List[Outcome]) -> Set[Any]:
        return {g[1] for o_ in os_ for g in o_.state.pc if isinstance(g, tuple) and g and g[0] in ("itercount", "iterge")}

    r_start, r_stop = _roots(outs), _roots(souts)
    if r_start == r_stop == {ports_sym}:
        rep.ok("R17.2", "stop iterates the ports start bound", swhere)
    elif r_start and r_stop and all(isinstance(x, tuple) and x[:1] == ("sym",) for x in r_start | r_stop):
        rep.bad("R17.2", "stop iterates the ports start bound", swhere, f"start iterates {[T.show(x)[:60] for x in r_start]}, stop iterates {[T.show(x)[:60] for x in r_stop]}; both must walk self._broadcast_ports", key="R17.2|ports")
    else:
        rep.undecided("R17.2", "stop iterates the ports start bound", swhere, f"the loops of start / stop are bounded by {[T.show(x)[:80] for x in r_start | r_stop]}, which this rule cannot relate to the configured ports")
    # ---- R17.3 flag discipline
    writers: Dict[str, List[Any]] = {}
    for m in prog.all_modules(True):
        for f in m.all_functions():
            for node in ast.walk(f.node):
                tg: List[ast.AST] = []
                if isinstance(node, ast.Assign):
                    tg = list(node.targets)
                elif isinstance(node, (ast.AugAssign, ast.AnnAssign)):
                    tg = [node.target]
                for t in tg:
                    for sub in ast.walk(t):
                        if isinstance(sub, ast.Attribute) and sub.attr == "_is_running":
                            writers.setdefault(f.key, []).append(getattr(node, "value", None))
    allowed = {"aioswitcher.bridge:SwitcherBridge.__init__": False, "aioswitcher.bridge:SwitcherBridge.start": True, "aioswitcher.bridge:SwitcherBridge.stop": False}
    for k, vals in writers.items():
        ok = k in allowed and all(isinstance(v, ast.Constant) and v.value is allowed[k] for v in vals)
        rep.check(ok, "R17.3", f"writer {k.split(':')[1]}", k, f"{k} stores _is_running = {[ast.unparse(v) if v is not None else None for v in vals]}; only __init__(False), start(True), stop(False) may write the flag", key=f"R17.3|writer|{k}")
    for k in allowed:
        if k not in writers:
            rep.bad("R17.3", f"writer {k.split(':')[1]}", k, "expected store of _is_running is missing", key=f"R17.3|missing|{k}")
    bad3 = None
    for o in rets:
        evs = [e for e in o.state.events if e.kind in ("call", "store", "storeitem") and not e.target.startswith("logger.")]
        flags = [i for i, e in enumerate(evs) if e.kind == "store" and e.target == "self._is_running"]
        if flags != [len(evs) - 1] or evs[-1].args != (c(True),):
            bad3 = "start does not set the flag to True exactly once, after the last endpoint was created and registered"
    for o in raises:
        fl = [e for e in o.state.events if e.kind == "store" and e.target == "self._is_running"]
        if fl and fl[-1].args == (c(True),):
            bad3 = "start leaves the flag True on a raising exit"
    rep.check(bad3 is None, "R17.3", "start sets the flag last", where, bad3 or "", key="R17.3|start-order")
    bad3b = None
    for o in souts:
        evs = [e for e in o.state.events if e.kind in ("call", "store", "storeitem") and not e.target.startswith("logger.")]
        flags = [i for i, e in enumerate(evs) if e.kind == "store" and e.target == "self._is_running"]
        if flags != [len(evs) - 1] or evs[-1].args != (c(False),):
            bad3b = "stop does not clear the flag exactly once after the closing loop"
    rep.check(bad3b is None, "R17.3", "stop clears the flag last", swhere, bad3b or "", key="R17.3|stop-order")
    prop = ci.properties.get("is_running")
    if prop is None:
        rep.undecided("R17.3", "is_running", "-", "anchor vanished: is_running property")
    else:
        from .c18 import property_returns_field
        ok = property_returns_field(prog, ci, prop, "_is_running")
        rep.check(ok, "R17.3", "is_running reads the flag", f"{loc(prop, prop.node)} is_running", "the is_running property does not return the value of self._is_running on every path", key="R17.3|property")
    # ---- R17.5 context manager
    I3, eouts, efi = B.run_bridge_method(prog, "__aenter__", fresh_instance=True)
    ewhere = f"{loc(efi, efi.node)} {efi.qualname}"
    # (the SET of traces: how many abstract paths share one trace depends on where the interpreter happens to split cases)
    sig = lambda os_: sorted({(o.kind, o.exc_name, tuple((e.kind, e.target) for e in o.state.events if not e.target.startswith("logger."))) for o in os_})  # noqa: E731
    ok5 = sig(eouts) == sig(outs) and all(o.value[0] == "obj" and o.state.heap[o.value[1]].name == "self" for o in eouts if o.kind == "return")
    rep.check(ok5, "R17.5", "__aenter__", ewhere, "__aenter__ does not (only) await start() and return self", key="R17.5|aenter")
    I4, xouts, xfi = B.run_bridge_method(prog, "__aexit__")
    xwhere = f"{loc(xfi, xfi.node)} {xfi.qualname}"
    ok6 = sig(xouts) == sig(souts) and all(o.kind == "return" and T.is_c(o.value) and not o.value[1] for o in xouts)
    rep.check(ok6, "R17.5", "__aexit__", xwhere, "__aexit__ does not unconditionally await stop() and return a falsy value (it may skip the release or swallow the body's exception)", key="R17.5|aexit")
    rep.analysed["functions"] = sorted(funcs)
    rep.analysed["paths"] = {"start": len(outs), "stop": len(souts), "__aenter__": len(eouts), "__aexit__": len(xouts)}
    rep.sample({"start_paths": [(o.kind, o.exc_name, [f"{e.kind}:{e.target}" for e in o.state.events if not e.target.startswith("logger.") and not e.target.startswith("<")]) for o in outs]})


def _flat(pc: List[T.Term]) -> List[T.Term]:
    out: List[T.Term] = []
    for g in pc:
        if isinstance(g, tuple) and g and g[0] == "and":
            out.extend(g[1:])
        else:
            out.append(g)
    return out


def _iter_sources(fn: ast.AST) -> Set[str]:
    return {ast.unparse(n.iter) for n in ast.walk(fn) if isinstance(n, (ast.For, ast.AsyncFor))}


def concurrent_bind_rule(prog: Program, rep: Report) -> None:
    """R17.8: `gather(...)` (no return_exceptions=True) over coroutines of the bridge module that create datagram endpoints."""
    mod = prog.module("aioswitcher.bridge")
    byname = {fi.qualname.split(".")[-1]: fi for fi in mod.all_functions()}

    def binds(fi: Any, depth: int = 0) -> bool:
        for n in ast.walk(fi.node):
            if isinstance(n, ast.Call):
                f = n.func
                nm = f.attr if isinstance(f, ast.Attribute) else f.id if isinstance(f, ast.Name) else ""
                if nm == "create_datagram_endpoint":
                    return True
                if depth < 2 and nm in byname and byname[nm] is not fi and binds(byname[nm], depth + 1):
                    return True
        return False

    for fi in mod.all_functions():
        for n in ast.walk(fi.node):
            if not isinstance(n, ast.Call):
                continue
            f = n.func
            nm = f.attr if isinstance(f, ast.Attribute) else f.id if isinstance(f, ast.Name) else ""
            if nm != "gather":
                continue
            if any(k.arg == "return_exceptions" and isinstance(k.value, ast.Constant) and k.value.value is True for k in n.keywords):
                continue
            names = {x.attr if isinstance(x, ast.Attribute) else x.id for a in n.args for x in ast.walk(a) if isinstance(x, (ast.Attribute, ast.Name))}
            binders = sorted(nm2 for nm2 in names if nm2 in byname and byname[nm2].is_async and binds(byname[nm2]))
            if binders:
                rep.bad("R17.8", f"{fi.qualname}: gather over {binders}", f"{mod.relpath}:{n.lineno} {fi.qualname}",
                        f"`{ast.unparse(n)[:90]}` binds the ports concurrently: when one bind fails gather raises immediately and the others keep running, so a roll-back in the caller "
                        f"(stop()) runs before they have stored their transports - start() raises but ports stay bound and keep delivering", key=f"R17.8|{fi.qualname}")
