"""C07 - the bridge delivers each valid broadcast once, in order, whatever else arrives (structural clauses)."""
from __future__ import annotations

import ast
from typing import Any, Dict, List, Optional, Set, Tuple

from .. import bridge_model as B
from .. import terms as T
from ..interp import Ctx, HeapObj, Interp, Outcome, conj
from ..model import AnalysisError, Program, loc
from ..report import Report
from ..terms import c

LEVEL = "other"
DEFER = ("create_task", "ensure_future", "run_in_executor", "call_soon", "call_later", "call_soon_threadsafe", "to_thread", "run_coroutine_threadsafe")
CLOSERS = ("close", "abort")


def late_bound_handlers(prog: Program) -> List[str]:
    """Structural: a lambda / nested def created inside a loop of the bridge module and handed to the event loop
    as the datagram handler (it sits in the argument list of the UdpClientProtocol constructor) reads a
    variable the loop re-assigns.  Python closures hold the variable, not its value: the event loop calls the
    handler after the loop has moved on, so every handler sees the value of the last iteration."""
    out: List[str] = []
    bm = prog.module("aioswitcher.bridge")
    for fi in bm.all_functions():
        for loop in ast.walk(fi.node):
            if not isinstance(loop, (ast.For, ast.AsyncFor, ast.While)):
                continue
            loopvars: Set[str] = set()
            for n in ast.walk(loop):
                if isinstance(n, ast.Name) and isinstance(n.ctx, ast.Store):
                    loopvars.add(n.id)
            for call in ast.walk(loop):
                # (the protocol *factory* given to an awaited create_datagram_endpoint is called before the loop moves on;
                #  the datagram *handler* given to the protocol is called whenever a datagram arrives)
                if not (isinstance(call, ast.Call) and ast.unparse(call.func).split(".")[-1] == "UdpClientProtocol"):
                    continue
                for arg in list(call.args) + [k.value for k in call.keywords]:
                    for lam in ast.walk(arg):
                        if not isinstance(lam, ast.Lambda):
                            continue
                        own = {a.arg for a in lam.args.args + lam.args.kwonlyargs + lam.args.posonlyargs} | ({lam.args.vararg.arg} if lam.args.vararg else set()) | ({lam.args.kwarg.arg} if lam.args.kwarg else set())
                        inner_own = {a.arg for l2 in ast.walk(lam.body) if isinstance(l2, ast.Lambda) for a in l2.args.args}
                        free = {n.id for n in ast.walk(lam.body) if isinstance(n, ast.Name) and isinstance(n.ctx, ast.Load)} - own - inner_own
                        late = sorted(free & loopvars)
                        # a lambda that only builds a fresh protocol from names the loop does not touch is fine
                        if late:
                            out.append(f"{fi.qualname}:{lam.lineno} `{ast.unparse(lam)[:70]}` reads {late}, re-assigned by the loop at line {loop.lineno}")
    return sorted(set(out))


def module_state_on_receive_path(prog: Program) -> List[str]:
    """Structural (no interpretation needed): functions reachable by name from the datagram builder and the protocol's
    methods - through calls to functions of the bridge module and of the modules it imports from the package - that
    declare a global, or store into / delete from / call a mutator on a module-level name of their module."""
    from .c03 import MUTATORS
    start = [prog.func("aioswitcher.bridge:_parse_device_from_datagram")] + list(prog.cls("aioswitcher.bridge:UdpClientProtocol").methods.values())
    seen: Dict[str, Any] = {}
    work = list(start)
    while work and len(seen) < 200:
        f = work.pop()
        if f.key in seen:
            continue
        seen[f.key] = f
        for n in ast.walk(f.node):
            if isinstance(n, ast.Call):
                try:
                    r = prog.resolve_expr(f.module, n.func)
                except Exception:  # noqa: BLE001
                    r = None
                if r and r[0] == "func":
                    work.append(r[1])
                elif r and r[0] == "class":
                    work.extend(m_ for nm_, m_ in r[1].methods.items() if nm_ in ("__init__", "__post_init__", "__new__"))
                elif isinstance(n.func, ast.Attribute):
                    # a method call on something: every method of that name in the bridge module's classes
                    for ci_ in f.module.classes.values():
                        if n.func.attr in ci_.methods:
                            work.append(ci_.methods[n.func.attr])
    out: List[str] = []
    for f in seen.values():
        mod_names = set(f.module.constants)
        local = set(f.params)
        for n in ast.walk(f.node):
            if isinstance(n, (ast.Assign, ast.AnnAssign, ast.For, ast.NamedExpr, ast.With)):
                for t in (n.targets if isinstance(n, ast.Assign) else [getattr(n, "target", None)]):
                    for sub in (ast.walk(t) if t is not None else []):
                        if isinstance(sub, ast.Name) and isinstance(sub.ctx, ast.Store):
                            local.add(sub.id)
        for n in ast.walk(f.node):
            if isinstance(n, ast.Global):
                out.append(f"{f.qualname}:{n.lineno} declares `{ast.unparse(n)}`")
                local -= set(n.names)
        for n in ast.walk(f.node):
            root = None
            what = ""
            if isinstance(n, ast.Call) and isinstance(n.func, ast.Attribute) and n.func.attr in MUTATORS:
                root, what = n.func.value, "mutates"
            elif isinstance(n, (ast.Assign, ast.AugAssign, ast.Delete)):
                for t in (n.targets if isinstance(n, (ast.Assign, ast.Delete)) else [n.target]):
                    if isinstance(t, ast.Subscript):
                        root, what = t.value, "stores into"
            while isinstance(root, (ast.Attribute, ast.Subscript)):
                root = root.value
            if isinstance(root, ast.Name) and root.id in mod_names and root.id not in local:
                out.append(f"{f.qualname}:{n.lineno} {what} the module-level {root.id}: `{ast.unparse(n)[:60]}`")
    return sorted(set(out))


def receive_path_state(prog: Program, pouts: List[Outcome]) -> List[str]:
    """What survives a call of the datagram builder: stores on objects that outlive the call, `global`
    declarations, and mutating calls on module-level containers (AST sweep of the builder, the protocol and the
    parser).  Shared by C06 (each frame is treated on its own) and C07 R7.2."""
    from .c03 import MUTATORS
    out: List[str] = []
    for o in pouts:
        for e in o.state.events:
            if e.kind == "global":
                out.append(f"the builder declares global {e.target}")
            if e.kind in ("store", "storeitem"):
                base = e.result
                fresh = isinstance(base, tuple) and base and base[0] == "obj" and o.state.heap[base[1]].fresh
                if not fresh:
                    out.append(f"the builder stores {e.target} at {e.where.split(' ')[0]}, an object that outlives the call")
    bm = prog.module("aioswitcher.bridge")
    mod_names = set(bm.constants)
    pfi = prog.func("aioswitcher.bridge:_parse_device_from_datagram")
    ci = prog.cls("aioswitcher.bridge:UdpClientProtocol")
    for f in [pfi] + list(ci.methods.values()) + list(prog.cls("aioswitcher.bridge:DatagramParser").methods.values()):
        for n in ast.walk(f.node):
            if isinstance(n, ast.Call) and isinstance(n.func, ast.Attribute) and n.func.attr in MUTATORS:
                root = n.func.value
                while isinstance(root, (ast.Attribute, ast.Subscript)):
                    root = root.value
                if isinstance(root, ast.Name) and root.id in mod_names:
                    out.append(f"{f.qualname}:{n.lineno} mutates the module-level {root.id}: `{ast.unparse(n)[:60]}`")
            if isinstance(n, (ast.Assign, ast.AugAssign)):
                for t in (n.targets if isinstance(n, ast.Assign) else [n.target]):
                    if isinstance(t, ast.Subscript):
                        root = t.value
                        while isinstance(root, (ast.Attribute, ast.Subscript)):
                            root = root.value
                        if isinstance(root, ast.Name) and root.id in mod_names:
                            out.append(f"{f.qualname}:{n.lineno} stores into the module-level {root.id}: `{ast.unparse(n)[:60]}`")
    return sorted(set(out))


def run(prog: Program, rep: Report, tier: str) -> None:
    rep.rule("R7.1", "exactly one hand-off per datagram: every path of datagram_received calls self._on_datagram exactly once with the received bytes, synchronously (no task/executor/call_soon), and the builder makes at most one callback per datagram", 3)
    rep.rule("R7.2", "no memory between datagrams: nothing reachable from datagram_received stores to the protocol, the bridge, a module or any object that outlives the call (only fields of freshly built objects are written)", 2)
    rep.rule("R7.3", "receiving never stops the listener: no transport close/abort and no bridge stop is reachable from datagram_received/error_received/connection_lost; the only transport close in the package is SwitcherBridge.stop; no try/except around the hand-off turns an error into a shutdown", 3)
    rep.rule("R7.5", "every valid broadcast is delivered: for each device type with a not-ON normalisation, the not-ON paths of the builder reach the callback without examining the bytes of the fields that are reported as zero in that state (junk there is still a valid broadcast)", 6)
    rep.rule("R7.6", "no deferred delivery loop that one error can end: if a coroutine of the bridge module is scheduled as a task (create_task / ensure_future) and calls the device builder or the user's callback "
                     "inside a loop, the call is enclosed - inside that loop - by a try whose handler catches Exception; otherwise one corrupted datagram or raising callback ends the task and every later delivery, on all ports, is lost", 0, structural=True)
    rep.rule("R7.7", "a restarted bridge listens again: start() on an instance that has been started and stopped before (stop keeps the closed transports registered) creates an endpoint for every port, "
                     "so broadcasts are delivered after a restart as well (shares its analysis with C17 R17.7)", 1)
    rep.rule("R7.8", "structural: no function reachable from the datagram builder or the protocol's methods declares a global or mutates / stores into a module-level name (memory between datagrams, whatever the analysis of the values can follow)", 1, structural=True)
    ms_ = module_state_on_receive_path(prog)
    rep.check(not ms_, "R7.8", "no module-level state on the receive path", "src/aioswitcher/bridge.py", f"{ms_[:3]}: what is delivered for a datagram depends on the datagrams seen before it", key="R7.8|module-state")
    rep.rule("R7.9", "structural: no handler / protocol factory handed to the event loop inside a loop is a closure over a variable that loop re-assigns (late binding: every port's handler would see the last port's value)", 1, structural=True)
    lb_ = late_bound_handlers(prog)
    rep.check(not lb_, "R7.9", "handlers do not close over loop variables", "src/aioswitcher/bridge.py", f"{lb_[:2]}: the handler runs after the loop has finished, so on every port it works with the value of the last iteration - "
              f"broadcasts are judged (and here dropped) by a port they did not arrive on", key="R7.9|late-binding")
    from ..api_model import gate_premise
    gate_premise(prog, rep)          # (after the structural rules: what they found stands even if the gate analysis stops)
    rep.rule("R7.4", "one protocol object and one transport per port, each bound to partial(_parse_device_from_datagram, <the user's callback>)", 1)
    rep.explanation = (
        "Decides four structural necessary conditions (one synchronous hand-off per datagram; no state carried between datagrams; nothing on the receive path closes a transport; "
        "one protocol+transport per port bound to the user callback). NOT decided, by nature: arrival order per port and independence across ports are properties of the kernel socket "
        "queue and asyncio's selector loop; that a raising callback does not stop later deliveries relies on asyncio invoking datagram_received outside its fatal-error handler "
        "(selector_events._SelectorDatagramTransport._read_ready) - read and trusted, not derivable from this repository's source."
    )
    rep.trusted += ["asyncio _SelectorDatagramTransport._read_ready calls protocol.datagram_received outside its try/except; an exception there goes to the loop's exception handler and the transport keeps reading",
                    "C05 R5.4 / C06: exactly one callback per accepted datagram, none for rejected ones"]
    ci = prog.cls("aioswitcher.bridge:UdpClientProtocol")
    funcs: Set[str] = set()
    consumer_loop_rule(prog, rep)
    # ---- R7.1
    fi = ci.find_method("datagram_received")
    if fi is None:
        raise AnalysisError("anchor vanished: UdpClientProtocol.datagram_received")
    where = f"{loc(fi, fi.node)} {fi.qualname}"
    I = Interp(prog)
    st = I.new_state()
    ci.require_attrs(["_on_datagram", "transport"], "symbolic protocol object")
    selfv = st.alloc(HeapObj("obj", ci, {"_on_datagram": ("sym", "on_datagram", "callable"), "transport": ("sym", "transport", ("extobj", "transport"))}, [], False, "self", False))
    data = ("sym", "data", "bytes")
    args = {fi.params[0]: selfv, fi.params[1]: data}
    for p in fi.params[2:]:
        args[p] = ("sym", p, "any")
    outs = I.run(fi, args, st)
    funcs |= set(I.functions_visited)
    bad = None
    for o in outs:
        calls = [e for e in o.state.events if e.kind == "call" and not e.target.startswith("logger.")]
        hand = [e for e in calls if e.target == "on_datagram"]
        other = [e for e in calls if e not in hand]
        if o.kind != "return":
            bad = f"datagram_received itself raises {o.exc_name}"
        elif len(hand) != 1:
            bad = f"a path hands the datagram over {len(hand)} times (guard {T.show(conj(o.state.pc))[:120]})"
        elif hand[0].args != (data,) or hand[0].kwargs:
            bad = f"the handler receives {[T.show(a)[:60] for a in hand[0].args]}, not the received bytes"
        elif other:
            bad = f"datagram_received also calls {[e.target for e in other]}"
    rep.check(bad is None and bool(outs), "R7.1", "one synchronous hand-off", where, bad or "", key="R7.1|handoff")
    defer = [n for n in ast.walk(fi.node) if isinstance(n, ast.Call) and ast.unparse(n.func).split(".")[-1] in DEFER]
    rep.check(not defer and not fi.is_async, "R7.1", "hand-off not deferred", where, f"datagram_received defers work through {[ast.unparse(n.func) for n in defer]} (or is a coroutine): deliveries may be reordered or outlive stop()", key="R7.1|deferred")
    I2, pouts = B.run_parse(prog, 159)
    funcs |= set(I2.functions_visited)
    pfi = prog.func("aioswitcher.bridge:_parse_device_from_datagram")
    pwhere = f"{loc(pfi, pfi.node)} {pfi.qualname}"
    multi = [o for o in pouts if len(B.callbacks(o)) > 1]
    rep.check(not multi, "R7.1", "at most one callback per datagram", pwhere, f"{len(multi)} path(s) of the builder call the user callback more than once", key="R7.1|multi")
    pdefer = [n for n in ast.walk(pfi.node) if isinstance(n, ast.Call) and ast.unparse(n.func).split(".")[-1] in DEFER]
    # ---- R7.2
    bad2 = None
    for o in outs:
        for e in o.state.events:
            if e.kind in ("store", "storeitem", "global"):
                bad2 = f"datagram_received stores {e.target} at {e.where.split(' ')[0]}: state survives from one datagram to the next (dedupe/poison flags break 'once per broadcast')"
    for o in pouts:
        for e in o.state.events:
            if e.kind == "global":
                bad2 = f"the builder declares global {e.target}"
            if e.kind in ("store", "storeitem"):
                base = e.result
                fresh = isinstance(base, tuple) and base and base[0] == "obj" and o.state.heap[base[1]].fresh
                if not fresh:
                    bad2 = f"the builder stores {e.target} at {e.where.split(' ')[0]}, an object that outlives the call"
    rep.check(bad2 is None, "R7.2", "no store outlives a datagram", pwhere, bad2 or "", key="R7.2|stores")
    # AST sweep of the whole reachable set for module-level mutation (mutating calls on module names)
    from .c03 import MUTATORS
    bm = prog.module("aioswitcher.bridge")
    mod_names = set(bm.constants)
    mut = []
    for f in [pfi] + list(ci.methods.values()) + list(prog.cls("aioswitcher.bridge:DatagramParser").methods.values()):
        for n in ast.walk(f.node):
            if isinstance(n, ast.Call) and isinstance(n.func, ast.Attribute) and n.func.attr in MUTATORS:
                root = n.func.value
                while isinstance(root, (ast.Attribute, ast.Subscript)):
                    root = root.value
                if isinstance(root, ast.Name) and root.id in mod_names:
                    mut.append(f"{f.qualname}:{n.lineno} {ast.unparse(n)[:50]}")
    rep.check(not mut, "R7.2", "no module-level container mutated on the receive path", pwhere, f"{mut}", key="R7.2|module")
    # ---- R7.3
    # every close()/abort() call of the bridge module (whatever the receiver is called) sits in SwitcherBridge.stop or in a
    # function only stop reaches; that stop closes transports at all is read from its interpreted paths
    closers = []
    for f in bm.all_functions():
        for n in ast.walk(f.node):
            if isinstance(n, ast.Call) and isinstance(n.func, ast.Attribute) and n.func.attr in CLOSERS:
                closers.append((f.key, n.lineno, ast.unparse(n.func.value)))
    stop_fi = prog.cls("aioswitcher.bridge:SwitcherBridge").find_method("stop")
    stop_reach = {"aioswitcher.bridge:SwitcherBridge.stop"}
    if stop_fi is not None:
        byname_ = {f.qualname.split(".")[-1]: f for f in bm.all_functions()}
        todo_ = [stop_fi]
        while todo_:
            g_ = todo_.pop()
            for n in ast.walk(g_.node):
                if isinstance(n, ast.Call):
                    nm_ = n.func.attr if isinstance(n.func, ast.Attribute) else n.func.id if isinstance(n.func, ast.Name) else ""
                    h_ = byname_.get(nm_)
                    if h_ is not None and h_.key not in stop_reach and h_.qualname.split(".")[-1].startswith("_"):
                        stop_reach.add(h_.key)
                        todo_.append(h_)
    recv_reach = set()
    for nm_ in ("datagram_received", "error_received", "connection_lost", "connection_made"):
        f_ = ci.find_method(nm_)
        if f_ is not None:
            recv_reach.add(f_.key)
    bad3 = [x for x in closers if x[0] not in stop_reach or x[0] in recv_reach]
    try:
        _I3, souts3, _sfi3 = B.run_bridge_method(prog, "stop")
        stop_closes = any(e.kind == "call" and e.target.endswith(".close") for o in souts3 for e in o.state.events)
    except AnalysisError:
        stop_closes = None
    if bad3:
        rep.bad("R7.3", "only stop() closes transports", "src/aioswitcher/bridge.py", f"close/abort outside SwitcherBridge.stop (and its private helpers): {bad3}", key="R7.3|closers")
    elif stop_closes:
        rep.ok("R7.3", "only stop() closes transports", "src/aioswitcher/bridge.py", f"{len(closers)} close/abort call(s), all reached from stop only")
    else:
        rep.undecided("R7.3", "only stop() closes transports", "src/aioswitcher/bridge.py", "no path of stop() closes a transport (anchor vanished or stop() not analysable)")
    recv_methods = [ci.find_method(n) for n in ("datagram_received", "error_received", "connection_lost")]
    reach_bad = []
    for f in [x for x in recv_methods if x is not None] + [pfi]:
        for n in ast.walk(f.node):
            if isinstance(n, ast.Call) and isinstance(n.func, ast.Attribute) and n.func.attr in CLOSERS + ("stop",):
                reach_bad.append(f"{f.qualname}:{n.lineno} {ast.unparse(n)[:40]}")
    rep.check(not reach_bad, "R7.3", "receive path closes nothing", where, f"{reach_bad}", key="R7.3|reach")
    tries = [n for n in ast.walk(fi.node) if isinstance(n, ast.Try)]
    rep.check(not tries, "R7.3", "no handler around the hand-off", where, "datagram_received wraps the hand-off in try/except: an error in one datagram may be turned into other behaviour (shutdown, skipping)", key="R7.3|try")
    # ---- R7.4 (evaluated on start(); shares the rule with C17 R17.1)
    from .c17 import run as _  # noqa: F401  (documentation of the dependency)
    I3, souts, sfi = B.run_bridge_method(prog, "start", fresh_instance=True)
    swhere = f"{loc(sfi, sfi.node)} {sfi.qualname}"
    bad4 = None
    und4 = None
    n_it = 0
    for o in souts:
        if o.kind != "return":
            continue
        cde = B.ev_calls(o, ".create_datagram_endpoint")
        protos = []
        for ce in cde:
            n_it += 1
            fac = ce.args[0] if ce.args else None
            prod = B.factory_product(I3, o, fac)
            if prod is None:
                bad4 = f"what the protocol factory {T.show(fac)[:60] if fac else None} returns could not be established (it must produce a UdpClientProtocol per port)"
                continue
            ho_, oid_, fresh_ = prod
            if ho_.cls is None or ho_.cls.name != "UdpClientProtocol":
                bad4 = f"protocol factory produces a {ho_.cls.name if ho_.cls else ho_.kind}, not a UdpClientProtocol"
                continue
            od = ho_.fields.get("_on_datagram")
            hb_ = B.handler_is_builder_bound_to_callback(od)
            if hb_ is False:
                bad4 = f"protocol handler is {T.show(od)[:80]}: it does not run _parse_device_from_datagram with self._on_device when the datagram arrives (bound to something else, or handed to a scheduling primitive of the event loop)"
            elif hb_ is None:
                und4 = f"protocol handler is {T.show(od)[:80]}: a form this rule does not judge"
            if not fresh_:
                protos.append(oid_)
        if len(set(protos)) != len(protos):
            bad4 = "one protocol object is shared by several ports"
    if bad4 is None and und4 is not None:
        rep.undecided("R7.4", "protocol per port bound to the user callback", swhere, und4)
    else:
        rep.check(bad4 is None and n_it > 0, "R7.4", "protocol per port bound to the user callback", swhere, bad4 or "no endpoint creation explored", key="R7.4|protocol")
    # ---- R7.7 (shares its analysis with C17 R17.7)
    from .c17 import iter_count as _ic, _flat as _fl
    try:
        bad7, n7, funcs7 = B.restart_check(prog, _ic, _fl)
        funcs |= funcs7
        rep.check(bad7 is None and n7 >= 3, "R7.7", "a restarted bridge binds every port", swhere, (bad7 or f"only {n7} returning paths explored") + ": valid broadcasts on the skipped ports are never delivered", key="R7.7|restart")
    except AnalysisError as e7:
        rep.undecided("R7.7", "a restarted bridge binds every port", swhere, f"start() on an instance with history is not analysable: {e7}")
    # ---- R7.5 (shares its analysis with C05 R5.7)
    from . import c05
    from ..model import EnumRef
    spec = c05.load_spec()
    dt = prog.cls("aioswitcher.device:DeviceType")
    assert dt.enum is not None
    on = ("enum", EnumRef(prog.cls("aioswitcher.device:DeviceState").key, "ON"))
    for m in dt.enum.members:
        cat = dt.enum.attr(m, "category").member
        if cat not in ("WATER_HEATER", "POWER_PLUG"):
            continue
        want_cls = [k for k, d in spec["devices"].items() if d["category"] == cat]
        I5, outs5 = c05.parse_outcomes_for(prog, m)
        funcs |= set(I5.functions_visited)
        delivered = [o for o in outs5 if o.kind == "return" and B.callbacks(o)]
        if not delivered:
            rep.bad("R7.5", m, pwhere, f"no path of the builder delivers a device for {m}", key=f"R7.5|{m}|nodevice")
            continue
        bad5 = c05.ignored_field_dependence(prog, spec, m, cat, want_cls[0], outs5, on)
        rep.check(bad5 is None, "R7.5", m, pwhere, bad5 or "", key=f"R7.5|{want_cls[0]}")
    rep.analysed["functions"] = sorted(funcs)


def consumer_loop_rule(prog: Program, rep: Report) -> None:
    """R7.6 (structural, conditional): coroutines scheduled as tasks that deliver inside an unguarded loop."""
    import ast as _ast
    mod = prog.module("aioswitcher.bridge")
    byname = {}
    for fi in mod.all_functions():
        byname[fi.qualname.split(".")[-1]] = fi
    deliver = {"_parse_device_from_datagram", "_on_device", "_on_datagram", "on_device", "device_callback"}
    for fi in mod.all_functions():
        for node in _ast.walk(fi.node):
            if not (isinstance(node, _ast.Call) and isinstance(node.func, _ast.Attribute | _ast.Name)):
                continue
            fname = node.func.attr if isinstance(node.func, _ast.Attribute) else node.func.id
            if fname not in ("create_task", "ensure_future") or not node.args or not isinstance(node.args[0], _ast.Call):
                continue
            cf = node.args[0].func
            cname = cf.attr if isinstance(cf, _ast.Attribute) else cf.id if isinstance(cf, _ast.Name) else None
            target = byname.get(cname or "")
            if target is None or not target.is_async:
                continue
            where = f"{loc(target, target.node)} {target.qualname}"

            def guarded(stack: list) -> bool:
                # stack: ancestors of the call, innermost last; a Try between the innermost loop and the call whose handler catches Exception
                seen_loop = False
                for anc, field in reversed(stack):
                    if isinstance(anc, (_ast.While, _ast.For, _ast.AsyncFor)):
                        return False
                    if isinstance(anc, _ast.Try) and field == "body":
                        for h in anc.handlers:
                            names = [] if h.type is None else [_ast.unparse(x) for x in (h.type.elts if isinstance(h.type, _ast.Tuple) else [h.type])]
                            if h.type is None or any(n.split(".")[-1] in ("Exception", "BaseException") for n in names):
                                return True
                return False

            def visit(n: _ast.AST, stack: list, in_loop: bool) -> None:
                for field, value in _ast.iter_fields(n):
                    children = value if isinstance(value, list) else [value]
                    for ch in children:
                        if not isinstance(ch, _ast.AST) or isinstance(ch, (_ast.FunctionDef, _ast.AsyncFunctionDef, _ast.Lambda, _ast.ClassDef)):
                            continue
                        loop_here = in_loop or isinstance(n, (_ast.While, _ast.For, _ast.AsyncFor)) and field == "body"
                        if isinstance(ch, _ast.Call) and loop_here:
                            f = ch.func
                            nm = f.attr if isinstance(f, _ast.Attribute) else f.id if isinstance(f, _ast.Name) else ""
                            if nm in deliver:
                                ok = guarded(stack + [(n, field)])
                                rep.check(ok, "R7.6", f"{target.qualname}: {nm} inside the task's loop", f"{mod.relpath}:{ch.lineno} {target.qualname}",
                                          f"{target.qualname} is scheduled as a task by {fi.qualname} and calls {nm}() inside its loop without a try/except Exception around it (inside the loop): "
                                          f"the first datagram that makes the builder or the user's callback raise ends the task, and no later broadcast on any port is delivered", key=f"R7.6|{target.qualname}|{nm}")
                        visit(ch, stack + [(n, field)], loop_here)

            visit(target.node, [], False)
