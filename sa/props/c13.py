"""C13 - the next-run text (three structural clauses; the 'earliest occurrence' arithmetic is NOT decided)."""
from __future__ import annotations

from typing import Any, Dict, List, Optional, Set, Tuple

from .. import terms as T
from ..interp import Interp, Outcome, conj
from ..model import Program, loc
from ..report import Report
from ..terms import c
from .c11 import LOCAL_APIS, UTC_APIS, apps_in

LEVEL = "other"
FUNC = "aioswitcher.schedule.tools:pretty_next_run"
NOW_LOCAL = {"datetime.datetime.now", "datetime.datetime.today", "time.localtime", "datetime.date.today"}
NOW_UTC = {"datetime.datetime.utcnow", "time.gmtime"}


def clock_reads(v: Any, acc: Optional[List[T.Term]] = None) -> List[T.Term]:
    acc = [] if acc is None else acc
    if isinstance(v, tuple):
        if len(v) > 2 and v[0] == "app" and isinstance(v[-1], tuple) and v[-1][:1] == ("occ",):
            acc.append(v)
        for x in v:
            clock_reads(x, acc)
    elif isinstance(v, T.Lin):
        for t in v.coef:
            clock_reads(t, acc)
    return acc


def run(prog: Program, rep: Report, tier: str) -> None:
    rep.rule("R13.1", "clock domain: the start times are LOCAL wall-clock (they come from time.localtime); every 'now' the function reads to compare with them or to take the weekday of must be a LOCAL clock read", 1)
    rep.rule("R13.2", "the weekday named in 'Due next <weekday>' is the name (Days.value) of an element of {d.weekday : d in days}: always one of the selected days", 1)
    rep.rule("R13.3", "no days => 'Due today at <start>' without reading the clock; every result is one of the three templates with the unmodified start time", 2)
    rep.rule("R13.4", "with days given, 'today' is returned exactly under (current weekday in selected weekdays) and (now < start), strict", 1)
    rep.explanation = (
        "Decides four clauses: the clock domain of 'now' (LOCAL), that the named weekday is a selected day (provenance), the no-days case and the three templates, and the guard of the 'today' answer. "
        "EXPLICITLY NOT decided: that the day chosen for 'tomorrow'/'next <weekday>' is the EARLIEST future occurrence. That is arithmetic over (current weekday, day set, time order); "
        "deciding it means evaluating the selection on each of the 7x128x3 cases, which is execution whatever interpreter performs it and outside this family. "
        "A green C13 must therefore not be read as 'the text is right'."
    )
    rep.trusted += ["datetime.now()/today() read the LOCAL clock, utcnow()/gmtime() the UTC clock (CPython docs)"]
    fi = prog.func(FUNC)
    where = f"{loc(fi, fi.node)} {fi.qualname}"
    I = Interp(prog)
    st = I.new_state()
    dtyp = ("enum", "aioswitcher.schedule:Days")
    days = ("sym", fi.params[1], ("set", dtyp))
    start = ("sym", fi.params[0], "str")
    outs = I.run(fi, {fi.params[0]: start, fi.params[1]: days}, st)
    rep.analysed["functions"] = sorted(I.functions_visited)
    rep.analysed["paths"] = len(outs)
    rets = [o for o in outs if o.kind == "return"]
    # ---- R13.1
    reads: Dict[str, T.Term] = {}
    for o in outs:
        for r in clock_reads(tuple(o.state.pc)) + (clock_reads(o.value) if o.kind == "return" else []):
            reads[r[1]] = r
    utc = sorted(k for k in reads if k in NOW_UTC or (k == "datetime.datetime.now" and len(reads[k]) > 3))
    unknown = sorted(k for k in reads if k not in NOW_UTC and k not in NOW_LOCAL)
    if not reads:
        rep.undecided("R13.1", "clock reads", where, "no clock read found on any path")
    elif utc:
        rep.bad("R13.1", "now is local", where,
                f"the current date/time is read with {utc} (UTC) but compared with LOCAL wall-clock start times and used for the weekday: wherever the host is not UTC the text says 'today' for a start that has already passed locally (or not yet), and names the wrong day around midnight",
                key="R13.1|pretty_next_run|utc-now")
    elif unknown:
        rep.undecided("R13.1", "now is local", where, f"clock reads {unknown} are not in the LOCAL/UTC table")
    else:
        rep.ok("R13.1", "now is local", where, f"clock reads: {sorted(reads)}")
    # ---- R13.3 / templates
    e = ("sym", "$e", dtyp)
    denum = prog.cls("aioswitcher.schedule:Days").enum
    assert denum is not None
    wd_alts = tuple(denum.attr(m, "weekday") for m in denum.members)
    sel = ("mapobj", ("eattr", e, "weekday", wd_alts), days, "list")
    table = tuple((c(denum.attr(m, "weekday")), c(denum.attr(m, "value"))) for m in denum.members)
    nodays = [o for o in rets if ("not", ("truthy", days)) in o.state.pc]
    ok_nodays = len(nodays) == 1 and nodays[0].value == T.seq("s", (("L", "Due today at "), ("whole", start))) and len(nodays[0].state.pc) == 1 and not clock_reads(nodays[0].value)
    rep.check(ok_nodays, "R13.3", "no days => today", where, "with no days the function does not immediately return 'Due today at <start>' (or reads the clock first)", key="R13.3|nodays")
    bad_t = None
    bad_n = None
    n_next = 0
    for o in rets:
        v = o.value
        if T.contains_top(v):
            rep.undecided("R13.3", "templates", where, f"result not understood: {T.contains_top(v)}")
            continue
        atoms = v[2] if T.is_seq(v) else ()
        if atoms in ((("L", "Due today at "), ("whole", start)), (("L", "Due tomorrow at "), ("whole", start))):
            continue
        if len(atoms) == 4 and atoms[0] == ("L", "Due next ") and atoms[2] == ("L", " at ") and atoms[3] == ("whole", start) and atoms[1][0] == "txt":
            n_next += 1
            x = atoms[1][1]
            # provenance of the named day
            okn = isinstance(x, tuple) and x[0] == "lookup" and tuple(x[1]) == table and isinstance(x[2], tuple) and x[2][0] == "elemof" and x[2][1] == sel
            if not okn:
                bad_n = f"the weekday named is {T.show(x)[:260]}; it must be Days.value looked up by weekday number for an ELEMENT of the selected days' weekdays"
            continue
        bad_t = f"result {T.show(v)[:160]} is none of 'Due today at <start>', 'Due tomorrow at <start>', 'Due next <weekday> at <start>'"
    rep.check(bad_t is None, "R13.3", "three templates", where, bad_t or "", key="R13.3|templates")
    if n_next == 0:
        rep.undecided("R13.2", "named weekday is selected", where, "no 'Due next' path found")
    else:
        rep.check(bad_n is None, "R13.2", "named weekday is selected", where, bad_n or "", f"{n_next} 'Due next' path(s): name <- Days.value[weekday] of an element of the selected weekdays", key="R13.2|provenance")
    # ---- R13.4
    todays = [o for o in rets if o.value == T.seq("s", (("L", "Due today at "), ("whole", start))) and ("truthy", days) in o.state.pc]
    bad4 = None
    if len(todays) != 1:
        bad4 = f"{len(todays)} paths answer 'today' for a non-empty day set"
    else:
        from .c17 import _flat
        pcs = _flat(todays[0].state.pc)
        mem = [g for g in pcs if isinstance(g, tuple) and g[:2] == ("cmp", "in") and g[3] == sel and isinstance(g[2], tuple) and g[2][:2] == ("app", ".weekday")]
        lt = [g for g in pcs if isinstance(g, tuple) and g[0] == "cmp" and g[1] in ("<", ">") and _mentions_sym(g, fi.params[0])]
        strict_ok = False
        for g in lt:
            now_side, start_side = (g[2], g[3]) if g[1] == "<" else (g[3], g[2])
            if clock_reads(now_side) and _mentions_sym(start_side, fi.params[0]) and not clock_reads(start_side):
                strict_ok = True
        if not mem or not strict_ok:
            bad4 = f"'today' is answered under {T.show(conj(pcs[-2:]))[:300]}; expected (weekday(now) in selected weekdays) and (time(now) < start)"
    rep.check(bad4 is None, "R13.4", "guard of 'today'", where, bad4 or "", key="R13.4|today-guard")
    rep.sample({"paths": [(o.kind, o.exc_name or T.show(o.value)[:120]) for o in outs], "clock_reads": sorted(reads)})


def _mentions_sym(v: Any, name: str) -> bool:
    from ..frames import mentions
    return mentions(v, name)
