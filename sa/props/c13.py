"""C13 - the next-run text (three structural clauses; the 'earliest occurrence' arithmetic is NOT decided)."""
from __future__ import annotations

from typing import Any, Dict, List, Optional, Set, Tuple

from .. import terms as T
from ..interp import Interp, Outcome, conj
from ..model import Program, loc
from ..report import Report
from ..terms import c
from .c11 import LOCAL_APIS, UTC_APIS, apps_in

LEVEL = "proof"
FUNC = "aioswitcher.schedule.tools:pretty_next_run"
NOW_LOCAL = {"datetime.datetime.now", "datetime.datetime.today", "time.localtime", "datetime.date.today"}
NOW_UTC = {"datetime.datetime.utcnow", "time.gmtime"}


def clock_reads(v: Any, acc: Optional[List[T.Term]] = None) -> List[T.Term]:
    acc = [] if acc is None else acc
    if isinstance(v, tuple):
        if len(v) > 2 and v[0] == "app" and isinstance(v[-1], tuple) and v[-1][:1] == ("occ",):
            acc.append(v)
        for x in v:
            clock_reads(x, acc)
    elif isinstance(v, T.Lin):
        for t in v.coef:
            clock_reads(t, acc)
    return acc


_MUTATORS = {"add", "discard", "remove", "pop", "clear", "update", "difference_update", "intersection_update", "symmetric_difference_update", "append", "extend", "insert", "sort", "reverse"}


def argument_mutation_rule(prog: Program, rep: Report, fkey: str, param_index: int, rid: str = "R13.7") -> None:
    """R13.7 (structural): in-place changes of a collection parameter before the name is re-bound to a fresh object."""
    import ast
    fi = prog.func(fkey)
    if len(fi.params) <= param_index:
        return
    name = fi.params[param_index]
    rebound_at = None
    for st_ in fi.node.body:       # a top-level `days = set(days)` / `list(days)` / `sorted(days)` / `days.copy()` makes the name local
        for n in ast.walk(st_):
            if isinstance(n, ast.Assign) and any(isinstance(t, ast.Name) and t.id == name for t in n.targets) and isinstance(n.value, ast.Call):
                rebound_at = n.lineno if rebound_at is None else min(rebound_at, n.lineno)
    # other names for the same object: `candidates = days` (a plain name-to-name assignment, no copy)
    aliases = {name}
    for _ in range(3):
        for n in ast.walk(fi.node):
            if isinstance(n, ast.Assign) and isinstance(n.value, ast.Name) and n.value.id in aliases and (rebound_at is None or n.lineno <= rebound_at or n.value.id != name):
                for t in n.targets:
                    if isinstance(t, ast.Name):
                        aliases.add(t.id)
    for n in ast.walk(fi.node):
        line = getattr(n, "lineno", 0)
        if rebound_at is not None and line > rebound_at:
            continue
        what = None
        for name in sorted(aliases):
            what = what or _mutation_of(n, name)
        if what:
            rep.bad(rid, f"{fi.qualname} changes its {fi.params[param_index]} argument", f"{fi.module.relpath}:{line} {fi.qualname}",
                    f"{what} modifies the caller's collection: a later call with the same set (and the schedule object that owns it) no longer sees the removed / added days", key=f"{rid}|{fi.params[param_index]}")
    return


def _mutation_of(n: Any, name: str) -> Optional[str]:
    import ast
    if True:
        what = None
        if isinstance(n, ast.AugAssign) and isinstance(n.target, ast.Name) and n.target.id == name:
            what = f"`{ast.unparse(n)}` (an augmented assignment on a set / list changes the object in place)"
        elif isinstance(n, ast.Call) and isinstance(n.func, ast.Attribute) and n.func.attr in _MUTATORS and isinstance(n.func.value, ast.Name) and n.func.value.id == name:
            what = f"`{ast.unparse(n)}`"
        elif isinstance(n, (ast.Assign, ast.Delete)) and any(isinstance(t, ast.Subscript) and isinstance(t.value, ast.Name) and t.value.id == name for t in n.targets):
            what = f"`{ast.unparse(n)}`"
        return what

def run(prog: Program, rep: Report, tier: str) -> None:
    argument_mutation_rule(prog, rep, FUNC, 1)
    rep.rule("R13.1", "clock domain: the start times are LOCAL wall-clock (they come from time.localtime); every 'now' the function reads to compare with them or to take the weekday of must be a LOCAL clock read", 1)
    rep.rule("R13.2", "the weekday named in 'Due next <weekday>' is the name (Days.value) of an element of {d.weekday : d in days}: always one of the selected days", 1)
    rep.rule("R13.3", "no days => 'Due today at <start>' without reading the clock; every result is one of the three templates with the unmodified start time", 2)
    rep.rule("R13.4", "with days given, 'today' is returned exactly under (current weekday in selected weekdays) and (now < start), strict", 1)
    rep.rule("R13.6", "the day chosen once 'today' is ruled out is the earliest upcoming one: the selected weekdays are sorted ascending, the first one STRICTLY after today's weekday is taken, and only if there is none the first selected weekday (next week) - by the lemma in the evidence this is the nearest future occurrence, a full week ahead when only today is selected", 2)
    rep.rule("R13.7", "the selection is not consumed: pretty_next_run does not change the `days` collection it is given in place (augmented assignment, mutator method, item store / delete on the parameter "
                      "while it still names the caller's object) - the same set is reused for later calls and is the schedule object's own `days`", 0, structural=True)
    rep.rule("R13.8", "every answer is decided from ONE reading of the clock: the current weekday and the current time of day compared with the start time stem from the same clock occurrence on every path", 1)
    rep.rule("R13.5", "'tomorrow' is answered exactly when the chosen day is the calendar day after today: (next == today + 1) or (next is Monday and today is Sunday), equivalently (next - today) mod 7 == 1; all other chosen days are named 'next <weekday>'", 2)
    rep.explanation = (
        "Decides the function by normal form, clause by clause: the clock domain of 'now' (LOCAL); the named weekday is a selected day (provenance); the no-days case and the three templates; "
        "'today' exactly under (today selected and now < start); the chosen day is the first selected weekday strictly after today in ascending order, else the first selected weekday (R13.6); "
        "'tomorrow' exactly when the chosen day is the calendar day after today (R13.5). "
        "Lemma used (arithmetic on weekdays 0..6, stated not executed): with today's own occurrence ruled out, the nearest future occurrence of a non-empty day set S falls on min{d in S : d > w} if that set is non-empty "
        "and otherwise on min S in the following week (exactly 7 days ahead when min S == w); it is the next calendar day iff (n - w) mod 7 == 1. "
        "No case of (weekday, day set, time order) is evaluated. NOT decided: strptime/strftime library behaviour and that the host's local clock is right."
    )
    rep.trusted += ["datetime.now()/today() read the LOCAL clock, utcnow()/gmtime() the UTC clock (CPython docs)"]
    fi = prog.func(FUNC)
    where = f"{loc(fi, fi.node)} {fi.qualname}"
    I = Interp(prog)
    st = I.new_state()
    dtyp = ("enum", "aioswitcher.schedule:Days")
    days = ("sym", fi.params[1], ("set", dtyp))
    start = ("sym", fi.params[0], "str")
    outs = I.run(fi, {fi.params[0]: start, fi.params[1]: days}, st)
    rep.analysed["functions"] = sorted(I.functions_visited)
    rep.analysed["paths"] = len(outs)
    rets = [o for o in outs if o.kind == "return"]
    # ---- R13.1
    reads: Dict[str, T.Term] = {}
    for o in outs:
        for r in clock_reads(tuple(o.state.pc)) + (clock_reads(o.value) if o.kind == "return" else []):
            reads[r[1]] = r
    utc = sorted(k for k in reads if k in NOW_UTC or (k == "datetime.datetime.now" and len(reads[k]) > 3))
    unknown = sorted(k for k in reads if k not in NOW_UTC and k not in NOW_LOCAL)
    if not reads:
        rep.undecided("R13.1", "clock reads", where, "no clock read found on any path")
    elif utc:
        rep.bad("R13.1", "now is local", where,
                f"the current date/time is read with {utc} (UTC) but compared with LOCAL wall-clock start times and used for the weekday: wherever the host is not UTC the text says 'today' for a start that has already passed locally (or not yet), and names the wrong day around midnight",
                key="R13.1|pretty_next_run|utc-now")
    elif unknown:
        rep.undecided("R13.1", "now is local", where, f"clock reads {unknown} are not in the LOCAL/UTC table")
    else:
        rep.ok("R13.1", "now is local", where, f"clock reads: {sorted(reads)}")
    # ---- R13.8 one clock reading per answer
    worst = None
    n_multi = 0
    for o in outs:
        occ = {r[-1][1] for r in clock_reads(tuple(o.state.pc)) + (clock_reads(o.value) if o.kind == "return" else [])}
        if len(occ) > 1:
            n_multi += 1
            worst = worst or sorted(occ)
    if reads:
        rep.check(worst is None, "R13.8", "weekday and time of day come from one clock reading", where,
                  f"{n_multi} path(s) decide with {len(worst or [])} separate clock readings {worst}: between two readings the clock moves on - across midnight the weekday is yesterday's and the time "
                  f"of day today's (or the other way round), and the text names a run that is already over", key="R13.8|pretty_next_run|readings")
    # ---- R13.3 / templates
    e = ("sym", "$e", dtyp)
    denum = prog.cls("aioswitcher.schedule:Days").enum
    assert denum is not None
    wd_alts = tuple(denum.attr(m, "weekday") for m in denum.members)
    sel = ("mapobj", ("eattr", e, "weekday", wd_alts), days, "list")
    table = tuple((c(denum.attr(m, "weekday")), c(denum.attr(m, "value"))) for m in denum.members)
    nodays = [o for o in rets if ("not", ("truthy", days)) in o.state.pc]
    ok_nodays = len(nodays) == 1 and nodays[0].value == T.seq("s", (("L", "Due today at "), ("whole", start))) and len(nodays[0].state.pc) == 1 and not clock_reads(nodays[0].value)
    rep.check(ok_nodays, "R13.3", "no days => today", where, "with no days the function does not immediately return 'Due today at <start>' (or reads the clock first)", key="R13.3|nodays")
    bad_t = None
    bad_n = None
    n_next = 0
    rets = [o for o in rets if not all_residues_missed(o.state.pc, sel)]
    for o in rets:
        v = o.value
        if T.contains_top(v):
            rep.undecided("R13.3", "templates", where, f"result not understood: {T.contains_top(v)}")
            continue
        atoms = v[2] if T.is_seq(v) else ()
        if atoms in ((("L", "Due today at "), ("whole", start)), (("L", "Due tomorrow at "), ("whole", start))):
            continue
        if len(atoms) == 4 and atoms[0] == ("L", "Due next ") and atoms[2] == ("L", " at ") and atoms[3] == ("whole", start) and atoms[1][0] == "txt":
            n_next += 1
            x = atoms[1][1]
            # provenance of the named day
            okn = isinstance(x, tuple) and x[0] == "lookup" and tuple(x[1]) == table and isinstance(x[2], tuple) and (
                (x[2][0] == "elemof" and x[2][1] == sel) or (x[2][0] in ("argmin", "argmax") and len(x[2]) == 3 and (x[2][2] == sel or _same_sel(x[2][2], sel))) or any(isinstance(g, tuple) and g[:2] == ("cmp", "in") and g[2] == x[2] and _same_sel(g[3], sel) for g in _flat13(o.state.pc)))
            if not okn:
                bad_n = f"the weekday named is {T.show(x)[:260]}; it must be Days.value looked up by weekday number for an ELEMENT of the selected days' weekdays"
            continue
        bad_t = f"result {T.show(v)[:160]} is none of 'Due today at <start>', 'Due tomorrow at <start>', 'Due next <weekday> at <start>'"
    rep.check(bad_t is None, "R13.3", "three templates", where, bad_t or "", key="R13.3|templates")
    if n_next == 0:
        rep.undecided("R13.2", "named weekday is selected", where, "no 'Due next' path found")
    else:
        rep.check(bad_n is None, "R13.2", "named weekday is selected", where, bad_n or "", f"{n_next} 'Due next' path(s): name <- Days.value[weekday] of an element of the selected weekdays", key="R13.2|provenance")
    # ---- R13.4
    todays = [o for o in rets if o.value == T.seq("s", (("L", "Due today at "), ("whole", start))) and ("truthy", days) in o.state.pc]
    bad4 = None
    if len(todays) != 1:
        bad4 = f"{len(todays)} paths answer 'today' for a non-empty day set"
    else:
        from .c17 import _flat
        pcs = _flat(todays[0].state.pc)
        mem = [g for g in pcs if isinstance(g, tuple) and g[:2] == ("cmp", "in") and (g[3] == sel or _same_sel(g[3], sel)) and isinstance(g[2], tuple) and g[2][:2] == ("app", ".weekday")]
        lt = [g for g in pcs if isinstance(g, tuple) and g[0] == "cmp" and g[1] in ("<", ">") and _mentions_sym(g, fi.params[0])]
        strict_ok = False
        for g in lt:
            now_side, start_side = (g[2], g[3]) if g[1] == "<" else (g[3], g[2])
            if clock_reads(now_side) and _mentions_sym(start_side, fi.params[0]) and not clock_reads(start_side):
                strict_ok = True
        if not mem or not strict_ok:
            bad4 = f"'today' is answered under {T.show(conj(pcs[-2:]))[:300]}; expected (weekday(now) in selected weekdays) and (time(now) < start)"
    rep.check(bad4 is None, "R13.4", "guard of 'today'", where, bad4 or "", key="R13.4|today-guard")
    # ---- R13.5 guard of 'tomorrow' vs 'next <weekday>'
    from ..interp import neg as _neg
    from .c17 import _flat as flat17
    mon = denum.attr("MONDAY", "weekday")
    sun = denum.attr("SUNDAY", "weekday")

    def accepted(N: T.Term, W: T.Term) -> List[T.Term]:
        n_minus = T.Lin.of(N) - 1
        forms = []
        from ..interp import mkcmp
        step = [mkcmp("==", n_minus.term(), W), mkcmp("==", N, (T.Lin.of(W) + 1).term())]
        wrap_parts = [[mkcmp("==", N, c(mon)), mkcmp("==", W, c(sun))], [mkcmp("==", W, c(sun)), mkcmp("==", N, c(mon))]]
        for a in step:
            for wp in wrap_parts:
                forms.append(("or", a, ("and",) + tuple(wp)))
                forms.append(("or", ("and",) + tuple(wp), a))
        d = (T.Lin.of(N) - T.Lin.of(W)).term()
        forms.append(mkcmp("==", ("app", "mod", d, c(7)), c(1)))
        forms.append(mkcmp("==", ("app", "mod", (T.Lin.of(W) + 1).term(), c(7)), N))
        return forms

    def day_terms(pcs: List[T.Term]) -> List[T.Term]:
        found: List[T.Term] = []

        def walk(v: Any) -> None:
            if isinstance(v, tuple):
                if len(v) == 3 and v[0] == "elemof" and v[1] == sel and v not in found:
                    found.append(v)
                if len(v) == 3 and v[0] in ("argmin", "argmax") and (v[2] == sel or _same_sel(v[2], sel)) and v not in found:
                    found.append(v)
                for x in v:
                    walk(x)
            elif isinstance(v, T.Lin):
                for t in v.coef:
                    walk(t)
        for g in pcs:
            walk(g)
        return found

    n_tom = n_nxt = 0
    bad5 = None
    for o in rets:
        v = o.value
        atoms = v[2] if T.is_seq(v) else ()
        is_tom = atoms[:1] == (("L", "Due tomorrow at "),)
        is_nxt = atoms[:1] == (("L", "Due next "),)
        if not (is_tom or is_nxt):
            continue
        W = None

        def find_w(v: Any) -> None:
            nonlocal W
            if W is None and isinstance(v, tuple):
                if v[:2] == ("app", ".weekday"):
                    W = v
                    return
                for x in v:
                    find_w(x)
        find_w(tuple(o.state.pc))
        if is_nxt:
            N_list = [atoms[1][1][2]] if atoms[1][0] == "txt" and isinstance(atoms[1][1], tuple) and atoms[1][1][0] == "lookup" else []
        else:
            N_list = [n for n in day_terms(o.state.pc) if not (n[0] == "elemof" and isinstance(n[2], tuple) and n[2] == c(-1))] + _mods(o.state.pc)
        if W is None or not N_list:
            bad5 = bad5 or "could not identify the chosen day / current weekday on a 'tomorrow'/'next' path"
            continue
        ok = False
        flatpc = flat17(o.state.pc)
        for N in N_list:
            for E in accepted(N, W):
                if is_tom and (E in o.state.pc or E in flatpc):
                    ok = True
                if is_nxt:
                    ne = _neg(E)
                    parts = list(ne[1:]) if ne[0] == "and" else [ne]
                    if all(pp in flatpc or pp in o.state.pc for pp in parts):
                        ok = True
        if is_tom:
            n_tom += 1
        else:
            n_nxt += 1
        if not ok:
            tail = [T.show(g)[:160] for g in o.state.pc[-2:]]
            bad5 = bad5 or (f"'{'Due tomorrow' if is_tom else 'Due next <weekday>'}' is answered under {tail}; expected the guard (chosen day == today + 1) or (chosen day is Monday and today is Sunday) "
                            f"{'to hold' if is_tom else 'to be false'} - any other test names a run as 'tomorrow' that is not on the next calendar day (or the reverse)")
    # ---- R13.6 the chosen day is the earliest upcoming one
    bad6 = None
    n6 = 0
    for o in rets:
        v = o.value
        atoms = v[2] if T.is_seq(v) else ()
        if atoms[:1] not in ((("L", "Due tomorrow at "),), (("L", "Due next "),)):
            continue
        n6 += 1
        pcs_o = o.state.pc
        W = None

        def find_w2(x: Any) -> None:
            nonlocal W
            if W is None and isinstance(x, tuple):
                if x[:2] == ("app", ".weekday"):
                    W = x
                    return
                for y in x:
                    find_w2(y)
        find_w2(tuple(pcs_o))
        if W is None:
            bad6 = bad6 or "current weekday not identifiable"
            continue
        esym = None
        later = None
        for g in flat17(pcs_o):
            t_ = g[1] if (isinstance(g, tuple) and g and g[0] == "not") else g
            if isinstance(t_, tuple) and t_[:1] == ("truthy",) and isinstance(t_[1], tuple) and t_[1][:2] == ("app", "list") and isinstance(t_[1][2], tuple) and t_[1][2][0] == "filterobj" and t_[1][2][2] == sel:
                later = (t_[1][2][1], g[0] != "not")
        Ns = [n for n in day_terms(pcs_o)]
        if atoms[:1] == (("L", "Due next "),) and atoms[1][0] == "txt" and isinstance(atoms[1][1], tuple) and atoms[1][1][0] == "lookup":
            Ns = [atoms[1][1][2]]
        # alternative algorithm: walk forward from tomorrow, (today + k) % 7 for k = 1..7, first selected one
        walk = None
        for n in ([atoms[1][1][2]] if (atoms[:1] == (("L", "Due next "),) and atoms[1][0] == "txt" and isinstance(atoms[1][1], tuple) and atoms[1][1][0] == "lookup") else []) + _mods(pcs_o):
            if isinstance(n, tuple) and n[:2] == ("app", "mod") and n[3] == c(7):
                lk = T.Lin.of(n[2]) - T.Lin.of(W)
                if lk.is_const() and isinstance(lk.const, int) and (walk is None or lk.const > walk[0]):
                    walk = (int(lk.const), n)
        if walk is not None and not [e for e in o.state.events if e.kind == "reorder"] and later is None:
            k, nterm = walk
            fl = _flat13(pcs_o)
            hit = any(isinstance(g, tuple) and g[:2] == ("cmp", "in") and g[2] == nterm and _same_sel(g[3], sel) for g in fl)
            misses = all(any(isinstance(g, tuple) and g[:2] == ("cmp", "not in") and g[2] == ("app", "mod", (T.Lin.of(W) + j).term(), c(7)) and _same_sel(g[3], sel) for g in fl) for j in range(1, k))
            if not (1 <= k <= 7 and hit and misses):
                bad6 = bad6 or (f"the day is found by walking forward from tomorrow; a path answers with (today + {k}) % 7 {'without it being a selected day' if not hit else 'although an earlier candidate was not ruled out'}: "
                                f"the walk must try today+1 .. today+7 (the same weekday a week ahead) and stop at the first selected one")
            continue
        # alternative algorithm: the selected weekday with the smallest forward distance from tomorrow,
        # min(S, key = (d - today - 1) mod 7) - the key is injective on 0..6, so no ordering of S is involved
        args_ = [n for n in Ns if n[0] in ("argmin", "argmax")]
        if args_ and later is None:
            e_sym = ("sym", "$e", ("elemof", args_[0][2]))
            good_c = False
            for n in args_:
                key_ = n[1]
                if n[0] == "argmin" and isinstance(key_, tuple) and key_[:2] == ("app", "mod") and len(key_) == 4 and key_[3] == c(7):
                    lk = T.Lin.of(key_[2])
                    es = [t for t in lk.coef if isinstance(t, tuple) and t[:2] == ("sym", "$e")]
                    rest = lk - T.Lin.of(es[0]) + T.Lin.of(W) if len(es) == 1 and lk.coef.get(es[0]) == 1 else None
                    if rest is not None and rest.is_const() and isinstance(rest.const, int) and rest.const % 7 == 6:
                        good_c = True
            if not good_c:
                bad6 = bad6 or (f"the day is chosen as {T.show(args_[0])[:200]}; expected the selected weekday d minimising (d - today - 1) mod 7 (forward distance from tomorrow, today itself a full week ahead)")
            continue
        sorts = [e for e in o.state.events if e.kind == "reorder" and e.args and e.args[0] == sel]
        first_use = min([i for i, g in enumerate(pcs_o) if ("elemof" in T.show(g) or "filterobj" in T.show(g) or "nomatch" in T.show(g) or "emptyindex" in T.show(g))] or [len(pcs_o)])
        ok_sort = any(e.target == "sort" and not e.kwargs and len(e.args) == 1 and e.pc_len <= first_use for e in sorts) and not any(e.target == "reverse" for e in sorts)
        okp = False
        why6 = ""
        if later is not None:
            P, exists = later
            strict = isinstance(P, tuple) and P[0] == "cmp" and ((P[1] == ">" and P[3] == W and P[2][:2] == ("sym", "$e")) or (P[1] == "<" and P[2] == W and P[3][:2] == ("sym", "$e")))
            if exists:
                okp = strict and any(n == ("elemof", sel, ("where", P, c(0))) for n in Ns)
            else:
                okp = strict and any(n == ("elemof", sel, c(0)) for n in Ns)
            why6 = f"candidate filter {T.show(P)[:80]} ({'a later day exists' if exists else 'no later day'}), chosen {[T.show(n)[:90] for n in Ns]}"
        else:
            # alternative shape: compare today with the last (largest) selected weekday
            last = ("elemof", sel, c(-1))
            from ..interp import mkcmp as _mk
            ge = _mk(">=", W, last) in flat17(pcs_o)
            lt = _mk("<", W, last) in flat17(pcs_o)
            if ge:
                okp = any(n == ("elemof", sel, c(0)) for n in Ns)
            elif lt:
                okp = any(isinstance(n[2], tuple) and n[2][0] == "where" and n[2][1][0] == "cmp" and n[2][1][1] == ">" and n[2][1][3] == W and n[2][2] == c(0) for n in Ns)
            why6 = f"no candidate filter found; guards {[T.show(g)[:90] for g in pcs_o[4:7]]}, chosen {[T.show(n)[:90] for n in Ns]}"
        if not ok_sort:
            bad6 = bad6 or "the selected weekdays are not sorted ascending (list.sort() without key/reverse) before a day is picked: 'first' is not 'earliest'"
        elif not okp:
            bad6 = bad6 or (f"with today's own run ruled out the day is chosen by: {why6}; expected the first selected weekday strictly after today's (ascending), else the first selected weekday. "
                            f"A non-strict test keeps today in the candidates, so with today selected, its time passed and another day selected (e.g. Wed 15:00, {{Wed, Fri}}, start 13:00) the text names today again")
    if n6 == 0:
        rep.undecided("R13.6", "chosen day", where, "no 'tomorrow'/'next' path found")
    else:
        rep.check(bad6 is None, "R13.6", "chosen day is the earliest upcoming", where, bad6 or "", f"{n6} paths: sorted ascending, first strictly later weekday else first selected weekday", key="R13.6|selection")
        rep.ok("R13.6", "paths", where, f"{n6} paths examined")
    if n_tom == 0 or n_nxt == 0:
        rep.undecided("R13.5", "tomorrow / next split", where, f"{n_tom} 'tomorrow' and {n_nxt} 'next' paths found")
    else:
        rep.check(bad5 is None, "R13.5", "guard of 'tomorrow'", where, bad5 or "", f"{n_tom} 'tomorrow' and {n_nxt} 'next' paths", key="R13.5|tomorrow-guard")
        rep.ok("R13.5", "paths", where, f"{n_tom}+{n_nxt} paths examined")
    rep.sample({"paths": [(o.kind, o.exc_name or T.show(o.value)[:120]) for o in outs], "clock_reads": sorted(reads)})


def _mods(pc: List[T.Term]) -> List[T.Term]:
    found: List[T.Term] = []

    def walk(v: Any) -> None:
        if isinstance(v, tuple):
            if v[:2] == ("app", "mod") and len(v) == 4 and v not in found:
                found.append(v)
            for x in v:
                walk(x)
        elif isinstance(v, T.Lin):
            for t in v.coef:
                walk(t)
    for g in pc:
        walk(g)
    return found


def all_residues_missed(pc: List[T.Term], sel: T.Term) -> bool:
    """Lemma: (w + k) mod 7 for k = 1..7 covers every weekday, so a path on which all seven are 'not in S'
    implies S is empty - impossible after the 'no days' case was answered.  Such a path is infeasible."""
    ks = set()
    for g in _flat13(pc):
        if isinstance(g, tuple) and g[:2] == ("cmp", "not in") and _same_sel(g[3], sel) and isinstance(g[2], tuple) and g[2][:2] == ("app", "mod") and g[2][3] == c(7):
            w_terms = [t for t in T.Lin.of(g[2][2]).coef]
            if len(w_terms) == 1 and isinstance(T.Lin.of(g[2][2]).const, int):
                ks.add(T.Lin.of(g[2][2]).const % 7)
    return len(ks) == 7


def _flat13(pc: List[T.Term]) -> List[T.Term]:
    out: List[T.Term] = []
    for g in pc:
        if isinstance(g, tuple) and g and g[0] == "and":
            out.extend(g[1:])
        else:
            out.append(g)
    return out


def _same_sel(a: Any, sel: T.Term) -> bool:
    """The selected weekdays as a list or as a set comprehension over the same days."""
    return isinstance(a, tuple) and len(a) == 4 and a[0] == "mapobj" and a[:3] == sel[:3]


def _mentions_sym(v: Any, name: str) -> bool:
    from ..frames import mentions
    return mentions(v, name)
