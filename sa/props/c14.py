"""C14 - a schedule's duration is (end - start) modulo 24 hours (normal form of a 5-line function)."""
from __future__ import annotations

from typing import Any, Dict, List, Optional, Tuple

from .. import terms as T
from ..interp import Interp, conj
from ..model import Program, loc
from ..report import Report
from ..terms import c

LEVEL = "proof"
FUNC = "aioswitcher.schedule.tools:calc_duration"

ONE_DAY = [
    ("app", "datetime.timedelta", ("kw", "days", c(1))),
    ("app", "datetime.timedelta", c(1)),
    ("app", "datetime.timedelta", ("kw", "hours", c(24))),
    ("app", "datetime.timedelta", ("kw", "minutes", c(1440))),
    ("app", "datetime.timedelta", ("kw", "seconds", c(86400))),
]


ZERO = [
    ("app", "datetime.timedelta"),
    ("app", "datetime.timedelta", c(0)),
    ("app", "datetime.timedelta", ("kw", "days", c(0))),
    ("app", "datetime.timedelta", ("kw", "seconds", c(0))),
    ("app", "datetime.timedelta", ("kw", "minutes", c(0))),
    ("app", "datetime.timedelta", ("kw", "hours", c(0))),
]


def parse_of(v: T.Term, param: T.Term) -> Optional[str]:
    """If v is datetime.strptime(param, <const fmt>) return fmt."""
    if isinstance(v, tuple) and v[:2] == ("app", "datetime.datetime.strptime") and len(v) == 4:
        s = v[2]
        if (s == param or s == ("seq", "s", (("whole", param),))) and T.is_c(v[3]) and isinstance(v[3][1], str):
            return v[3][1]
    return None


def canon_tod(v: Any) -> Any:
    """tod(X) - tod(Y) == X - Y for X, Y parsed with '%H:%M', where tod(X) = timedelta(hours=X.hour, minutes=X.minute):
    both values lie on 1900-01-01 and carry no seconds, so the offset from midnight differs from the datetime by the same
    constant on both sides.  Differences of such offsets are rewritten to differences of the parsed values."""
    def tod(x: Any) -> Any:
        if isinstance(x, tuple) and x[:2] == ("app", "datetime.timedelta") and len(x) == 4:
            kws = {a[1]: a[2] for a in x[2:] if isinstance(a, tuple) and a[:1] == ("kw",)}
            if set(kws) == {"hours", "minutes"}:
                h, m = kws["hours"], kws["minutes"]
                if (isinstance(h, tuple) and h[:1] == ("extmeth",) and h[2] == "hour" and isinstance(m, tuple) and m[:1] == ("extmeth",) and m[2] == "minute" and h[1] == m[1]
                        and isinstance(h[1], tuple) and h[1][:2] == ("app", "datetime.datetime.strptime") and len(h[1]) == 4 and h[1][3] == c("%H:%M")):
                    return h[1]
        return None
    if isinstance(v, tuple):
        if v[:2] == ("app", "sub") and len(v) == 4:
            a, b = tod(v[2]), tod(v[3])
            if a is not None and b is not None:
                return ("app", "sub", a, b)
        return tuple(canon_tod(x) for x in v)
    return v


def lt_guard(g: T.Term) -> Optional[Tuple[T.Term, T.Term, bool]]:
    """cmp atom as (small, big, strict): small < big (strict) or small <= big."""
    if not (isinstance(g, tuple) and g and g[0] == "cmp"):
        return None
    op, a, b = g[1], g[2], g[3]
    return {"<": (a, b, True), ">": (b, a, True), "<=": (a, b, False), ">=": (b, a, False)}.get(op)


def run(prog: Program, rep: Report, tier: str) -> None:
    rep.rule("R14.3", "range (necessary condition, interval analysis): when the duration is timedelta(days/hours/minutes=...) of integer arithmetic on the HH and MM parts of the two clock strings, "
                      "its minute count stays within [0, 1440) for every HH in 0..23 and MM in 0..59; the bound is reported only when it is attained (every input part occurs once, so the interval is exact)", 0)
    rep.rule("R14.1", "calc_duration(s,e) == str(ite(E < S, E + 1 day, E) - S) (or str((E - S) % 1 day)) with S,E parsed from s,e by the SAME constant format '%H:%M'; strict comparison, increment exactly one day", 4)
    rep.trusted += [
        "datetime.strptime('%H:%M') yields 1900-01-01 HH:MM for valid input and raises ValueError otherwise; timedelta arithmetic; str(timedelta) == 'H:MM:SS' below one day (CPython docs)",
        "arithmetic lemma: for S,E in [0,24h) on one calendar day, ite(E<S, E+24h, E) - S == (E-S) mod 24h, and equal times give 0 because the comparison is strict",
    ]
    fi = prog.func(FUNC)
    where = f"{loc(fi, fi.node)} {fi.qualname}"
    reported_duration_rule(prog, rep)
    if len(fi.params) != 2:
        rep.undecided("R14.1", "signature", where, "calc_duration no longer takes (start, end)")
        return
    I = Interp(prog)
    st = I.new_state()
    s_p = ("sym", fi.params[0], "str")
    e_p = ("sym", fi.params[1], "str")
    outs = I.run(fi, {fi.params[0]: s_p, fi.params[1]: e_p}, st)
    rep.analysed["functions"] = sorted(I.functions_visited)
    rep.analysed["paths"] = len(outs)
    rets = [o for o in outs if o.kind == "return"]
    rep.sample({"function": FUNC, "paths": [(o.kind, o.exc_name, T.show(o.value)[:200] if o.kind == "return" else "", T.show(conj(o.state.pc))[:300]) for o in outs]})
    for o in outs:
        if o.kind == "raise":
            rep.check(o.exc_name == "ValueError" and any(g[0] == "invalid" and "strptime" in g[1] for g in o.state.pc), "R14.1", "only malformed times raise", where,
                      f"calc_duration can raise {o.exc_name} at {o.value[3]}", key="R14.1|raise")
    if not rets:
        rep.bad("R14.1", "returns", where, "calc_duration never returns", key="R14.1|noreturn")
        return
    S = ("app", "datetime.datetime.strptime", s_p, c("%H:%M"))
    E = ("app", "datetime.datetime.strptime", e_p, c("%H:%M"))
    covered = {"lt": False, "ge": False, "mod": False}
    foreign = 0
    for k, o in enumerate(rets):
        v = canon_tod(o.value)
        o.state.pc[:] = [canon_tod(g) for g in o.state.pc]
        if T.contains_top(v):
            rep.undecided("R14.1", f"path {k}", where, f"not understood: {T.contains_top(v)}")
            continue
        inner = None
        if T.is_seq(v) and len(v[2]) == 1 and v[2][0][0] == "txt" and v[2][0][1][:2] == ("app", "str") and len(v[2][0][1]) == 3:
            inner = v[2][0][1][2]
        if inner is None:
            # form D: minutes arithmetic.  With Em = 60*E.hour + E.minute (same for S) and M = (Em - Sm) % 1440 the text
            # f"{M // 60}:{M % 60:02d}:00" is str() of the timedelta (E - S) mod 24 h (lemma: '%H:%M' parses to whole
            # minutes; str(timedelta) below one day is 'H:MM:SS' with H unpadded).
            if v == minutes_form(I, S, E, 1440):
                covered["mod"] = True
                rep.ok("R14.1", f"path {k}: modular form on minutes", where, "equal to the reference text built from strptime(s, '%H:%M') and strptime(e, '%H:%M')")
                continue
            for wrong in (1439, 1441, 720, 86400):
                if v == minutes_form(I, S, E, wrong):
                    rep.bad("R14.1", f"path {k}: modulus", where, f"the minute difference is reduced modulo {wrong}, not 1440 (minutes per day)", key="R14.1|modulus")
                    break
            else:
                rep.undecided("R14.1", f"path {k}: result form", where,
                              f"the duration is computed as {T.show(v)[:260]}, which is none of the accepted forms (timedelta forms, (Em - Sm) % 1440 on minutes); "
                              f"whether another arithmetic is equal to (end - start) mod 24 h cannot be decided by comparing normal forms")
            continue
        # formats
        fmts = set()
        _collect_fmts(inner, s_p, e_p, fmts)
        for g in o.state.pc:
            _collect_fmts(g, s_p, e_p, fmts)
        if not fmts:
            # the clock strings are not parsed by strptime at all (split / slicing / int): a foreign form, not a
            # deviating part of the recognised one
            foreign += 1
            minutes_range_rule(rep, k, inner, o.state.pc, s_p, e_p, where)
            rep.undecided("R14.1", f"path {k}: parse", where,
                          f"start/end are not parsed with datetime.strptime (the duration is {T.show(inner)[:200]}); whether this arithmetic equals (end - start) mod 24 h is outside the normal-form comparison")
            continue
        if fmts != {"%H:%M"}:
            rep.bad("R14.1", f"path {k}: formats", where, f"start/end are parsed with formats {sorted(fmts)}; both must be the same '%H:%M' so they lie on one calendar day", key="R14.1|formats")
            continue
        allg = [lt_guard(g) for g in o.state.pc if lt_guard(g) is not None]
        guards = [g for g in allg if {g[0], g[1]} == {S, E}]
        # the same test on the difference: (E - S) < timedelta(0)  <=>  E < S
        D = ("app", "sub", E, S)
        for g in allg:
            if g[0] == D and g[1] in ZERO:
                guards.append((E, S, g[2]))
            elif g[1] == D and g[0] in ZERO:
                guards.append((S, E, g[2]))
        if inner == ("app", "datetime.timedelta", ("kw", "seconds", ("extmeth", D, "seconds"))):
            # form E: timedelta(seconds=(E - S).seconds).  A timedelta is normalised to days + seconds + microseconds
            # with 0 <= seconds < 86400; E - S has no microseconds ('%H:%M') and lies strictly within one day either
            # way, so days is 0 or -1 and .seconds alone is (E - S) mod 1 day.
            covered["mod"] = True
            rep.ok("R14.1", f"path {k}: modular form through the normalised seconds field", where)
            continue
        if inner == ("app", "mod", ("app", "sub", E, S)) + () or (inner[:2] == ("app", "mod") and inner[2] == ("app", "sub", E, S) and inner[3] in ONE_DAY):
            covered["mod"] = True
            rep.ok("R14.1", f"path {k}: modular form", where)
            continue
        if inner == ("app", "sub", E, S):
            # plain difference: must be guarded by not (E < S)  i.e. S <= E
            ok = any(g == (S, E, False) for g in guards)
            covered["ge"] = covered["ge"] or ok
            rep.check(ok, "R14.1", f"path {k}: end - start when end >= start", where,
                      f"end - start is returned under guard {T.show(conj(o.state.pc))[:240]}; it must be exactly the case end >= start (strict '<' test)", key="R14.1|ge-branch")
            continue
        if inner[:2] == ("app", "sub") and inner[3] == S and inner[2][:2] == ("app", "add") and ((inner[2][2] == E and inner[2][3] in ONE_DAY) or (inner[2][3] == E and inner[2][2] in ONE_DAY)):
            ok = any(g == (E, S, True) for g in guards)
            covered["lt"] = covered["lt"] or ok
            rep.check(ok, "R14.1", f"path {k}: (end + 1 day) - start when end < start", where,
                      f"(end + 1 day) - start is returned under guard {T.show(conj(o.state.pc))[:240]}; it must be exactly the case end < start (strict)", key="R14.1|lt-branch")
            continue
        if inner[:2] == ("app", "add") and len(inner) == 4 and ((inner[2] == D and inner[3] in ONE_DAY) or (inner[3] == D and inner[2] in ONE_DAY)):
            ok = any(g == (E, S, True) for g in guards)
            covered["lt"] = covered["lt"] or ok
            rep.check(ok, "R14.1", f"path {k}: (end - start) + 1 day when end < start", where,
                      f"(end - start) + 1 day is returned under guard {T.show(conj(o.state.pc))[:240]}; it must be exactly the case end < start (strict)", key="R14.1|lt-branch")
            continue
        if not any(x in T.show(inner) for x in ("datetime.datetime.strptime(end_time", "datetime.datetime.strptime(start_time")) or _foreign_arith(inner):
            rep.undecided("R14.1", f"path {k}: value", where,
                          f"the duration is computed as {T.show(inner)[:260]}: not one of the accepted normal forms; equality of another arithmetic with (end - start) mod 24 h is outside this analysis")
            continue
        rep.bad("R14.1", f"path {k}: value", where, f"duration is computed as {T.show(inner)[:300]}; accepted forms: (E - S), (E + 1 day) - S, (E - S) + 1 day, (E - S) % 1 day", key="R14.1|value")
    complete = covered["mod"] or (covered["lt"] and covered["ge"])
    n_und = sum(1 for ob in rep.obligations if ob.rule == "R14.1" and ob.verdict == "UNDECIDED")
    if (foreign or n_und) and not complete:
        rep.undecided("R14.1", "case split complete", where, f"{max(foreign, n_und)} returning path(s) compute the duration in a form this rule does not compare")
        return
    rep.check(complete, "R14.1", "case split complete", where, f"the cases end<start / end>=start are not both covered correctly: {covered}", key="R14.1|complete")


def reported_duration_rule(prog: Program, rep: Report) -> None:
    """R14.2: the duration a schedule REPORTS is calc_duration of that very schedule's start and end."""
    rep.rule("R14.2", "the duration reported by a schedule object is calc_duration(its own start_time, its own end_time), computed when the object is built and not remembered per slot id (no cache decorator on the way)", 2)
    from ..interp import Ctx
    sci = prog.cls("aioswitcher.schedule.parser:SwitcherSchedule")
    swhere = f"{loc(sci, sci.node)} SwitcherSchedule"

    def stub(I: Interp, args: List[T.Term], kw: Any, st: Any, ctx: Any, node: Any) -> T.Term:
        return ("app", "calc_duration") + tuple(args)

    def stub2(I: Interp, args: List[T.Term], kw: Any, st: Any, ctx: Any, node: Any) -> T.Term:
        return ("app", "pretty_next_run") + tuple(args)

    I = Interp(prog, stubs={FUNC: stub, "aioswitcher.schedule.tools:pretty_next_run": stub2})
    st = I.new_state()
    sid, rec, days, s_, e_ = ("sym", "schedule_id", "str"), ("sym", "recurring", "bool"), ("sym", "days", ("set", ("enum", "aioswitcher.schedule:Days"))), ("sym", "start_time", "str"), ("sym", "end_time", "str")
    # every parameter the constructor accepts beyond the five of today's tree is supplied too, as an unknown value of its
    # declared type: a duration the CALLER can hand in (an optional `duration` field that __post_init__ keeps when it is
    # non-empty) is a reported duration that is not calc_duration of the object's own times
    import ast as _ast
    known = {"schedule_id": sid, "recurring": rec, "days": days, "start_time": s_, "end_time": e_}
    extra: Dict[str, T.Term] = {}
    if sci.is_dataclass and sci.find_method("__init__") is None:
        for f in sci.init_params():
            if f.name in known:
                continue
            ann = f.annotation.id if isinstance(f.annotation, _ast.Name) else None
            if isinstance(f.annotation, _ast.Subscript) and isinstance(f.annotation.value, _ast.Name) and f.annotation.value.id == "Optional" and isinstance(f.annotation.slice, _ast.Name):
                ann = f.annotation.slice.id
            if ann not in ("str", "int", "bool"):
                rep.undecided("R14.2", "duration wiring", swhere, f"SwitcherSchedule accepts a further constructor parameter `{f.name}` whose declared type is not str / int / bool: not followed")
                return
            extra[f.name] = ("sym", f.name, ann)
    if extra and all(k in {f.name for f in sci.init_params()} for k in known):
        outs = I.construct(sci, [], {**known, **extra}, st, Ctx(None, sci.module, 0), sci.node)
    else:
        outs = I.construct(sci, [sid, rec, days, s_, e_], dict(extra), st, Ctx(None, sci.module, 0), sci.node)
    rets = [o for o in outs if o.kind == "return"]
    bad = None
    for o in rets:
        d = o.state.heap[o.value[1]].fields.get("duration")
        if d != ("app", "calc_duration", s_, e_):
            bad = f"duration of a schedule is {T.show(d)[:120] if d else None}{' when ' + T.show(conj(list(o.state.pc)))[:120] if o.state.pc else ''}; expected calc_duration(start_time, end_time) of the same object"
    rep.check(bad is None and bool(rets), "R14.2", "duration wiring", swhere, bad or "SwitcherSchedule(...) never returns", key="R14.2|wiring")
    cached = []
    for key in I.functions_visited:
        f_ = prog.func(key)
        decos = [d for d in f_.decorators if d.split("(")[0].split(".")[-1] in ("cache", "lru_cache", "cached_property", "memoize", "memoized")]
        if decos:
            cached.append(f"{f_.qualname} {decos}")
    f0 = prog.func(FUNC)
    decos0 = [d for d in f0.decorators if d.split("(")[0].split(".")[-1] in ("cache", "lru_cache", "cached_property", "memoize", "memoized")]
    rep.check(not cached, "R14.2", "not memoised per schedule", swhere,
              f"the duration is computed through {cached}: a method's cache key is the schedule object, which hashes and compares by slot id only - a schedule whose times were edited reports the old duration", key="R14.2|memo")
    _ = decos0


def minutes_form(I: Interp, S: T.Term, E: T.Term, modulus: int) -> T.Term:
    """The reference text of form D, built by the interpreter itself from a reference expression."""
    import ast as _ast
    from ..interp import Ctx, State
    st = State()
    st.env = {"S": S, "E": E}
    src = f"f\"{{((E.hour * 60 + E.minute) - (S.hour * 60 + S.minute)) % {modulus} // 60}}:{{((E.hour * 60 + E.minute) - (S.hour * 60 + S.minute)) % {modulus} % 60:02d}}:00\""
    mod = I.prog.module("aioswitcher.schedule.tools")
    return I.eval(_ast.parse(src, mode="eval").body, st, Ctx(None, mod, 0))


def _foreign_arith(v: Any) -> bool:
    """Arithmetic that the timedelta normal forms never contain (products, quotients, remainders by numbers)."""
    if isinstance(v, tuple):
        if v[:1] == ("app",) and len(v) > 1 and v[1] in ("mul", "floordiv", "truediv", "int", ".total_seconds", "time.mktime", "divmod"):
            return True
        if v[:2] == ("app", "mod") and len(v) == 4 and T.is_c(v[3]):
            return True
        return any(_foreign_arith(x) for x in v)
    return False


def _collect_fmts(v: Any, s_p: T.Term, e_p: T.Term, acc: set) -> None:
    if isinstance(v, tuple):
        if v[:2] == ("app", "datetime.datetime.strptime") and len(v) >= 4:
            acc.add(v[3][1] if T.is_c(v[3]) else "?")
        elif v[:2] == ("app", "time.strptime") and len(v) >= 4:
            acc.add(v[3][1] if T.is_c(v[3]) else "?")
        for x in v:
            _collect_fmts(x, s_p, e_p, acc)


# ---------------------------------------------------------------------------
# R14.3: interval analysis of a duration built from the integer parts of the clock strings
def _clock_leaf(t: Any, s_p: T.Term, e_p: T.Term) -> Optional[Tuple[str, str]]:
    """('s'|'e', 'h'|'m') when t is the integer hour / minute part of one of the two clock strings."""
    which = {s_p: "s", e_p: "e"}

    def param_of_split(sl: Any) -> Optional[str]:
        if isinstance(sl, tuple) and sl[:1] == ("splitlist",) and len(sl) >= 3 and sl[2] in (c(":"), ":"):
            src = sl[1]
            if isinstance(src, tuple) and src[:1] == ("seq",) and len(src[2]) == 1 and src[2][0][:1] == ("whole",):
                src = src[2][0][1]
            return which.get(src)
        return None

    if isinstance(t, tuple) and t[:1] == ("item",) and len(t) == 3 and T.is_c(t[2]) and t[2][1] in (0, 1):
        m = t[1]
        if isinstance(m, tuple) and (m[:1] == ("map",) or (m[:1] == ("mapobj",) and len(m) == 4)) and isinstance(m[1], tuple) and m[1][:2] == ("app", "int") and len(m[1]) == 3 and m[1][2][:2] == ("sym", "$e"):
            w = param_of_split(m[2])
            if w:
                return (w, "hm"[t[2][1]])
    if isinstance(t, tuple) and t[:2] == ("app", "int") and len(t) == 3:
        x = t[2]
        if isinstance(x, tuple) and x[:1] == ("seq",) and len(x[2]) == 1 and x[2][0][:1] == ("txt",) and isinstance(x[2][0][1], tuple) and x[2][0][1][:1] == ("part",):
            pt = x[2][0][1]
            w = param_of_split(pt[1])
            if w and pt[2] in (0, 1) and pt[3] == 2:
                return (w, "hm"[pt[2]])
    return None


def _minute_interval(t: Any, s_p: T.Term, e_p: T.Term, leaves: List[Tuple[str, str]]) -> Optional[Tuple[int, int]]:
    """[lo, hi] of an integer term over HH in 0..23, MM in 0..59; both ends are attained when no leaf repeats."""
    if T.is_c(t) and isinstance(t[1], int) and not isinstance(t[1], bool):
        return (t[1], t[1])
    lf = _clock_leaf(t, s_p, e_p)
    if lf is not None:
        leaves.append(lf)
        return (0, 23) if lf[1] == "h" else (0, 59)
    if isinstance(t, tuple) and t[:1] == ("lin",):
        lo = hi = t[1].const
        if not isinstance(lo, int):
            return None
        for x, k in t[1].coef.items():
            r = _minute_interval(x, s_p, e_p, leaves)
            if r is None or not isinstance(k, int):
                return None
            lo += k * (r[0] if k >= 0 else r[1])
            hi += k * (r[1] if k >= 0 else r[0])
        return (lo, hi)
    if isinstance(t, tuple) and t[:2] in (("app", "mod"), ("app", "floordiv")) and len(t) == 4 and T.is_c(t[3]) and isinstance(t[3][1], int) and t[3][1] > 0:
        r = _minute_interval(t[2], s_p, e_p, leaves)
        if r is None:
            return None
        k = t[3][1]
        if t[1] == "floordiv":
            return (r[0] // k, r[1] // k)
        if r[1] - r[0] + 1 >= k:
            return (0, k - 1)
        vals = [x % k for x in range(r[0], r[1] + 1)]
        return (min(vals), max(vals))
    return None


def minutes_range_rule(rep: Report, k: int, inner: Any, pc: List[Any], s_p: T.Term, e_p: T.Term, where: str) -> None:
    if not (isinstance(inner, tuple) and inner[:2] == ("app", "datetime.timedelta") and all(isinstance(a, tuple) and a[:1] == ("kw",) and a[1] in ("days", "hours", "minutes") for a in inner[2:])):
        return
    total = T.Lin({}, 0)
    for a in inner[2:]:
        total = total + T.Lin.of(a[2]).scale({"days": 1440, "hours": 60, "minutes": 1}[a[1]])
    # a path guard on a linear sub-combination G of the total (total = rest + a*G, G's parts not in rest) narrows G
    narrowed: Optional[Tuple[Any, int, Tuple[int, int]]] = None
    for g in pc:
        if not (isinstance(g, tuple) and g[:1] == ("cmp",) and g[1] in ("<", "<=", ">", ">=") and T.is_c(g[3]) and isinstance(g[3][1], int)):
            continue
        G = T.Lin.of(g[2])
        if not G.coef or G.const != 0 or not all(x in total.coef for x in G.coef) or not any(abs(q) == 1 for q in G.coef.values()):
            continue
        x0 = next(iter(G.coef))
        if total.coef[x0] % G.coef[x0]:
            continue
        a = total.coef[x0] // G.coef[x0]
        if any(total.coef[x] != a * q for x, q in G.coef.items()):
            continue
        lv: List[Tuple[str, str]] = []
        r = _minute_interval(G.term(), s_p, e_p, lv)
        if r is None or len(set(lv)) != len(lv):
            continue
        lo, hi = r
        n = g[3][1]
        lo, hi = {"<": (lo, min(hi, n - 1)), "<=": (lo, min(hi, n)), ">": (max(lo, n + 1), hi), ">=": (max(lo, n), hi)}[g[1]]
        if lo > hi:
            return      # infeasible path
        narrowed = (G, a, (lo, hi))
        break
    leaves: List[Tuple[str, str]] = []
    rest = total
    lo = hi = 0
    if narrowed is not None:
        G, a, (glo, ghi) = narrowed
        rest = total - G.scale(a)
        lo, hi = (a * glo, a * ghi) if a >= 0 else (a * ghi, a * glo)
        _minute_interval(G.term(), s_p, e_p, leaves)
    r = _minute_interval(rest.term(), s_p, e_p, leaves)
    if r is None:
        return
    lo, hi = lo + r[0], hi + r[1]
    exact = len(set(leaves)) == len(leaves)
    if 0 <= lo and hi <= 1439:
        rep.ok("R14.3", f"path {k}: minute count within a day", where, f"minute count in [{lo},{hi}]")
    elif exact:
        rep.bad("R14.3", f"path {k}: minute count within a day", where,
                f"the duration is timedelta of {T.show(total.term())[:220]} minutes, which ranges over [{lo},{hi}] for HH in 0..23 and MM in 0..59 on this path "
                f"(every part occurs once, so both ends are reached): a duration outside [0, 24 h) is reported for some pair of times", key="R14.3|range")
