"""C14 - a schedule's duration is (end - start) modulo 24 hours (normal form of a 5-line function)."""
from __future__ import annotations

from typing import Any, List, Optional, Tuple

from .. import terms as T
from ..interp import Interp, conj
from ..model import Program, loc
from ..report import Report
from ..terms import c

LEVEL = "proof"
FUNC = "aioswitcher.schedule.tools:calc_duration"

ONE_DAY = [
    ("app", "datetime.timedelta", ("kw", "days", c(1))),
    ("app", "datetime.timedelta", c(1)),
    ("app", "datetime.timedelta", ("kw", "hours", c(24))),
    ("app", "datetime.timedelta", ("kw", "minutes", c(1440))),
    ("app", "datetime.timedelta", ("kw", "seconds", c(86400))),
]


ZERO = [
    ("app", "datetime.timedelta"),
    ("app", "datetime.timedelta", c(0)),
    ("app", "datetime.timedelta", ("kw", "days", c(0))),
    ("app", "datetime.timedelta", ("kw", "seconds", c(0))),
    ("app", "datetime.timedelta", ("kw", "minutes", c(0))),
    ("app", "datetime.timedelta", ("kw", "hours", c(0))),
]


def parse_of(v: T.Term, param: T.Term) -> Optional[str]:
    """If v is datetime.strptime(param, <const fmt>) return fmt."""
    if isinstance(v, tuple) and v[:2] == ("app", "datetime.datetime.strptime") and len(v) == 4:
        s = v[2]
        if (s == param or s == ("seq", "s", (("whole", param),))) and T.is_c(v[3]) and isinstance(v[3][1], str):
            return v[3][1]
    return None


def lt_guard(g: T.Term) -> Optional[Tuple[T.Term, T.Term, bool]]:
    """cmp atom as (small, big, strict): small < big (strict) or small <= big."""
    if not (isinstance(g, tuple) and g and g[0] == "cmp"):
        return None
    op, a, b = g[1], g[2], g[3]
    return {"<": (a, b, True), ">": (b, a, True), "<=": (a, b, False), ">=": (b, a, False)}.get(op)


def run(prog: Program, rep: Report, tier: str) -> None:
    rep.rule("R14.1", "calc_duration(s,e) == str(ite(E < S, E + 1 day, E) - S) (or str((E - S) % 1 day)) with S,E parsed from s,e by the SAME constant format '%H:%M'; strict comparison, increment exactly one day", 4)
    rep.trusted += [
        "datetime.strptime('%H:%M') yields 1900-01-01 HH:MM for valid input and raises ValueError otherwise; timedelta arithmetic; str(timedelta) == 'H:MM:SS' below one day (CPython docs)",
        "arithmetic lemma: for S,E in [0,24h) on one calendar day, ite(E<S, E+24h, E) - S == (E-S) mod 24h, and equal times give 0 because the comparison is strict",
    ]
    fi = prog.func(FUNC)
    where = f"{loc(fi, fi.node)} {fi.qualname}"
    reported_duration_rule(prog, rep)
    if len(fi.params) != 2:
        rep.undecided("R14.1", "signature", where, "calc_duration no longer takes (start, end)")
        return
    I = Interp(prog)
    st = I.new_state()
    s_p = ("sym", fi.params[0], "str")
    e_p = ("sym", fi.params[1], "str")
    outs = I.run(fi, {fi.params[0]: s_p, fi.params[1]: e_p}, st)
    rep.analysed["functions"] = sorted(I.functions_visited)
    rep.analysed["paths"] = len(outs)
    rets = [o for o in outs if o.kind == "return"]
    rep.sample({"function": FUNC, "paths": [(o.kind, o.exc_name, T.show(o.value)[:200] if o.kind == "return" else "", T.show(conj(o.state.pc))[:300]) for o in outs]})
    for o in outs:
        if o.kind == "raise":
            rep.check(o.exc_name == "ValueError" and any(g[0] == "invalid" and "strptime" in g[1] for g in o.state.pc), "R14.1", "only malformed times raise", where,
                      f"calc_duration can raise {o.exc_name} at {o.value[3]}", key="R14.1|raise")
    if not rets:
        rep.bad("R14.1", "returns", where, "calc_duration never returns", key="R14.1|noreturn")
        return
    S = ("app", "datetime.datetime.strptime", s_p, c("%H:%M"))
    E = ("app", "datetime.datetime.strptime", e_p, c("%H:%M"))
    covered = {"lt": False, "ge": False, "mod": False}
    for k, o in enumerate(rets):
        v = o.value
        if T.contains_top(v):
            rep.undecided("R14.1", f"path {k}", where, f"not understood: {T.contains_top(v)}")
            continue
        inner = None
        if T.is_seq(v) and len(v[2]) == 1 and v[2][0][0] == "txt" and v[2][0][1][:2] == ("app", "str") and len(v[2][0][1]) == 3:
            inner = v[2][0][1][2]
        if inner is None:
            # form D: minutes arithmetic.  With Em = 60*E.hour + E.minute (same for S) and M = (Em - Sm) % 1440 the text
            # f"{M // 60}:{M % 60:02d}:00" is str() of the timedelta (E - S) mod 24 h (lemma: '%H:%M' parses to whole
            # minutes; str(timedelta) below one day is 'H:MM:SS' with H unpadded).
            if v == minutes_form(I, S, E, 1440):
                covered["mod"] = True
                rep.ok("R14.1", f"path {k}: modular form on minutes", where, "equal to the reference text built from strptime(s, '%H:%M') and strptime(e, '%H:%M')")
                continue
            for wrong in (1439, 1441, 720, 86400):
                if v == minutes_form(I, S, E, wrong):
                    rep.bad("R14.1", f"path {k}: modulus", where, f"the minute difference is reduced modulo {wrong}, not 1440 (minutes per day)", key="R14.1|modulus")
                    break
            else:
                rep.undecided("R14.1", f"path {k}: result form", where,
                              f"the duration is computed as {T.show(v)[:260]}, which is none of the accepted forms (timedelta forms, (Em - Sm) % 1440 on minutes); "
                              f"whether another arithmetic is equal to (end - start) mod 24 h cannot be decided by comparing normal forms")
            continue
        # formats
        fmts = set()
        _collect_fmts(inner, s_p, e_p, fmts)
        for g in o.state.pc:
            _collect_fmts(g, s_p, e_p, fmts)
        if fmts != {"%H:%M"}:
            rep.bad("R14.1", f"path {k}: formats", where, f"start/end are parsed with formats {sorted(fmts)}; both must be the same '%H:%M' so they lie on one calendar day", key="R14.1|formats")
            continue
        allg = [lt_guard(g) for g in o.state.pc if lt_guard(g) is not None]
        guards = [g for g in allg if {g[0], g[1]} == {S, E}]
        # the same test on the difference: (E - S) < timedelta(0)  <=>  E < S
        D = ("app", "sub", E, S)
        for g in allg:
            if g[0] == D and g[1] in ZERO:
                guards.append((E, S, g[2]))
            elif g[1] == D and g[0] in ZERO:
                guards.append((S, E, g[2]))
        if inner == ("app", "mod", ("app", "sub", E, S)) + () or (inner[:2] == ("app", "mod") and inner[2] == ("app", "sub", E, S) and inner[3] in ONE_DAY):
            covered["mod"] = True
            rep.ok("R14.1", f"path {k}: modular form", where)
            continue
        if inner == ("app", "sub", E, S):
            # plain difference: must be guarded by not (E < S)  i.e. S <= E
            ok = any(g == (S, E, False) for g in guards)
            covered["ge"] = covered["ge"] or ok
            rep.check(ok, "R14.1", f"path {k}: end - start when end >= start", where,
                      f"end - start is returned under guard {T.show(conj(o.state.pc))[:240]}; it must be exactly the case end >= start (strict '<' test)", key="R14.1|ge-branch")
            continue
        if inner[:2] == ("app", "sub") and inner[3] == S and inner[2][:2] == ("app", "add") and ((inner[2][2] == E and inner[2][3] in ONE_DAY) or (inner[2][3] == E and inner[2][2] in ONE_DAY)):
            ok = any(g == (E, S, True) for g in guards)
            covered["lt"] = covered["lt"] or ok
            rep.check(ok, "R14.1", f"path {k}: (end + 1 day) - start when end < start", where,
                      f"(end + 1 day) - start is returned under guard {T.show(conj(o.state.pc))[:240]}; it must be exactly the case end < start (strict)", key="R14.1|lt-branch")
            continue
        if inner[:2] == ("app", "add") and len(inner) == 4 and ((inner[2] == D and inner[3] in ONE_DAY) or (inner[3] == D and inner[2] in ONE_DAY)):
            ok = any(g == (E, S, True) for g in guards)
            covered["lt"] = covered["lt"] or ok
            rep.check(ok, "R14.1", f"path {k}: (end - start) + 1 day when end < start", where,
                      f"(end - start) + 1 day is returned under guard {T.show(conj(o.state.pc))[:240]}; it must be exactly the case end < start (strict)", key="R14.1|lt-branch")
            continue
        if not any(x in T.show(inner) for x in ("datetime.datetime.strptime(end_time", "datetime.datetime.strptime(start_time")) or _foreign_arith(inner):
            rep.undecided("R14.1", f"path {k}: value", where,
                          f"the duration is computed as {T.show(inner)[:260]}: not one of the accepted normal forms; equality of another arithmetic with (end - start) mod 24 h is outside this analysis")
            continue
        rep.bad("R14.1", f"path {k}: value", where, f"duration is computed as {T.show(inner)[:300]}; accepted forms: (E - S), (E + 1 day) - S, (E - S) + 1 day, (E - S) % 1 day", key="R14.1|value")
    complete = covered["mod"] or (covered["lt"] and covered["ge"])
    rep.check(complete, "R14.1", "case split complete", where, f"the cases end<start / end>=start are not both covered correctly: {covered}", key="R14.1|complete")


def reported_duration_rule(prog: Program, rep: Report) -> None:
    """R14.2: the duration a schedule REPORTS is calc_duration of that very schedule's start and end."""
    rep.rule("R14.2", "the duration reported by a schedule object is calc_duration(its own start_time, its own end_time), computed when the object is built and not remembered per slot id (no cache decorator on the way)", 2)
    from ..interp import Ctx
    sci = prog.cls("aioswitcher.schedule.parser:SwitcherSchedule")
    swhere = f"{loc(sci, sci.node)} SwitcherSchedule"

    def stub(I: Interp, args: List[T.Term], kw: Any, st: Any, ctx: Any, node: Any) -> T.Term:
        return ("app", "calc_duration") + tuple(args)

    def stub2(I: Interp, args: List[T.Term], kw: Any, st: Any, ctx: Any, node: Any) -> T.Term:
        return ("app", "pretty_next_run") + tuple(args)

    I = Interp(prog, stubs={FUNC: stub, "aioswitcher.schedule.tools:pretty_next_run": stub2})
    st = I.new_state()
    sid, rec, days, s_, e_ = ("sym", "schedule_id", "str"), ("sym", "recurring", "bool"), ("sym", "days", ("set", ("enum", "aioswitcher.schedule:Days"))), ("sym", "start_time", "str"), ("sym", "end_time", "str")
    outs = I.construct(sci, [sid, rec, days, s_, e_], {}, st, Ctx(None, sci.module, 0), sci.node)
    rets = [o for o in outs if o.kind == "return"]
    bad = None
    for o in rets:
        d = o.state.heap[o.value[1]].fields.get("duration")
        if d != ("app", "calc_duration", s_, e_):
            bad = f"duration of a schedule is {T.show(d)[:120] if d else None}; expected calc_duration(start_time, end_time) of the same object"
    rep.check(bad is None and bool(rets), "R14.2", "duration wiring", swhere, bad or "SwitcherSchedule(...) never returns", key="R14.2|wiring")
    cached = []
    for key in I.functions_visited:
        f_ = prog.func(key)
        decos = [d for d in f_.decorators if d.split("(")[0].split(".")[-1] in ("cache", "lru_cache", "cached_property", "memoize", "memoized")]
        if decos:
            cached.append(f"{f_.qualname} {decos}")
    f0 = prog.func(FUNC)
    decos0 = [d for d in f0.decorators if d.split("(")[0].split(".")[-1] in ("cache", "lru_cache", "cached_property", "memoize", "memoized")]
    rep.check(not cached, "R14.2", "not memoised per schedule", swhere,
              f"the duration is computed through {cached}: a method's cache key is the schedule object, which hashes and compares by slot id only - a schedule whose times were edited reports the old duration", key="R14.2|memo")
    _ = decos0


def minutes_form(I: Interp, S: T.Term, E: T.Term, modulus: int) -> T.Term:
    """The reference text of form D, built by the interpreter itself from a reference expression."""
    import ast as _ast
    from ..interp import Ctx, State
    st = State()
    st.env = {"S": S, "E": E}
    src = f"f\"{{((E.hour * 60 + E.minute) - (S.hour * 60 + S.minute)) % {modulus} // 60}}:{{((E.hour * 60 + E.minute) - (S.hour * 60 + S.minute)) % {modulus} % 60:02d}}:00\""
    mod = I.prog.module("aioswitcher.schedule.tools")
    return I.eval(_ast.parse(src, mode="eval").body, st, Ctx(None, mod, 0))


def _foreign_arith(v: Any) -> bool:
    """Arithmetic that the timedelta normal forms never contain (products, quotients, remainders by numbers)."""
    if isinstance(v, tuple):
        if v[:1] == ("app",) and len(v) > 1 and v[1] in ("mul", "floordiv", "truediv", "int", ".total_seconds", "time.mktime", "divmod"):
            return True
        if v[:2] == ("app", "mod") and len(v) == 4 and T.is_c(v[3]):
            return True
        return any(_foreign_arith(x) for x in v)
    return False


def _collect_fmts(v: Any, s_p: T.Term, e_p: T.Term, acc: set) -> None:
    if isinstance(v, tuple):
        if v[:2] == ("app", "datetime.datetime.strptime") and len(v) >= 4:
            acc.add(v[3][1] if T.is_c(v[3]) else "?")
        elif v[:2] == ("app", "time.strptime") and len(v) >= 4:
            acc.add(v[3][1] if T.is_c(v[3]) else "?")
        for x in v:
            _collect_fmts(x, s_p, e_p, acc)
