"""C11 - clock times survive encoding and decoding (structural clauses; the libc round trip itself is NOT decided)."""
from __future__ import annotations

import re
from typing import Any, Dict, List, Optional, Set, Tuple

from .. import frames as F
from .. import terms as T
from ..interp import Interp, Outcome, conj
from ..model import Program, loc
from ..report import Report
from ..terms import c
from .c02 import clock_split_rule
from .c05 import canon

LEVEL = "other"
TOOLS = "aioswitcher.schedule.tools"

UTC_APIS = {"time.gmtime", "calendar.timegm", "datetime.datetime.utcnow", "datetime.datetime.utcfromtimestamp", "datetime.timezone.utc"}
LOCAL_APIS = {"time.mktime", "time.localtime", "time.strftime", "datetime.datetime.now", "datetime.datetime.today", "datetime.datetime.fromtimestamp"}


def apps_in(v: Any, acc: Optional[Set[str]] = None) -> Set[str]:
    acc = set() if acc is None else acc
    if isinstance(v, tuple):
        if len(v) > 1 and v[0] == "app" and isinstance(v[1], str):
            acc.add(v[1])
        for x in v:
            apps_in(x, acc)
    elif isinstance(v, T.Lin):
        for t in v.coef:
            apps_in(t, acc)
    return acc


def dst_flag_unknown(tt: Any) -> bool:
    """The argument of mktime is a time tuple built some other way than strptime(text, format) AND its DST flag is -1
    ("let the library decide", what strptime gives) or not visible: another form of the same skeleton.  A nine-item
    tuple whose last item is anything else (the tm_isdst of a localtime() reading, 0, 1) is the known defect - the
    encoder then shifts the time by an hour on days whose DST state differs from today's."""
    items = None
    if isinstance(tt, tuple) and tt[:1] == ("tuple",):
        items = tt[1]
    elif isinstance(tt, tuple) and tt[:2] == ("app", "time.struct_time") and len(tt) == 3 and isinstance(tt[2], tuple) and tt[2][:1] == ("tuple",):
        items = tt[2][1]
    if items is not None and len(items) == 9:
        last = items[8]
        if last == T.c(-1):
            return True
        # the tm_isdst of a strptime() result is -1 as well (strptime never decides DST)
        return bool(isinstance(last, tuple) and last[:1] == ("extmeth",) and len(last) == 3 and last[2] == "tm_isdst"
                    and isinstance(last[1], tuple) and last[1][:2] in (("app", "time.strptime"), ("app", "datetime.datetime.strptime")))
    if items is not None:
        return False
    return True


def clock_encoder_form(V: Any) -> Optional[str]:
    """None if V is int(time.mktime(time.strptime(today ++ sep ++ HH ++ ':' ++ MM, DATEFMT ++ sep ++ '%H:%M'))) with
    today = time.strftime(DATEFMT) (current LOCAL date, same directives on both sides); else what is wrong."""
    shape = isinstance(V, tuple) and V[:2] == ("app", "int") and isinstance(V[2], tuple) and V[2][:2] == ("app", "time.mktime") and isinstance(V[2][2], tuple) and V[2][2][:2] == ("app", "time.strptime")
    if not shape:
        mk = isinstance(V, tuple) and V[:2] == ("app", "int") and isinstance(V[2], tuple) and V[2][:2] == ("app", "time.mktime") and dst_flag_unknown(V[2][2])
        # int(time.mktime(<some other way to build today's local time tuple>)) is another form of the same skeleton: not
        # compared here (exit 2), whereas anything that is not mktime at all (timegm, a datetime timestamp, ...) deviates
        return (("FOREIGN: " if mk else "") + f"the encoded integer is {T.show(V)[:200]}; expected int(time.mktime(time.strptime(<today's local date> + ' HH:MM', <same date directives> + ' %H:%M')))")
    text, fmt = V[2][2][2], V[2][2][3]
    if not (T.is_c(fmt) and isinstance(fmt[1], str) and T.is_seq(text)):
        return "text/format of the parse are not understood"
    atoms = text[2]
    today = [a for a in atoms if a[0] == "txt" and isinstance(a[1], tuple) and a[1][:2] == ("app", "time.strftime")]
    if not (len(today) == 1 and len(today[0][1]) == 4 and T.is_c(today[0][1][2]) and today[0][1][3][0] == "occ" and atoms[0] == today[0]):
        return f"the text parsed is {T.show(text)[:200]}: it does not start with time.strftime(<date format>) of the current local date"
    datefmt = today[0][1][2][1]
    if not fmt[1].startswith(datefmt):
        return f"today's date is printed with {datefmt!r} but parsed with {fmt[1]!r}"
    tail = fmt[1][len(datefmt):]
    mt = re.fullmatch(r"(.*)%H(.*)%M", tail, flags=re.S)
    rest = atoms[1:]
    parts = [a for a in rest if a[0] == "txt"]
    seps = "".join(a[1] if a[0] == "L" else "\x00" for a in rest).split("\x00")
    if not (mt and len(parts) == 2 and len(seps) == 3 and seps[0] == mt.group(1) and seps[1] == mt.group(2) and seps[2] == ""):
        return f"clock part {T.show(('seq', 's', tuple(rest)))[:160]} does not match the format tail {tail!r}"
    if not all(isinstance(a[1], tuple) and a[1][0] == "part" and a[1][2] == i for i, a in enumerate(parts)):
        return "hour and minute components are not taken in order from the split clock string"
    return None


def fixed_offset_conversion(v: Any) -> Optional[str]:
    """datetime.fromtimestamp(n, tz) / .astimezone(tz) / .replace(tzinfo=tz) with tz a fixed offset."""
    def fixed(tz: Any) -> Optional[str]:
        txt = T.show(tz)
        for marker in ("datetime.timezone", ".astimezone(", "tzinfo", "timedelta"):
            if marker in txt:
                return marker.strip("(.")
        return None
    if isinstance(v, tuple):
        if v[:2] == ("app", "datetime.datetime.fromtimestamp") and len(v) >= 4:
            tz = v[3][2] if (isinstance(v[3], tuple) and v[3][:1] == ("kw",)) else v[3]
            r = fixed(tz)
            if r:
                return f"fromtimestamp(n, tz) with tz from {r}"
        if v[:2] == ("app", "datetime.datetime.utcfromtimestamp"):
            return "utcfromtimestamp"
        for x in v:
            r2 = fixed_offset_conversion(x)
            if r2:
                return r2
    return None


def run(prog: Program, rep: Report, tier: str) -> None:
    rep.rule("R11.1", "encoder normal form: hex(LE32(int(time.mktime(time.strptime(today ++ ' ' ++ HH ++ ':' ++ MM, DATEFMT ++ ' %H:%M'))))) where today = time.strftime(DATEFMT) (no time tuple: local today) with the SAME date directives on both sides", 3)
    rep.rule("R11.2", "decoder normal form: time.strftime('%H:%M', time.localtime(<unsigned LE32 of the 4 bytes>))", 1)
    rep.rule("R11.3", "agreement and clock domain: both sides 4 bytes little-endian, mktime/localtime (an inverse pair, both LOCAL), '%H:%M' on both sides, no UTC-domain API feeds either function", 3)
    rep.rule("R11.5", "neither function is memoised: both depend on the host's current date / time zone, which a cache key does not contain", 2, structural=True)
    rep.rule("R2.6", "invalid strings raise: components bounded (no trailing ':x' accepted) and hour/minute reach a strptime with %H and %M with no handler around it", 2)
    rep.explanation = (
        "Decides the structural clauses only: the encoder's and decoder's normal forms, that they are a registered inverse pair in the same (local) clock domain, "
        "that printing and parsing today's date use the same directives, the byte order/width, and whole-input validation. "
        "NOT decided: that localtime(mktime(t)) == t for every zone and date (existence/ambiguity of wall-clock times on DST days, non-hour offsets) - that is libc + tzdata behaviour at run time, which no analysis of this repository's source can establish."
    )
    rep.trusted += ["time.strftime(fmt) without a tuple formats the current LOCAL time; time.mktime interprets a struct_time as LOCAL; time.localtime converts epoch seconds to LOCAL (CPython docs)",
                    "mktime/localtime inverse on existing local times (libc) - assumed, not decided"]
    # ---------------- encoder
    fe = prog.func(f"{TOOLS}:time_to_hexadecimal_timestamp")
    wheree = f"{loc(fe, fe.node)} {fe.qualname}"
    I = Interp(prog)
    p = ("sym", fe.params[0], "str")
    outs = I.run(fe, {fe.params[0]: p}, I.new_state())
    rets = [o for o in outs if o.kind == "return"]
    funcs = set(I.functions_visited)
    enc_fmt_time = None
    enc_apps: Set[str] = set()
    if not rets:
        rep.bad("R11.1", "encoder returns", wheree, "the encoder never returns", key="R11.1|noreturn")
    for k, o in enumerate(rets[:1]):
        v = o.value
        if T.contains_top(v):
            rep.undecided("R11.1", "encoder normal form", wheree, f"not understood: {T.contains_top(v)}")
            continue
        V = F.le32_of(v) if T.is_seq(v) else None
        rep.check(V is not None, "R11.1", "LE32", wheree, f"encoder result is {T.show(v)[:200]}, not the hex of a little-endian 32-bit integer", key="R11.1|le32")
        if V is None:
            continue
        enc_apps = apps_in(V)
        shape = isinstance(V, tuple) and V[:2] == ("app", "int") and isinstance(V[2], tuple) and V[2][:2] == ("app", "time.mktime") and isinstance(V[2][2], tuple) and V[2][2][:2] == ("app", "time.strptime")
        if not shape:
            if isinstance(V, tuple) and V[:2] == ("app", "int") and isinstance(V[2], tuple) and V[2][:2] == ("app", "time.mktime") and dst_flag_unknown(V[2][2]):
                rep.undecided("R11.1", "mktime(strptime(..))", wheree, f"encoded integer is {T.show(V)[:300]}: int(time.mktime(..)) of a time tuple built another way than strptime(text, format) - a form this rule does not compare")
            else:
                rep.bad("R11.1", "mktime(strptime(..))", wheree, f"encoded integer is {T.show(V)[:300]}; expected int(time.mktime(time.strptime(text, format)))", key="R11.1|shape")
            continue
        text, fmt = V[2][2][2], V[2][2][3]
        okfmt = T.is_c(fmt) and isinstance(fmt[1], str)
        atoms = text[2] if T.is_seq(text) else ()
        # today part: a time.strftime(DATEFMT) clock read with no tuple
        today = [a for a in atoms if a[0] == "txt" and isinstance(a[1], tuple) and a[1][:2] == ("app", "time.strftime")]
        ok_today = len(today) == 1 and len(today[0][1]) == 4 and T.is_c(today[0][1][2]) and today[0][1][3][0] == "occ" and atoms and atoms[0] == today[0]
        if not (okfmt and ok_today):
            rep.bad("R11.1", "today's local date", wheree, f"text parsed is {T.show(text)[:300]} with format {T.show(fmt)}; expected time.strftime(DATEFMT) (current local date) followed by the clock components", key="R11.1|today")
            continue
        datefmt = today[0][1][2][1]
        rest = atoms[1:]
        lit_after = "".join(a[1] if a[0] == "L" else "\x00" for a in rest)
        want_fmt_tail = fmt[1][len(datefmt):] if fmt[1].startswith(datefmt) else None
        rep.check(want_fmt_tail is not None, "R11.1", "date directives agree", wheree,
                  f"today's date is printed with {datefmt!r} but parsed with {fmt[1]!r}: the directives differ (e.g. %d/%m vs %m/%d only fails after the 12th of a month)", key="R11.1|datefmt")
        if want_fmt_tail is None:
            continue
        # the tail of the format must be <sep>%H<sep>%M matching the literal separators around the two components
        mt = re.fullmatch(r"(.*)%H(.*)%M", want_fmt_tail, flags=re.S)
        parts = [a for a in rest if a[0] == "txt"]
        seps = lit_after.split("\x00")
        ok_tail = bool(mt) and len(parts) == 2 and len(seps) == 3 and seps[0] == mt.group(1) and seps[1] == mt.group(2) and seps[2] == ""
        comp_ok = all(isinstance(a[1], tuple) and a[1][0] == "part" and a[1][2] == i for i, a in enumerate(parts)) if len(parts) == 2 else False
        rep.check(ok_tail and comp_ok, "R11.1", "HH and MM in order", wheree,
                  f"clock part of the text is {T.show(('seq', 's', tuple(rest)))[:200]} parsed with {want_fmt_tail!r}; expected component 0 under %H and component 1 under %M (24-hour)", key="R11.1|hhmm")
        enc_fmt_time = want_fmt_tail.strip()
        rep.sample({"encoder_normal_form": T.show(V)[:500]})
    # ---------------- decoder
    fd = prog.func(f"{TOOLS}:hexadecimale_timestamp_to_localtime")
    whered = f"{loc(fd, fd.node)} {fd.qualname}"
    I2 = Interp(prog)
    h = ("sym", fd.params[0], ("hexbw", 8))
    outs2 = I2.run(fd, {fd.params[0]: h}, I2.new_state())
    funcs |= set(I2.functions_visited)
    rets2 = [o for o in outs2 if o.kind == "return"]
    le = ("uint", tuple(("sub", h, 2 * i, 2 * i + 2) for i in reversed(range(4))))
    want_dec = ("seq", "s", (("txt", ("app", "time.strftime", c("%H:%M"), ("app", "time.localtime", le))),))
    dec_apps: Set[str] = set()
    if len(rets2) != 1:
        rep.bad("R11.2", "decoder normal form", whered, f"decoder has {len(rets2)} returning paths", key="R11.2|paths")
    else:
        v2 = rets2[0].value
        dec_apps = apps_in(v2)
        if T.contains_top(v2):
            rep.undecided("R11.2", "decoder normal form", whered, f"not understood: {T.contains_top(v2)}")
        elif canon(v2) != canon(want_dec) and fixed_offset_conversion(v2):
            # a recognised skeleton with a deviating part: the epoch value is converted with an explicit FIXED utc offset
            # (timezone(...), timezone.utc, or the offset in force *now*: datetime.now().astimezone().tzinfo) instead of
            # the host zone's rules at that instant - wrong across every DST change
            rep.bad("R11.2", "decoder normal form", whered,
                    f"decoder converts the timestamp with a fixed UTC offset ({fixed_offset_conversion(v2)}): {T.show(v2)[:220]}; expected the host zone's own rules at that instant "
                    f"(time.localtime(n) / datetime.fromtimestamp(n) without tz) - the decoded HH:MM is off by the DST difference for timestamps on the other side of a DST change",
                    key="R11.2|fixed-offset")
        else:
            rep.check_term(canon(v2) == canon(want_dec), v2, "R11.2", "decoder normal form", whered,
                      f"decoder computes {T.show(v2)[:300]}; expected time.strftime('%H:%M', time.localtime(LE32 of the four bytes))", key="R11.2|normal-form")
            rep.sample({"decoder_normal_form": T.show(v2)[:300]})
    for f_, w_ in ((fe, wheree), (fd, whered)):
        decos = [d for d in f_.decorators if any(x in d.split("(")[0].split(".")[-1] for x in ("cache", "lru_cache", "cached_property", "memoize"))]
        rep.check(not decos, "R11.5", f"{f_.qualname} not memoised", w_, f"{f_.qualname} is decorated with {decos}: a value computed for an earlier date or zone is returned after the date/zone changed", key=f"R11.5|{f_.qualname}")
    # ---------------- agreement / clock domain
    utc = sorted((enc_apps | dec_apps) & UTC_APIS)
    rep.check(not utc, "R11.3", "no UTC-domain API", wheree, f"{utc} (UTC domain) feed the local-time encoder/decoder: times shift by the zone offset wherever the host is not UTC", key="R11.3|utc")
    rep.check("time.mktime" in enc_apps and "time.localtime" in dec_apps, "R11.3", "inverse pair mktime/localtime", wheree,
              f"encoder uses {sorted(enc_apps & (LOCAL_APIS | UTC_APIS))}, decoder uses {sorted(dec_apps & (LOCAL_APIS | UTC_APIS))}; they must be time.mktime and time.localtime", key="R11.3|pair")
    if enc_fmt_time is None:
        rep.undecided("R11.3", "same minute format", wheree, "the directives the encoder parses the clock text with were not established (another encoder form)")
    else:
        rep.check(enc_fmt_time == "%H:%M", "R11.3", "same minute format", wheree, f"encoder parses the clock with {enc_fmt_time!r}, decoder prints '%H:%M'", key="R11.3|format")
    # ---------------- invalid strings
    clock_split_rule(prog, rep)
    inv = [o for o in outs if o.kind == "raise" and o.exc_name == "ValueError" and any(isinstance(g, tuple) and g[0] == "invalid" and g[1] == "time.strptime" for g in o.state.pc)]
    rep.check(bool(inv), "R2.6", "malformed HH/MM raises ValueError", wheree, "no path raises ValueError from strptime: malformed hours/minutes are not refused", key="R2.6|strptime")
    rep.analysed["functions"] = sorted(funcs)
