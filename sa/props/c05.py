"""C05 - a status broadcast is decoded into exactly the device the sender described."""
from __future__ import annotations

import ast
import json
import os
from typing import Any, Dict, List, Optional, Set, Tuple

from .. import bridge_model as B
from .. import frames as F
from .. import layout_spec as LS
from .. import terms as T
from ..interp import Ctx, HeapObj, Interp, Outcome, conj, ite
from ..model import AnalysisError, EnumRef, Program, loc
from ..report import Report, VERIF
from ..terms import c

LEVEL = "translation_validation"
MSG = B.MSG
DEV = "aioswitcher.device"
DT = "aioswitcher.device.tools"


def load_spec() -> Dict[str, Any]:
    with open(os.path.join(VERIF, "spec", "broadcast_layout.json")) as fh:
        return json.load(fh)


def canon(v: Any) -> Any:
    """Normalise constants for comparison (str constants as text sequences)."""
    if isinstance(v, tuple):
        if len(v) == 2 and v[0] == "c" and isinstance(v[1], str):
            return ("seq", "s", (("L", v[1]),) if v[1] else ())
        return tuple(canon(x) for x in v)
    if isinstance(v, T.Lin):
        return T.Lin({canon(t): k for t, k in v.coef.items()}, v.const)
    return v


def run_getter(prog: Program, clskey: str, name: str, field: str, src: T.Term, minlen: Optional[int]) -> Tuple[Optional[List[Outcome]], Optional[Any]]:
    ci = prog.cls(clskey)
    fi = ci.find_method(name)
    if fi is None:
        return None, None
    I = Interp(prog)
    st = I.new_state()
    if minlen is not None:
        st.minlen[src] = minlen
    ci.require_attrs([field], "symbolic parser")
    obj = st.alloc(HeapObj("obj", ci, {field: src}, [], False, "parser", True))
    outs = I.run(fi, {fi.params[0]: obj}, st)
    return outs, fi


def joined_value(outs: List[Outcome]) -> Optional[T.Term]:
    rets = [o for o in outs if o.kind == "return"]
    if not rets:
        return None
    from ..interp import first_match_table
    fm = first_match_table(rets)
    if fm is not None:
        return fm
    val: Optional[T.Term] = None
    for o in reversed(rets):
        val = o.value if val is None else ite(conj(o.state.pc), o.value, val)
    return val


def check_getters(prog: Program, rep: Report, spec: Dict[str, Any], rid: str, clskey: str, field: str, src: T.Term, minlen: Optional[int]) -> Dict[str, T.Term]:
    derived: Dict[str, T.Term] = {}
    for g, entry in spec["getters"].items():
        outs, fi = run_getter(prog, clskey, g, field, src, minlen)
        if outs is None:
            if entry.get("optional"):
                continue
            rep.undecided(rid, g, "-", f"anchor vanished: {clskey}.{g}")
            continue
        where = f"{loc(fi, fi.node)} {fi.qualname}"
        v = joined_value(outs)
        if v is None:
            rep.bad(rid, g, where, "getter never returns", key=f"{rid}|{g}|noreturn")
            continue
        r = T.contains_top(v)
        if r:
            rep.undecided(rid, g, where, f"extraction not understood: {r}")
            continue
        derived[g] = v
        want = [LS.term_of(prog, entry, src)] + [LS.term_of(prog, a, src) for a in entry.get("accept", [])]
        cv = canon(v)
        ok = any(cv == canon(w) for w in want)
        if ok and cv != canon(want[0]):
            rep.note(f"{g}: accepted equivalent form - {entry['accept'][0].get('reason', '')}")
        if not ok and _foreign_composite(v, want):
            # several reads of the same bytes combined by arithmetic of the getter's own: another decoding of the field than
            # the forms the specification lists - whether it yields the same number is not something this rule compares
            rep.undecided(rid, g, where, f"{g} decodes the bytes the reference reads in a form this rule does not compare ({T.show(v)[:200]})")
            continue
        rep.check_term(ok, v, rid, g, where,
                  f"{g} extracts {T.show(v)[:260]}; the reference layout says {T.show(want[0])[:260]}",
                  "extraction term equals the reference layout", key=f"{rid}|{g}")
    return derived


def reads_of(v: Any) -> set:
    """The nibble ranges of a message a term reads."""
    out: set = set()
    if isinstance(v, tuple):
        if len(v) == 4 and v[0] in ("hx", "HX") and isinstance(v[2], int):
            out.add((v[2], v[3]))
            return out
        for x in v:
            out |= reads_of(x)
    elif isinstance(v, T.Lin):
        for t in v.coef:
            out |= reads_of(t)
    return out


def _sum_arity(v: Any) -> int:
    """The largest number of message-reading terms added up in one sum inside v (0: no such arithmetic)."""
    best = 0
    if isinstance(v, T.Lin):
        best = sum(1 for t in v.coef if reads_of(t))
        for t in v.coef:
            best = max(best, _sum_arity(t))
    elif isinstance(v, tuple):
        for x in v:
            best = max(best, _sum_arity(x))
    return best


def _foreign_composite(v: Any, want: List[Any]) -> bool:
    """The getter reads the bytes a listed form reads, cuts them into pieces and ADDS UP more pieces than any listed
    form does: a decoding of its own.  (Pieces merely concatenated in another order, or one field at another offset or
    width, are the slips this rule exists to report: those stay comparable.)"""
    rv = reads_of(v)
    ar = _sum_arity(v)
    if ar < 2 or len(rv) < 2 or any(b is None for _, b in rv):
        return False
    span = (min(a for a, _ in rv), max(b for _, b in rv))
    same_span = False
    for w in want:
        rw = reads_of(w)
        if not rw or any(b is None for _, b in rw) or _sum_arity(w) >= ar:
            return False
        if (min(a for a, _ in rw), max(b for _, b in rw)) == span:
            same_span = True
    return same_span


def run(prog: Program, rep: Report, tier: str) -> None:
    rep.rule("R5.1", "extraction normal form of every DatagramParser getter equals spec/broadcast_layout.json (offset, width, byte order, decoder)", 18)
    rep.rule("R5.2", "the fields wired into one device object read pairwise disjoint nibble ranges of the datagram", 9)
    rep.rule("R5.3", "constructor wiring: for every device type the field f of the delivered object is the extraction term of role f (id, key, ip of the right family, mac, name, ...)", 60)
    rep.rule("R5.4", "exactly one callback per accepted datagram, with the device class of the type's category", 9)
    rep.rule("R5.5", "OFF normalisation: power, current and remaining time are 0 / 0.0 / '00:00:00' exactly when the reported state is not ON", 7)
    rep.rule("R5.7", "fields that are normalised away when the device is not ON (power, remaining time) are not even examined on that path: their bytes cannot make a not-ON broadcast fail to be delivered", 6)
    rep.rule("R5.8", "only the device's own fields are examined: for every device type, no guard of any path of the builder (delivering or raising) reads datagram bytes outside the fields of the delivered class, the magic, the model and the state byte", 9)
    rep.rule("R5.6", "helper normal forms: seconds_to_iso_time(x) = time(x//3600, (x//60)%60, x%60).isoformat(); watts_to_amps(w) = round(w/220, 1)", 2)
    rep.trusted += [
        "socket.inet_ntoa, bytes.decode, datetime.time.isoformat, round (library behaviour)",
        "spec/broadcast_layout.json (provenance in its _doc; validated against tests/testresources captures by spec/selfcheck.py)",
    ]
    rep.assumptions += ["the datagram passed the gate (>= 159 bytes), so fixed-offset slices have their written width"]
    spec = load_spec()
    rep.rule("R5.9", "structural: no function reachable from the datagram builder declares a global or mutates / stores into a module-level name (the device handed over would describe an earlier broadcast)", 1, structural=True)
    from .c07 import module_state_on_receive_path
    ms_ = module_state_on_receive_path(prog)
    rep.check(not ms_, "R5.9", "no module-level state on the receive path", "src/aioswitcher/bridge.py", f"{ms_[:3]}: fields of the delivered device can come from an earlier broadcast instead of this one", key="R5.9|module-state")
    derived = check_getters(prog, rep, spec, "R5.1", "aioswitcher.bridge:DatagramParser", "message", MSG, 159)
    rep.sample({"getter_terms": {g: T.show(v)[:200] for g, v in list(derived.items())[:8]}})
    helper_forms(prog, rep)

    # ---- wiring per device type
    dt = prog.cls(f"{DEV}:DeviceType")
    assert dt.enum is not None
    on = ("enum", EnumRef(prog.cls(f"{DEV}:DeviceState").key, "ON"))
    funcs: Set[str] = set()
    for m in dt.enum.members:
        cat = dt.enum.attr(m, "category").member
        want_cls = [k for k, d in spec["devices"].items() if d["category"] == cat]
        member = ("enum", EnumRef(dt.key, m))
        stub = {"aioswitcher.bridge:DatagramParser.get_device_type": (lambda I, a, kw, st, ctx, node, _m=member: _m)}
        fi = prog.func("aioswitcher.bridge:_parse_device_from_datagram")
        where = f"{loc(fi, fi.node)} {fi.qualname}"
        I = Interp(prog, stubs=stub)
        st = I.new_state()
        st.minlen[MSG] = 159
        # the gate is decided by C06; here it is taken as passed
        outs = I.run(fi, {fi.params[0]: ("sym", "device_callback", "callable"), fi.params[1]: MSG}, st)
        funcs |= set(I.functions_visited)
        rets = [o for o in outs if o.kind == "return" and B.callbacks(o)]
        gate_rejects = [o for o in outs if o.kind == "return" and not B.callbacks(o)]
        if not rets:
            rep.bad("R5.4", f"{m}", where, f"no path delivers a device for {m}", key=f"R5.4|{m}|nodevice")
            continue
        ok54 = True
        why54 = ""
        field_ok: Dict[str, Optional[str]] = {}
        disjoint_done = False
        for o in rets:
            cbs = B.callbacks(o)
            if len(cbs) != 1:
                ok54, why54 = False, f"{len(cbs)} callbacks on one path"
                continue
            cn, fields = B.device_fields(o, cbs[0])
            if cn not in want_cls:
                ok54, why54 = False, f"{m} (category {cat}) is delivered as {cn}"
                continue
            dspec = spec["devices"][cn]["fields"]
            dstate = fields.get("device_state")
            # is this the reported-ON path?
            state_term = expected_role(prog, spec, dspec["device_state"], None)
            for fname, role in dspec.items():
                got = fields.get(fname)
                if got is None:
                    record(field_ok, fname, f"field {fname} not set")
                    continue
                if T.contains_top(got):
                    record(field_ok, fname, f"UNDECIDED:{T.contains_top(got)}")
                    continue
                want = expected_role(prog, spec, role, state_term)
                # a getter that branches at statement level yields one path per case: compare case-wise
                from ..frames import restrict as _restrict
                got_r, want_r = _restrict(got, o.state.pc), _restrict(want, o.state.pc)
                if role in ("power_if_on", "amps_if_on"):
                    # statement-level branch: the value depends on the path's guard
                    cond_on = state_is_on(state_term, on)
                    from ..interp import decided_by as _decided
                    d_on = _decided(F.flat_pc(list(o.state.pc)), cond_on)      # (through compound guards, not by literal membership)
                    is_on_path = d_on is True
                    is_off_path = d_on is False
                    base = LS.term_of(prog, spec["getters"]["get_power_consumption"], MSG)
                    if role == "amps_if_on":
                        base = ("app", "round", ("app", "truediv", base, c(220.0)), c(1))
                    zero = c(0) if role == "power_if_on" else c(0.0)
                    if is_on_path and not is_off_path:
                        want = base
                    elif is_off_path and not is_on_path:
                        want = zero
                    else:
                        want = ite(cond_on, base, zero)
                    if canon(got) != canon(want) or (got[0] == "c" and type(got[1]) is not type(zero[1]) and is_off_path):
                        record(field_ok, "R5.5:" + fname, f"{fname} is {T.show(got)[:120]} on the {'ON' if is_on_path else 'not-ON'} path; expected {T.show(want)[:120]}")
                    else:
                        record(field_ok, "R5.5:" + fname, None)
                    continue
                if role == "remaining_if_on":
                    good = canon(got) == canon(want) or canon(got_r) == canon(want_r)
                    record(field_ok, "R5.5:" + fname, None if good else f"{fname} is {T.show(got)[:160]}; expected {T.show(want)[:160]}")
                    continue
                alts = [want, want_r]
                if role in spec["getters"]:
                    alts += [LS.term_of(prog, a, MSG) for a in spec["getters"][role].get("accept", [])]
                if canon(got_r) == canon(want_r):
                    record(field_ok, fname, None)
                elif role in derived and canon(got) == canon(derived[role]) and _foreign_composite(derived[role], alts):
                    # the field holds exactly what the getter of its role returns; that getter decodes the bytes in a form of
                    # its own, which R5.1 reports as undecided - nothing further is wrong with the assignment
                    record(field_ok, fname, None)
                elif all(canon(got) != canon(w_) for w_ in alts) and (T.imprecise(got) is not None):
                    record(field_ok, fname, f"UNDECIDED:{T.imprecise(got)}")
                elif all(canon(got) != canon(w_) for w_ in alts):
                    record(field_ok, fname, f"{cn}.{fname} for {m} is {T.show(got)[:200]}; expected role {role}: {T.show(want)[:200]}")
                else:
                    record(field_ok, fname, None)
            # R5.2
            if not disjoint_done:
                disjoint_done = True
                ranges: List[Tuple[int, int, str]] = []
                for fname in dspec:
                    if fname in ("electric_current",):
                        continue  # derived from power_consumption
                    for (a, b) in set(LS.nibble_ranges(fields.get(fname), MSG)):
                        ranges.append((a, b, fname))
                clash = None
                for i in range(len(ranges)):
                    for j in range(i + 1, len(ranges)):
                        a, b, f1 = ranges[i]
                        a2, b2, f2 = ranges[j]
                        if f1 != f2 and a < b2 and a2 < b:
                            clash = (f1, (a, b), f2, (a2, b2))
                if clash:
                    f1, r1, f2, r2 = clash
                    lo, hi = max(r1[0], r2[0]), min(r1[1], r2[1])
                    rep.bad("R5.2", f"{m} -> {cn}", where,
                            f"{cn}.{f1} reads nibbles {r1} and {cn}.{f2} reads nibbles {r2} of the same datagram: byte {lo // 2} is decoded as part of both fields, so one of them is not what the device encoded",
                            key=f"R5.2|{cn}|{f1}|{f2}")
                else:
                    rep.ok("R5.2", f"{m} -> {cn}", where, f"{len(ranges)} wire ranges pairwise disjoint")
        rep.check(ok54, "R5.4", f"{m}", where, why54, f"one callback with {want_cls}", key=f"R5.4|{m}")
        # R5.7: on not-ON paths nothing depends on the bytes of the normalised fields
        if cat in ("WATER_HEATER", "POWER_PLUG"):
            bad57 = ignored_field_dependence(prog, spec, m, cat, want_cls[0], outs, on)
            rep.check(bad57 is None, "R5.7", f"{m}", where, bad57 or "", key=f"R5.7|{want_cls[0]}")
        bad58 = foreign_field_dependence(prog, spec, m, want_cls[0], outs)
        rep.check(bad58 is None, "R5.8", f"{m}", where, bad58 or "", key=f"R5.8|{want_cls[0]}")
        for fname, why in field_ok.items():
            rid = "R5.3"
            inst = f"{m}.{fname}"
            if fname.startswith("R5.5:"):
                rid, inst = "R5.5", f"{m}.{fname[5:]}"
            if why is None:
                rep.ok(rid, inst, where)
            elif why.startswith("UNDECIDED:"):
                rep.undecided(rid, inst, where, why[10:])
            else:
                rep.bad(rid, inst, where, why, key=f"{rid}|{want_cls[0] if want_cls else '?'}|{fname}")
    rep.analysed["functions"] = sorted(funcs)
    rep.extra["programs"] = len(derived) + len(dt.enum.members)


def ignored_field_dependence(prog: Program, spec: Dict[str, Any], m: str, cat: str, cls_name: str, outs: List[Outcome], on: T.Term) -> Optional[str]:
    """On the paths where the device reports not-ON, does any guard read the bytes of a field that is
    reported as zero in that state?  Returns the description of the dependence, or None."""
    dspec0 = spec["devices"][cls_name]["fields"]
    st_term = expected_role(prog, spec, dspec0["device_state"], None)
    cond_on = state_is_on(st_term, on)
    norm_ranges = set(LS.nibble_ranges(LS.term_of(prog, spec["getters"]["get_power_consumption"], MSG), MSG))
    if cat == "WATER_HEATER":
        norm_ranges |= set(LS.nibble_ranges(LS.term_of(prog, spec["getters"]["get_remaining"], MSG), MSG))
    bad57 = None
    for o in outs:
        if _neg(cond_on) not in o.state.pc:
            continue
        for g in o.state.pc:
            if g == _neg(cond_on):
                continue
            touched = set(LS.nibble_ranges(g, MSG)) & norm_ranges
            if touched:
                bad57 = (f"on the path where {m} reports not-ON, the outcome ({'raises ' + o.exc_name if o.kind == 'raise' else 'delivery'}) depends on nibbles {sorted(touched)} of a field that is "
                         f"reported as zero in that state (guard {T.show(g)[:160]}): an OFF broadcast with an out-of-range value there is no longer delivered")
    return bad57


def foreign_field_dependence(prog: Program, spec: Dict[str, Any], m: str, cls_name: str, outs: List[Outcome]) -> Optional[str]:
    """Does the outcome for device type m (delivery or a raise) depend on datagram bytes that belong to no field of
    the delivered class?  A plug has no remaining-time field: junk in those bytes must not matter."""
    dspec0 = spec["devices"][cls_name]["fields"]
    allowed: List[Tuple[int, int]] = [(0, 4)]
    state_term = expected_role(prog, spec, dspec0["device_state"], None)
    for fname, role in dspec0.items():
        for term in (expected_role(prog, spec, role, state_term),):
            allowed.extend(LS.nibble_ranges(term, MSG))
            # guards of choices inside the expected term (the state byte of 'if ON') are legitimate reads too
            allowed.extend(_guard_ranges(term))
        if role in spec["getters"]:
            # forms listed as accepted equivalents of a getter (the legacy shutter position reads byte 136 too)
            for alt in spec["getters"][role].get("accept", []):
                allowed.extend(LS.nibble_ranges(LS.term_of(prog, alt, MSG), MSG))
    allowed.extend(LS.nibble_ranges(LS.term_of(prog, spec["model"], MSG), MSG))

    def covered(r: Tuple[int, int]) -> bool:
        return any(a <= r[0] and r[1] <= b for a, b in allowed if a is not None and b is not None)

    from ..interp import neg as _ng
    # only conditions that decide between delivering and raising matter: the trigger of each raising path
    triggers = {o.state.pc[-1] for o in outs if o.kind == "raise" and o.state.pc}
    for o in outs:
        for g in o.state.pc:
            if g not in triggers and _ng(g) not in triggers:
                continue
            for r in LS.nibble_ranges(g, MSG) + _guard_ranges(g):
                if r[0] is None or r[1] is None:
                    continue
                if not covered(r):
                    what = f"raises {o.exc_name}" if o.kind == "raise" else "is delivered"
                    return (f"whether a {m} broadcast {what} depends on nibbles {r} of the datagram (guard {T.show(g)[:140]}), which belong to no field of {cls_name}: "
                            f"arbitrary bytes there can now keep a valid broadcast from being delivered")
    return None


def _guard_ranges(v: Any) -> List[Tuple[int, int]]:
    out: List[Tuple[int, int]] = []
    if isinstance(v, tuple):
        if len(v) == 4 and v[0] == "ite":
            out.extend(LS.nibble_ranges(("g", v[1]), MSG))
        for x in v:
            out.extend(_guard_ranges(x))
    return out


def parse_outcomes_for(prog: Program, m: str) -> Tuple[Interp, List[Outcome]]:
    """Paths of _parse_device_from_datagram for a gate-passing datagram whose model is DeviceType.<m>."""
    dt = prog.cls(f"{DEV}:DeviceType")
    member = ("enum", EnumRef(dt.key, m))
    stub = {"aioswitcher.bridge:DatagramParser.get_device_type": (lambda I, a, kw, st, ctx, node, _m=member: _m)}
    fi = prog.func("aioswitcher.bridge:_parse_device_from_datagram")
    I = Interp(prog, stubs=stub)
    st = I.new_state()
    st.minlen[MSG] = 159
    outs = I.run(fi, {fi.params[0]: ("sym", "device_callback", "callable"), fi.params[1]: MSG}, st)
    return I, outs


def record(d: Dict[str, Optional[str]], key: str, why: Optional[str]) -> None:
    """A failure on any path wins over successes on other paths."""
    if why is not None:
        if d.get(key) is None:
            d[key] = why
    else:
        d.setdefault(key, None)


def _neg(cnd: T.Term) -> T.Term:
    from ..interp import neg
    return neg(cnd)


def state_is_on(state_term: T.Term, on: T.Term) -> T.Term:
    """Condition `state == ON` in the canonical form the interpreter produces."""
    if state_term[0] == "ite" and state_term[2] == on:
        return state_term[1]
    if state_term[0] == "ite" and state_term[3] == on:
        return _neg(state_term[1])
    if state_term == on:
        return c(True)
    return ("cmp", "==", state_term, on)


def expected_role(prog: Program, spec: Dict[str, Any], role: str, state_term: Optional[T.Term]) -> T.Term:
    on = ("enum", EnumRef(prog.cls(f"{DEV}:DeviceState").key, "ON"))
    if role in spec["getters"]:
        return LS.term_of(prog, spec["getters"][role], MSG)
    if role in ("mac1", "mac2"):
        return LS.term_of(prog, spec[role], MSG)
    if role == "const_on":
        return on
    if role == "remaining_if_on":
        assert state_term is not None
        return ite(state_is_on(state_term, on), LS.term_of(prog, spec["getters"]["get_remaining"], MSG), c("00:00:00"))
    if role in ("power_if_on", "amps_if_on"):
        return c(0)
    raise AnalysisError(f"unknown role {role} in broadcast_layout.json")


def helper_forms(prog: Program, rep: Report) -> None:
    x = ("sym", "all_seconds", "int")
    fi = prog.func(f"{DT}:seconds_to_iso_time")
    where = f"{loc(fi, fi.node)} {fi.qualname}"
    I = Interp(prog)
    outs = I.run(fi, {fi.params[0]: x}, I.new_state())
    v = joined_value(outs)
    rep.check(v is not None and canon(v) == canon(LS.iso_time(x)), "R5.6", "seconds_to_iso_time", where,
              f"seconds_to_iso_time(x) = {T.show(v)[:300] if v else None}; expected time(x//60//60, x//60%60, x%60).isoformat()", key="R5.6|seconds_to_iso_time")
    fw = prog.func(f"{DT}:watts_to_amps")
    w = ("sym", "watts", "int")
    outs = Interp(prog).run(fw, {fw.params[0]: w}, Interp(prog).new_state())
    v = joined_value(outs)
    want = ("app", "round", ("app", "truediv", w, c(220.0)), c(1))
    rep.check(v is not None and canon(v) == canon(want), "R5.6", "watts_to_amps", f"{loc(fw, fw.node)} {fw.qualname}",
              f"watts_to_amps(w) = {T.show(v)[:200] if v else None}; expected round(w / 220, 1)", key="R5.6|watts_to_amps")
