"""C03 - every operation logs in first and binds its commands to that login's session."""
from __future__ import annotations

import ast
from typing import Any, Dict, List, Optional, Set, Tuple

from .. import api_model as A
from .. import frames as F
from .. import terms as T
from ..interp import Outcome, conj
from ..model import Program, loc, EnumRef
from ..report import Report
from ..terms import c
from .c02 import clock_term_ok, load_spec

LEVEL = "proof"

API_STORE_ALLOWED = {
    "SwitcherApi.__init__": {"_ip_address", "_device_id", "_device_key", "_port", "_connected"},
    "SwitcherApi.connect": {"_reader", "_writer", "_connected"},
    "SwitcherApi.disconnect": {"_connected"},
}
STATE_MODULES = ["aioswitcher.api", "aioswitcher.api.messages", "aioswitcher.api.packets", "aioswitcher.device.tools", "aioswitcher.schedule.tools", "aioswitcher.device", "aioswitcher.schedule"]
CACHE_DECOS = ("cache", "lru_cache", "cached_property", "memoize", "cachedmethod")
MUTATORS = {"append", "extend", "add", "update", "insert", "pop", "remove", "clear", "setdefault", "discard", "popitem", "sort", "reverse", "__setitem__"}

SIMPLE_OPS = ["get_state", "control_device", "set_auto_shutdown", "set_device_name", "get_schedules", "delete_schedule", "create_schedule", "stop", "set_position", "get_breeze_state", "get_shutter_state"]


def classify(body: Tuple[T.Term, ...], spec: Dict[str, Any], names: List[str]) -> Optional[str]:
    for n in names:
        mm, _ = F.match_layout(body, spec["frames"][n])
        if not mm:
            return n
    return None


def frame_kinds(o: Outcome, spec: Dict[str, Any], cache: Dict[T.Term, Optional[str]]) -> List[Optional[str]]:
    out = []
    for e in A.writes(o):
        fr = e.args[0]
        if fr not in cache:
            sp = F.split_signed(fr)
            cache[fr] = classify(sp[0], spec, list(spec["frames"])) if sp else None
        out.append(cache[fr])
    return out


def run(prog: Program, rep: Report, tier: str) -> None:
    from ..api_model import sign_summary_premise
    sign_summary_premise(prog, rep)
    rep.rule("R3.1", "on every path the first frame is the login frame, it is written exactly once, and it precedes every command frame; every write is followed by a read before the next write", 12)
    rep.rule("R3.2", "session and timestamp of every command frame come from *this invocation's* login: session = bytes 8..12 of the reply read right after the login write, timestamp = the clock value sent in that login frame; the clock helper is not memoised", 14)
    rep.rule("R3.7", "the configured identity is what the frames carry: _device_id / _device_key / _port / _ip_address are stored once, in SwitcherApi.__init__, from the same-named parameter unchanged "
                     "(no normalisation, re-formatting or later re-assignment; shares its sweep with C02 R2.5)", 4)
    rep.claims_instance_state = "R3.3"       # a class-level container mutated through instances is state shared by all clients
    rep.rule("R3.3", "no shared or lingering state: the only attribute stores of the API classes are the 7 instance attributes in __init__/connect/disconnect; no global/nonlocal, no cache decorator, no store on a module/class/other object, no mutated mutable default or module-level container in the api/tools modules", 10, structural=True)        # (a sweep of the syntax tree: decisive whatever the interpreter could follow)
    rep.rule("R3.4", "login flavour: type-1 operations send the login-key frame, type-2 operations the device-id frame; _login selects the type-2 frame exactly for the DeviceType members with protocol_type == 2", 12 + 10)
    rep.rule("R3.6", "each reply is consumed whole: every reader.read(n) on an operation's path asks for a constant n >= the longest reply of the protocol (spec/reply_layout.json whole_reply_read), so no bytes of one reply are left in the stream to be taken for the next operation's login reply (and its session id)", 12)
    rep.rule("R3.5", "frame sequence per operation is fixed: login.cmd for simple operations; login.(state.main)?.swing? with 2..4 frames for thermostat control; shorter sequences only on raising paths", 12)
    rep.assumptions += A.ASSUMPTIONS
    rep.trusted += [
        "C04 summary of the signer; spec/wire_frames.json layouts (C02)",
        "asyncio StreamReader.read/StreamWriter.write are the only I/O (C01 R1.1)",
        "not decided: two coroutines sharing ONE instance; reply/request pairing inside the device",
    ]
    spec = load_spec()
    import json as _json
    import os as _os
    from ..report import VERIF as _VERIF
    with open(_os.path.join(_VERIF, "spec", "reply_layout.json")) as _fh:
        min_read = int(_json.load(_fh)["whole_reply_read"]["min_bytes"])
    cache: Dict[T.Term, Optional[str]] = {}
    funcs: Set[str] = set()
    npaths = 0
    for op in A.OPERATIONS:
        I, outs, fi = A.run_operation(prog, op)
        funcs |= set(I.functions_visited)
        where = f"{loc(fi, fi.node)} {fi.qualname}"
        want_login = spec["operations"][op]["login"]
        cmds = spec["operations"][op]["commands"]
        bad31: List[str] = []
        bad32: List[str] = []
        bad34: List[str] = []
        bad35: List[str] = []
        bad36: List[str] = []
        seqs: Dict[Tuple[str, Tuple[Optional[str], ...]], int] = {}
        for o in outs:
            if A.excluded_by_assumptions(o.state.pc):
                continue
            npaths += 1
            kinds = frame_kinds(o, spec, cache)
            tr = ["W" if e.target == "writer.write" else "R" for e in A.io_trace(o)]
            seqs[(o.kind, tuple(kinds))] = seqs.get((o.kind, tuple(kinds)), 0) + 1
            # R3.1
            if not kinds:
                if o.kind == "return":
                    bad31.append("a path returns without writing anything")
                continue
            logins = [k for k in kinds if k in ("login1", "login2")]
            if kinds[0] not in ("login1", "login2"):
                bad31.append(f"first frame on a path is {kinds[0]}, not a login frame")
            if len(logins) != 1:
                bad31.append(f"{len(logins)} login frames on one path ({kinds})")
            for i in range(len(tr) - 1):
                if tr[i] == "W" and tr[i + 1] == "W":
                    bad31.append("two frames written without reading the reply in between")
            if tr and tr[0] != "W":
                bad31.append("a reply is read before anything was sent")
            for e in o.state.events:
                if e.kind == "readattr":
                    bad32.append(f"operation reads {e.target} at {e.where.split(' ')[0]}, an attribute no constructor/connect sets: state lingering from an earlier operation")
                if e.kind in ("store", "storeitem") and (e.target.startswith("self.") or e.target == "self"):
                    bad32.append(f"operation stores {e.target} at {e.where.split(' ')[0]}: state kept on the instance across operations")
            # R3.6
            for e in A.reads(o):
                n_ = e.args[0] if e.args else None
                if n_ is None or not (T.is_c(n_) and isinstance(n_[1], int)):
                    bad36.append(f"read at {e.where.split(' ')[0]} asks for {T.show(n_) if n_ else 'an unbounded/unknown number of'} bytes (not a constant)")
                elif n_[1] < min_read:
                    bad36.append(f"read at {e.where} asks for {n_[1]} bytes: a longer reply (login replies are 44 bytes, state replies ~107, a full schedule list {min_read}) leaves its tail in the stream, "
                                 f"and the next operation parses its session id from those leftovers")
            # R3.4
            if kinds[0] != want_login:
                bad34.append(f"login frame is {kinds[0]}, expected {want_login}")
            # R3.2
            rd = A.reads(o)
            w = A.writes(o)
            login_ts = None
            sp0 = F.split_signed(w[0].args[0])
            if sp0 and kinds[0] in ("login1", "login2"):
                _, holes0 = F.match_layout(sp0[0], spec["frames"][kinds[0]])
                login_ts = F.le32_of(holes0["TS"]) if "TS" in holes0 else None
                if login_ts is None or not clock_term_ok(login_ts):
                    bad32.append(f"login timestamp is not a fresh clock reading: {T.show(holes0.get('TS', ('c', None)))[:80]}")
            for k in range(1, len(w)):
                if kinds[k] is None:
                    bad35.append(f"frame #{k} matches no reference layout")
                    continue
                sp = F.split_signed(w[k].args[0])
                assert sp
                _, holes = F.match_layout(sp[0], spec["frames"][kinds[k]])
                ses = holes.get("SESSION")
                # the reply read right after the login write, on this path
                io = A.io_trace(o)
                first_read = io[1].result if len(io) > 1 and io[1].target == "reader.read" else None
                if ses is None or first_read is None or ses[2] != (("hx", first_read, 16, 24),):
                    bad32.append(f"{kinds[k]}: session field {T.show(ses)[:80] if ses else None} is not bytes 8..12 of the reply to this call's login")
                ts = F.le32_of(holes["TS"]) if "TS" in holes else None
                if ts is None or ts != login_ts:
                    bad32.append(f"{kinds[k]}: timestamp differs from the one of this call's login frame")
            # R3.5
            if o.kind == "return":
                if op in SIMPLE_OPS:
                    if list(kinds) != [want_login, cmds[0]]:
                        bad35.append(f"returns after frames {kinds}, expected [{want_login}, {cmds[0]}]")
                else:
                    ok = 2 <= len(kinds) <= 4 and kinds[0] == "login2" and _breeze_seq_ok(kinds[1:])
                    if not ok:
                        bad35.append(f"thermostat control returns after frames {kinds}")
            else:
                allowed = [want_login] + cmds if op not in SIMPLE_OPS else [want_login, cmds[0]]
                if op in SIMPLE_OPS and list(kinds) != allowed[: len(kinds)]:
                    bad35.append(f"raising path wrote {kinds}")
        for rid, bads, okmsg in (("R3.1", bad31, "login first, once, request/response alternate"), ("R3.2", bad32, "session/timestamp from this call's login"),
                                 ("R3.4", bad34, f"login frame is {want_login}"), ("R3.5", bad35, "sequence as specified"), ("R3.6", bad36, f"every read asks for >= {min_read} bytes")):
            if bads:
                rep.bad(rid, op, where, f"{bads[0]} ({len(bads)} path(s))", key=f"{rid}|{op}")
            else:
                rep.ok(rid, op, where, okmsg)
        if len(rep.samples) < 4 and op in ("control_device", "control_breeze_device"):
            rep.sample({"operation": op, "frame_sequences": [{"exit": k[0], "frames": list(k[1]), "paths": n} for k, n in sorted(seqs.items(), key=lambda kv: -kv[1])[:12]]})
    rep.analysed["functions"] = sorted(funcs)
    rep.analysed["paths"] = npaths
    login_sibling_rule(prog, rep, spec)
    memo_rule(prog, rep)
    from .c02 import config_sweep
    config_sweep(prog, rep, "R3.7")
    state_sweep(prog, rep, funcs)


def _breeze_seq_ok(rest: Tuple[Optional[str], ...]) -> bool:
    r = list(rest)
    if r[:1] == ["get_state2"]:
        if len(r) < 2 or r[1] not in ("breeze_command", "breeze_status"):
            return False
        tail = r[2:]
    else:
        tail = r
        if not tail:
            return False
    return tail in ([], ["breeze_command"])


def login_sibling_rule(prog: Program, rep: Report, spec: Dict[str, Any]) -> None:
    """R3.4b: which DeviceType arguments make _login choose the type-2 frame."""
    ci = prog.cls("aioswitcher.api:SwitcherApi")
    fi = ci.find_method("_login")
    if fi is None:
        rep.undecided("R3.4", "_login", "-", "anchor vanished: SwitcherApi._login")
        return
    where = f"{loc(fi, fi.node)} {fi.qualname}"
    dt = prog.cls("aioswitcher.device:DeviceType")
    assert dt.enum is not None
    args: List[Tuple[str, T.Term, str]] = [("None", c(None), "login1")]
    for m in dt.enum.members:
        p = dt.enum.attr(m, "protocol_type")
        args.append((m, ("enum", EnumRef(dt.key, m)), "login2" if p == 2 else "login1"))
    for name, val, want in args:
        I = A.make_interp(prog)
        st = I.new_state()
        selfv = A.api_self(I, st, prog.cls("aioswitcher.api:SwitcherType2Api"))
        outs = I.run(fi, {fi.params[0]: selfv, fi.params[1]: val}, st)
        kinds = set()
        for o in outs:
            if A.excluded_by_assumptions(o.state.pc):
                continue
            for e in A.writes(o):
                sp = F.split_signed(e.args[0])
                kinds.add(classify(sp[0], spec, ["login1", "login2"]) if sp else None)
        rep.check(kinds == {want}, "R3.4", f"_login({name})", where,
                  f"_login({name}) sends {sorted(map(str, kinds))}, but protocol type of {name} requires {want}", key=f"R3.4|_login|{name}")


def memo_rule(prog: Program, rep: Report) -> None:
    for key in ("aioswitcher.device.tools:current_timestamp_to_hexadecimal", "aioswitcher.api:SwitcherApi._login"):
        fi = prog.func(key)
        where = f"{loc(fi, fi.node)} {fi.qualname}"
        bad = [d for d in fi.decorators if any(x in d for x in CACHE_DECOS)]
        rep.check(not bad, "R3.2", f"{fi.qualname} not memoised", where, f"{fi.qualname} is decorated with {bad}: clock/session would be reused across operations", key=f"R3.2|memo|{fi.qualname}")


def _argument_pure(fi: Any, prog: Optional[Program] = None, _depth: int = 0, _seen: Optional[Set[str]] = None) -> bool:
    """A module-level function (no self) whose body reads nothing but its own parameters, local names and builtins,
    stores nothing outside its locals and is not a generator: its result is a function of its arguments alone, so
    remembering it per argument cannot carry a clock reading, a session or any instance state from one operation
    into another (what R3.2 / R3.3 guard against).  Whether the remembered object is mutated by a caller is the
    interpreter's business (the frozen "memo:" objects, DESIGN 2.3)."""
    import builtins
    if fi.cls is not None and _depth == 0:
        return False
    _seen = set() if _seen is None else _seen
    if fi.key in _seen:
        return True
    _seen.add(fi.key)
    a = fi.node.args
    names = {x.arg for x in a.posonlyargs + a.args + a.kwonlyargs} | ({a.vararg.arg} if a.vararg else set()) | ({a.kwarg.arg} if a.kwarg else set())
    body = ast.Module(body=list(fi.node.body), type_ignores=[])      # (not the decorators / annotations of the def itself)
    for n in ast.walk(body):
        if isinstance(n, ast.Name) and isinstance(n.ctx, ast.Store):
            names.add(n.id)
        if isinstance(n, (ast.Yield, ast.YieldFrom, ast.Global, ast.Nonlocal, ast.Await)):
            return False
        if isinstance(n, (ast.Assign, ast.AugAssign, ast.AnnAssign, ast.Delete)):
            tg = n.targets if isinstance(n, (ast.Assign, ast.Delete)) else [n.target]
            if any(not isinstance(t, (ast.Name, ast.Tuple, ast.List)) for t in tg):
                return False        # attribute / item stores
    for n in ast.walk(body):
        if isinstance(n, ast.Name) and isinstance(n.ctx, ast.Load) and n.id not in names and not hasattr(builtins, n.id):
            # a module-level name: fine when it is a constant nobody changes, an imported library name, or a function /
            # class of the package that is itself a function of its arguments only
            if prog is None or _depth >= 3:
                return False
            try:
                r = prog.resolve_name(fi.module, n.id)
            except Exception:  # noqa: BLE001
                r = None
            if r is None:
                return False
            if r[0] == "enum" or (r[0] in ("ext", "extmod") and _pure_library_name(str(r[1]))):
                continue
            if r[0] in ("ext", "extmod"):
                return False          # a library name that may read the clock, the zone, the environment, a random source ...
            if r[0] == "const":
                try:
                    prog.fold(r[1], r[1].constants[r[2]])
                except Exception:  # noqa: BLE001
                    return False
                if any((isinstance(x, (ast.Assign, ast.AugAssign, ast.Delete)) and any(isinstance(sub, (ast.Subscript, ast.Attribute)) and isinstance(getattr(sub, "value", None), ast.Name) and sub.value.id == r[2]
                                                                                       for t_ in (x.targets if isinstance(x, (ast.Assign, ast.Delete)) else [x.target]) for sub in ast.walk(t_)))
                       or (isinstance(x, ast.Call) and isinstance(x.func, ast.Attribute) and x.func.attr in MUTATORS and isinstance(x.func.value, ast.Name) and x.func.value.id == r[2])
                       or (isinstance(x, ast.Global) and r[2] in x.names) for x in ast.walk(r[1].tree)):
                    return False
                continue
            if r[0] == "func":
                if any(d_.split("(")[0].split(".")[-1] in CACHE_DECOS for d_ in r[1].decorators) or not _argument_pure(r[1], prog, _depth + 1, _seen):
                    return False
                continue
            if r[0] == "class":
                for m_ in list(r[1].methods.values()) + list(r[1].properties.values()):
                    sub_names_ok = _argument_pure(m_, prog, _depth + 1, _seen)
                    if not sub_names_ok:
                        # methods may store on / read their own instance: allow attribute stores on the first parameter
                        return _class_self_contained(r[1], prog, _depth + 1, _seen)
                continue
            return False
    return True


_PURE_LIBRARY = ("binascii", "struct", "itertools", "operator", "functools", "typing", "math", "enum", "dataclasses", "collections", "string", "re", "textwrap",
                 "datetime.timedelta", "ipaddress", "socket.inet_ntoa", "socket.inet_aton", "codecs", "zlib", "abc", "types")


def _pure_library_name(q: str) -> bool:
    """Library names whose functions are functions of their arguments (no clock, zone, environment, randomness, I/O)."""
    return any(q == p_ or q.startswith(p_ + ".") for p_ in _PURE_LIBRARY)


def _class_self_contained(ci: Any, prog: Program, depth: int, seen: Set[str]) -> bool:
    """Every method of the class works on its own instance and arguments only: attribute stores go to `self`, other
    names are constants, library names or self-contained functions / classes (a small value class, e.g. a running
    checksum)."""
    import builtins
    for m_ in list(ci.methods.values()) + list(ci.properties.values()):
        a = m_.node.args
        names = {x.arg for x in a.posonlyargs + a.args + a.kwonlyargs}
        selfname = m_.params[0] if m_.params else None
        body = ast.Module(body=list(m_.node.body), type_ignores=[])
        for n in ast.walk(body):
            if isinstance(n, ast.Name) and isinstance(n.ctx, ast.Store):
                names.add(n.id)
            if isinstance(n, (ast.Yield, ast.YieldFrom, ast.Global, ast.Nonlocal, ast.Await)):
                return False
            if isinstance(n, (ast.Assign, ast.AugAssign, ast.AnnAssign, ast.Delete)):
                tg = n.targets if isinstance(n, (ast.Assign, ast.Delete)) else [n.target]
                for t_ in tg:
                    if isinstance(t_, ast.Attribute) and isinstance(t_.value, ast.Name) and t_.value.id == selfname:
                        continue
                    if not isinstance(t_, (ast.Name, ast.Tuple, ast.List)):
                        return False
        for n in ast.walk(body):
            if isinstance(n, ast.Name) and isinstance(n.ctx, ast.Load) and n.id not in names and not hasattr(builtins, n.id):
                try:
                    r = prog.resolve_name(m_.module, n.id)
                except Exception:  # noqa: BLE001
                    r = None
                if r is None:
                    return False
                if r[0] == "enum" or (r[0] in ("ext", "extmod") and _pure_library_name(str(r[1]))):
                    continue
                if r[0] in ("ext", "extmod"):
                    return False
                if r[0] == "const":
                    try:
                        prog.fold(r[1], r[1].constants[r[2]])
                    except Exception:  # noqa: BLE001
                        return False
                    continue
                if r[0] == "class" and (r[1] is ci or depth < 3 and _class_self_contained(r[1], prog, depth + 1, seen)):
                    continue
                if r[0] == "func" and depth < 3 and _argument_pure(r[1], prog, depth + 1, seen):
                    continue
                return False
    return True


def state_sweep(prog: Program, rep: Report, visited: Optional[Set[str]] = None) -> None:
    """R3.3: write-effect sweep for anything that could carry state between operations or instances."""
    n = 0
    for modname in STATE_MODULES:
        m = prog.module(modname)
        module_names = set(m.constants) | set(m.imports)
        for fi in m.all_functions():
            where0 = f"{m.relpath}:{fi.node.lineno} {fi.qualname}"
            findings: List[Tuple[int, str]] = []
            for d in fi.decorators:
                if any(x in d.split("(")[0].split(".")[-1] for x in CACHE_DECOS) and not _argument_pure(fi, prog):
                    findings.append((fi.node.lineno, f"decorator @{d} memoises results across calls"))
            mutable_defaults = {k for k, v in fi.defaults().items() if isinstance(v, (ast.List, ast.Dict, ast.Set)) or (isinstance(v, ast.Call) and ast.unparse(v.func) in ("set", "list", "dict"))}
            selfname = fi.params[0] if fi.cls is not None and fi.params else None
            local_names = set(fi.params)
            for node in ast.walk(fi.node):
                if isinstance(node, (ast.Assign, ast.AnnAssign, ast.AugAssign, ast.For, ast.With, ast.NamedExpr)):
                    tg = node.targets if isinstance(node, ast.Assign) else [getattr(node, "target", None)]
                    for t in tg:
                        for sub in ast.walk(t) if t is not None else []:
                            if isinstance(sub, ast.Name) and isinstance(sub.ctx, ast.Store):
                                local_names.add(sub.id)
            for node in ast.walk(fi.node):
                if isinstance(node, (ast.Global, ast.Nonlocal)):
                    findings.append((node.lineno, f"`{ast.unparse(node)}` writes module/outer state"))
                tgts: List[ast.AST] = []
                if isinstance(node, ast.Assign):
                    tgts = list(node.targets)
                elif isinstance(node, (ast.AugAssign, ast.AnnAssign)):
                    tgts = [node.target]
                for t in tgts:
                    for sub in ([t] if not isinstance(t, (ast.Tuple, ast.List)) else list(t.elts)):
                        if isinstance(sub, ast.Attribute):
                            base = sub.value
                            if isinstance(base, ast.Name) and base.id == selfname:
                                if fi.cls is not None and any(c_.name == "SwitcherApi" for c_ in fi.cls.mro()):
                                    allowed = API_STORE_ALLOWED.get(fi.qualname, set())
                                    if sub.attr not in allowed:
                                        findings.append((sub.lineno, f"{fi.qualname} stores self.{sub.attr}: API instances may keep only connection state set in __init__/connect/disconnect"))
                            elif isinstance(base, ast.Name) and base.id in ("new_enum",):
                                pass  # enum member construction in __new__
                            elif visited is not None and fi.key not in visited:
                                # a function no analysed operation reaches (an import-time decorator, a tool): what it
                                # stores is not state between operations; import-time effects are either modelled by the
                                # engine or stop the analysis (exit 2)
                                pass
                            else:
                                findings.append((sub.lineno, f"store to `{ast.unparse(sub)}` (an object other than self): shared between operations/instances"))
                        elif isinstance(sub, ast.Subscript):
                            root = sub.value
                            while isinstance(root, (ast.Attribute, ast.Subscript)):
                                root = root.value
                            if isinstance(root, ast.Name) and (root.id in mutable_defaults or (root.id in module_names and root.id not in local_names)):
                                findings.append((sub.lineno, f"item store into `{root.id}` (mutable default / module-level container)"))
                        elif isinstance(sub, ast.Name) and isinstance(node, ast.AugAssign) and sub.id in mutable_defaults:
                            findings.append((sub.lineno, f"augmented assignment mutates the mutable default `{sub.id}`"))
                if isinstance(node, ast.Call) and isinstance(node.func, ast.Attribute) and node.func.attr in MUTATORS:
                    root = node.func.value
                    while isinstance(root, (ast.Attribute, ast.Subscript)):
                        root = root.value
                    if isinstance(root, ast.Name) and (root.id in mutable_defaults or (root.id in module_names and root.id not in local_names)):
                        findings.append((node.lineno, f"`{ast.unparse(node)[:60]}` mutates `{root.id}` (mutable default / module-level object)"))
            n += 1
            if findings:
                for ln, why in findings:
                    rep.bad("R3.3", f"{fi.qualname}", f"{m.relpath}:{ln} {fi.qualname}", why, key=f"R3.3|{fi.key}|{why[:40]}")
            else:
                rep.ok("R3.3", f"{fi.qualname}", where0)
    rep.analysed["state_sweep_functions"] = n
