"""C09 - no device reply can crash the client or be mistaken for success (exception-escape analysis)."""
from __future__ import annotations

from typing import Any, Dict, List, Optional, Set, Tuple

from .. import api_model as A
from .. import terms as T
from ..interp import Ctx, HeapObj, Interp, Outcome, conj, neg
from ..model import AnalysisError, Program, loc
from ..report import Report
from ..terms import c

LEVEL = "proof"
MSGS = "aioswitcher.api.messages"
STATE_QUERIES = {"get_state": "SwitcherStateResponse", "get_breeze_state": "SwitcherThermostatStateResponse", "get_shutter_state": "SwitcherShutterStateResponse"}
GUARDED_OPS = ["get_state", "get_breeze_state", "get_shutter_state", "stop", "set_position", "control_breeze_device"]


def clock_only(pc: List[T.Term]) -> bool:
    """Paths excluded only by A4 (32-bit clock) - the device cannot cause them."""
    return any(isinstance(g, tuple) and g and g[0] == "outofrange" and A._mentions(g[1], "time.time") for g in pc)


def successful_cond(prog: Program, reply: T.Term) -> T.Term:
    ci = prog.cls(f"{MSGS}:SwitcherBaseResponse")
    I = Interp(prog)
    st = I.new_state()
    ci.require_attrs(["unparsed_response"], "symbolic response")
    obj = st.alloc(HeapObj("obj", ci, {"unparsed_response": reply}, [], False, "resp", True))
    v = I.getattr(obj, "successful", st, Ctx(None, ci.module, 0), ci.node)
    return I.truth(v, st)


def run(prog: Program, rep: Report, tier: str) -> None:
    from ..api_model import sign_summary_premise
    sign_summary_premise(prog, rep)
    rep.rule("R9.1", "escape set: whatever bytes the replies hold, the only exception class that can leave a state query is RuntimeError", 3)
    rep.rule("R9.2", "every normal return of a state query returns the response object parsed from the state reply (get_state additionally only when it is 'successful')", 3)
    rep.rule("R9.3", "SwitcherBaseResponse.successful == (reply is not None and len(reply) > 0), not overridden by any subclass", 2)
    rep.rule("R9.4", "empty login reply: state queries and all type-2 operations raise RuntimeError having written only the login frame; every later write is guarded by a successful login", 6)
    rep.assumptions += ["A4: the clock fits 32 bits (struct.error from packing the timestamp is not caused by the device)",
                        "slices of hexlify() at even bounds have even length, so a truncated login reply shortens the frame but cannot make unhexlify fail"]
    rep.trusted += [
        "exception hierarchy: UnicodeDecodeError, binascii.Error < ValueError; KeyError, IndexError < LookupError; struct.error, OverflowError are NOT ValueError",
        "may-raise table of the library vocabulary (sa/lib.py): int(text,16), dict[key], bytes.decode, datetime.time(), unhexlify, struct.pack, strptime",
        "exceptions raised by asyncio stream read/write themselves are outside the property",
    ]
    funcs: Set[str] = set()
    # R9.3
    any_reply = ("sym", "reply", "any")
    ci = prog.cls(f"{MSGS}:SwitcherBaseResponse")
    where3 = f"{loc(ci, ci.node)} SwitcherBaseResponse.successful"
    cond = successful_cond(prog, any_reply)
    want = conj([("cmp", "is not", any_reply, c(None)), ("cmp", ">", ("len", any_reply), c(0))])
    alt = [want, conj([("cmp", "is not", any_reply, c(None)), ("cmp", "!=", ("len", any_reply), c(0))]),
           conj([("cmp", "is not", any_reply, c(None)), ("cmp", ">=", ("len", any_reply), c(1))])]
    rep.check(cond in alt, "R9.3", "successful normal form", where3, f"successful is {T.show(cond)[:200]}; expected (reply is not None and len(reply) > 0)", key="R9.3|normal-form")
    over = []
    for m in prog.all_modules():
        for k in m.classes.values():
            if k is not ci and ci in k.mro() and ("successful" in k.methods or "successful" in k.properties):
                over.append(k.key)
    rep.check(not over, "R9.3", "successful not overridden", where3, f"successful is overridden in {over}", key="R9.3|override")

    for op in GUARDED_OPS:
        I, outs, fi = A.run_operation(prog, op)
        funcs |= set(I.functions_visited)
        where = f"{loc(fi, fi.node)} {fi.qualname}"
        outs = [o for o in outs if not clock_only(o.state.pc)]
        # R9.1 / R9.2 for state queries
        if op in STATE_QUERIES:
            esc: Dict[str, Outcome] = {}
            for o in outs:
                if o.kind == "raise" and o.exc_name != "RuntimeError":
                    esc.setdefault(o.exc_name, o)
            if esc:
                for name, o in esc.items():
                    rep.bad("R9.1", f"{op}: {name} escapes", o.value[3],
                            f"{name} raised at {o.value[3]} can leave {op} (no enclosing handler converts it to RuntimeError) when {T.show(conj(o.state.pc[-2:]))[:300]}",
                            key=f"R9.1|{op}|{name}")
            else:
                n_r = sum(1 for o in outs if o.kind == "raise")
                rep.ok("R9.1", f"{op}", where, f"{n_r} raising paths, all RuntimeError")
            badret = None
            for o in outs:
                if o.kind != "return":
                    continue
                v = o.value
                if v[0] == "obj":
                    tops = [T.contains_top(x) for x in o.state.heap[v[1]].fields.values()]
                    tops = [t_ for t_ in tops if t_]
                    if tops:
                        rep.undecided("R9.1", f"{op}: parsed value", where, f"the analyser met a construct outside its vocabulary while parsing the reply: {tops[0]}")
                        break
                rd = A.reads(o)
                okv = v[0] == "obj" and o.state.heap[v[1]].cls is not None and o.state.heap[v[1]].cls.name == STATE_QUERIES[op]
                if okv and len(rd) >= 2:
                    okv = o.state.heap[v[1]].fields.get("unparsed_response") == rd[-1].result
                if okv and op == "get_state":
                    okv = successful_cond(prog, rd[-1].result) in o.state.pc
                if not okv:
                    badret = f"a normal return yields {T.show(v)[:80]} / not the parsed last reply / not guarded by successful"
            rep.check(badret is None, "R9.2", op, where, badret or "", key=f"R9.2|{op}")
        # R9.4
        bad4 = None
        saw_fail = False
        for o in outs:
            rd = A.reads(o)
            if not rd:
                continue
            s0 = successful_cond(prog, rd[0].result)
            nw = len(A.writes(o))
            if neg(s0) in o.state.pc:
                saw_fail = True
                if not (o.kind == "raise" and o.exc_name == "RuntimeError" and nw == 1):
                    bad4 = f"with an empty login reply the operation {'returns' if o.kind == 'return' else 'raises ' + o.exc_name} after writing {nw} frame(s)"
            elif nw >= 2 and s0 not in o.state.pc:
                bad4 = f"a path writes {nw} frames without having tested that the login reply is non-empty"
        if not saw_fail and bad4 is None:
            bad4 = "no path tests the login reply for emptiness"
        rep.check(bad4 is None, "R9.4", op, where, bad4 or "", "empty login reply => RuntimeError with only the login frame written", key=f"R9.4|{op}")
    rep.analysed["functions"] = sorted(funcs)
    rep.sample({"state_queries": list(STATE_QUERIES), "guarded_ops": GUARDED_OPS, "successful": T.show(cond)})
