"""C02 - each operation's frame encodes exactly that operation and the caller's arguments."""
from __future__ import annotations

import ast
import json
import os
from typing import Any, Dict, List, Optional, Tuple

from .. import api_model as A
from .. import frames as F
from .. import terms as T
from ..interp import Outcome, conj
from ..model import AnalysisError, Program, loc
from ..report import Report, VERIF
from ..terms import Lin, c

LEVEL = "translation_validation"
SPEC = os.path.join(VERIF, "spec", "wire_frames.json")

TOOL_FILES = ("src/aioswitcher/device/tools.py", "src/aioswitcher/schedule/tools.py")

# expected argument-rejection exits: operation -> [(exception, function that raises)]
REJECTIONS = {
    "set_device_name": [("ValueError", "string_to_hexadecimale_device_name")],
    "set_auto_shutdown": [("ValueError", "timedelta_to_hexadecimal_seconds")],
    "control_device": [("struct.error", "minutes_to_hexadecimal_seconds")],
    "create_schedule": [("ValueError", "time_to_hexadecimal_timestamp")],
}


def load_spec() -> Dict[str, Any]:
    with open(SPEC) as fh:
        return json.load(fh)


def clock_term_ok(v: T.Term) -> bool:
    """LE32 source is int(round(time.time())) / int(time.time()) of ONE clock occurrence."""
    if not (isinstance(v, tuple) and v[:2] == ("app", "int") and len(v) == 3):
        return False
    x = v[2]
    if isinstance(x, tuple) and x[:2] == ("app", "round") and len(x) == 3:
        x = x[2]
    # (an occurrence tagged "import:" is a reading taken when a parameter default was evaluated at import, see
    #  Interp.default_value: not a reading of this call)
    return isinstance(x, tuple) and len(x) == 3 and x[:2] == ("app", "time.time") and x[2][0] == "occ" and not str(x[2][1]).startswith("import:")


def check_role(role: str, sl: T.Term, op: str, o: Outcome, ctx: Dict[str, Any], pc: Optional[List[Any]] = None) -> Tuple[Optional[bool], str]:
    pc = list(o.state.pc) if pc is None else pc
    atoms = sl[2]
    if len(atoms) == 1 and isinstance(atoms[0], tuple) and len(atoms[0]) == 4 and atoms[0][0] == "alt" and all(isinstance(b, tuple) and b[:1] == ("seq",) for b in atoms[0][2:]):
        # a field chosen by a condition inside the value (a conditional expression in a helper): each choice is
        # judged under its own condition, as if the path had forked there
        from ..interp import neg
        cond_, a_, b_ = atoms[0][1:]
        ra = check_role(role, a_, op, o, ctx, pc + [cond_])
        rb = check_role(role, b_, op, o, ctx, pc + [neg(cond_)])
        for r_ in (ra, rb):
            if r_[0] is False:
                return r_
        for r_ in (ra, rb):
            if r_[0] is None:
                return r_
        return True, ra[1]
    dev_id = ("sym", "device_id", ("hexw", 6))
    dev_key = ("sym", "device_key", ("hexw", 2))
    if role == "LEN":
        return True, "decided by C01"
    if role == "SESSION":
        r0 = ctx.get("reply0")
        ok = r0 is not None and atoms == (("hx", r0, 16, 24),)
        return ok, f"session field is {T.show(sl)[:120]}, expected bytes 8..12 of this call's login reply"
    if role == "TS":
        v = F.le32_of(sl)
        if v is None:
            return False, f"timestamp field is {T.show(sl)[:120]}, not a little-endian 32-bit integer"
        if not clock_term_ok(v):
            return False, f"timestamp is LE32 of {T.show(v)[:120]}, not of the current clock reading"
        ctx.setdefault("ts", v)
        return ctx["ts"] == v, "timestamp differs from the one sent in this call's login frame"
    if role == "DEVID":
        return atoms == (("whole", dev_id),), f"device-id field is {T.show(sl)[:100]}, expected the configured device id"
    if role == "DEVKEY":
        return atoms == (("whole", dev_key),), f"login-key field is {T.show(sl)[:100]}, expected the configured device key"
    if role == "ARG:command":
        cmd = ("sym", "command", ("enum", "aioswitcher.api:Command"))
        ok = len(atoms) == 1 and atoms[0][0] == "txt" and atoms[0][1][:3] == ("eattr", cmd, "value")
        return ok, f"on/off flag is {T.show(sl)[:100]}, expected command.value"
    if role == "ARG:timer":
        minutes = ("sym", "minutes", "int")
        lit = F.literal(sl)
        pos = ("cmp", ">", minutes, c(0)) in pc
        nonpos = ("cmp", "<=", minutes, c(0)) in pc
        if lit is not None:
            return (lit == "00000000" and nonpos), f"timer field is the constant {lit} on a path where minutes > 0 is {pos}"
        v = F.le32_of(sl)
        if v is None:
            return False, f"timer field is {T.show(sl)[:100]}, not LE32"
        ok = Lin.of(v) == Lin({minutes: 60}, 0) and pos
        return ok, f"timer field is LE32({T.show(v)[:80]}) guarded by minutes>0={pos}; expected LE32(60*minutes) iff minutes > 0"
    if role == "ARG:auto_off":
        v = F.le32_of(sl)
        if v is None:
            return False, f"auto-off field is {T.show(sl)[:100]}, not LE32"
        ft = ("sym", "full_time", "timedelta")
        mins = ("app", "truediv", ("app", ".total_seconds", ft), c(60))
        want = Lin({("app", "int", ("app", "floordiv", mins, c(60))): 3600, ("app", "int", ("app", "mod", mins, c(60))): 60}, 0)
        # second accepted form: 60 * int(total_seconds() // 60).  Lemma (floats): total_seconds() has microsecond
        # resolution and is < 2**17 on the accepted domain, so t/60 is at least 1.6e-8 away from any integer it does
        # not equal, far more than one ulp (2.3e-13): floor(t/60) == t//60, and 60*h + m == floor(t/60).
        want_b = Lin({("app", "int", ("app", "floordiv", ("app", ".total_seconds", ft), c(60))): 60}, 0)
        got = Lin.of(v)
        if got not in (want, want_b):
            for w_ in (want, want_b):
                if set(got.coef) == set(w_.coef):
                    return False, f"auto-off seconds are {T.show(v)[:200]}: the same terms as the accepted form {T.show(w_.term())[:120]} with other factors"
            return None, (f"auto-off seconds are computed as {T.show(v)[:200]}, which is neither 3600*int(hours) + 60*int(minutes) of total_seconds()/60 nor 60*int(total_seconds()//60); "
                          f"whether another float arithmetic is equal on the domain cannot be decided here")
        lo, hi = F.int_bounds_from_guard(pc, v)
        return (lo, hi) == (3600, 86340), f"auto-off accepted for seconds in [{lo},{hi}], expected exactly [3600, 86340] (1h..23h59m)"
    if role == "ARG:name":
        name = ("sym", "name", "str")
        ulen = ("len", ("utf8", ("whole", name)))
        want = T.seq("s", (("hexof", ("utf8", ("whole", name))), ("rep", "00", Lin({ulen: -1}, 32).term())))[2]
        if T.normalise_atoms(tuple(atoms)) != want:
            return False, f"name field is {T.show(sl)[:200]}, expected hex(utf8(name)) ++ '00'*(32 - utf8len(name))"
        lo, hi = F.int_bounds_from_guard(pc, ulen)
        return (lo, hi) == (2, 32), f"names accepted for UTF-8 length in [{lo},{hi}], expected [2,32]"
    if role == "ARG:slot":
        return atoms == (("whole", ("sym", "schedule_id", ("hexw", 1))),), f"slot field is {T.show(sl)[:80]}"
    if role == "ARG:position":
        pos_s = ("sym", "position", ("int", 0, 100))
        ok = len(atoms) == 1 and atoms[0][0] == "fmt" and atoms[0][2] == pos_s and T.fmt_fixed_width(atoms[0][1], pos_s) == 2 and atoms[0][1].endswith("x")
        return ok, f"position field is {T.show(sl)[:100]}, expected two lower-case hex digits of position"
    if role == "ARG:days":
        days = ("sym", "days", ("set", ("enum", "aioswitcher.schedule:Days")))
        lit = F.literal(sl)
        # a length is never negative: len > 0, len != 0, len >= 1 and the truth of the collection are one test
        ln = ("len", days)
        fpc = F.flat_pc(pc)        # (conjuncts of compound guards, unit resolution over the disjunctions)
        some = any(g in fpc for g in (("cmp", ">", ln, c(0)), ("cmp", "!=", ln, c(0)), ("cmp", ">=", ln, c(1)), ("truthy", days)))
        none = any(g in fpc for g in (("cmp", "<=", ln, c(0)), ("cmp", "==", ln, c(0)), ("cmp", "<", ln, c(1)), ("not", ("truthy", days))))
        # the same, decided by evaluation: a guard that is false for every empty (non-empty) collection excludes it
        some = some or any(F.guard_under(g, F.collection_facts(days, True, None)) is False for g in fpc)
        none = none or any(F.guard_under(g, F.collection_facts(days, False, None)) is False for g in fpc)
        if lit is not None:
            return (lit == "00" and none), f"day mask is the constant {lit} (non-recurring) on a path where len(days)>0 is {some}"
        e = ("sym", "$e", ("enum", "aioswitcher.schedule:Days"))
        summed = None
        if len(atoms) == 1 and atoms[0][0] == "fmt" and atoms[0][1] == "02x" and isinstance(atoms[0][2], tuple):
            summed = atoms[0][2]
            if summed[:2] == ("app", "int") and len(summed) == 3:
                summed = summed[2]          # int() of an integer sum is the sum
        ok = (summed is not None and summed[:2] == ("app", "sum") and len(summed) == 3 and summed[2][0] == "map"
              and summed[2][1][:3] == ("eattr", e, "bit_rep") and summed[2][2] == days)
        return (ok and some), f"day mask is {T.show(sl)[:160]}, expected '{{:02x}}' of the sum of bit_rep over days (only when days given)"
    if role in ("ARG:start", "ARG:end"):
        mine, other = ("start_time", "end_time") if role == "ARG:start" else ("end_time", "start_time")
        v = F.le32_of(sl)
        if v is None:
            return False, f"{role} is {T.show(sl)[:100]}, not LE32"
        ok = F.mentions(v, mine) and not F.mentions(v, other)
        if not ok:
            return False, f"{role} is derived from {'the other clock argument' if F.mentions(v, other) else 'neither clock argument'}"
        from .c11 import clock_encoder_form
        why = clock_encoder_form(v)
        if why is not None and why.startswith("FOREIGN: "):
            return None, f"{role}: {why[9:]} (a form this rule does not compare)"
        return why is None, f"{role}: {why}"
    if role == "ARG:ircmd":
        ok = len(atoms) == 2 and atoms[0] == ("L", "00000000") and atoms[1][0] == "hx" and atoms[1][2:] == (0, None)
        if ok:
            ctx["ir"] = atoms[1][1]
        return ok, f"IR payload is {T.show(sl)[:120]}, expected 00000000 ++ hex(ascii(Para|HexCode))"
    if role in ("ARG:cmdlen", "ARG:state", "ARG:mode", "ARG:target", "ARG:fan", "ARG:swing"):
        return True, "wiring decided by C15/C16"
    return None, f"no rule for role {role}"


def run(prog: Program, rep: Report, tier: str) -> None:
    from ..api_model import sign_summary_premise
    sign_summary_premise(prog, rep)
    rep.rule("R2.1", "layout equality: every fixed byte and every hole offset/width of the symbolic frame equals spec/wire_frames.json for that operation", 14)
    rep.rule("R2.2", "argument wiring by role: session<-this call's login reply[8:12], timestamp<-this call's clock reading, device id/key<-configuration, each argument hole<-the same-named argument through its encoder's normal form and accepted range", 40)
    rep.rule("R2.4", "reject-before-send: every argument rejection raises inside an encoder before the command frame is written, and the expected rejections exist", 8)
    rep.rule("R2.5", "configuration is immutable: _device_id/_device_key/_port/_ip_address are stored only in SwitcherApi.__init__, from the same-named parameter", 4)
    rep.rule("R2.7", "days given as a sequence (the encoder accepts lists and tuples as well as sets): a command frame is written only when the sequence is empty or duplicate-free "
                      "(len(days) == len(set(days))); a sequence naming a day twice is refused before the command frame, never sent as some other day set", 2)
    rep.rule("R2.6", "clock strings are validated as a whole: the split result is bounded to exactly two components (or a whole-string parse guards the result)", 1)
    rep.assumptions += A.ASSUMPTIONS
    rep.trusted += [
        "spec/wire_frames.json: operation codes and fixed payload bytes confirmed by reading the pinned tree (no independent offline source)",
        "struct.pack('<I'), str.format, time.* signatures (CPython docs)",
        "float arithmetic inside total_seconds()/60 and divmod is not evaluated (structure and guard only)",
    ]
    spec = load_spec()
    funcs = set()
    n_frames = 0
    programs = 0
    for op, (clsname, _types) in A.OPERATIONS.items():
        if op not in spec["operations"]:
            rep.undecided("R2.1", op, "-", "operation missing from spec/wire_frames.json")
            continue
        I, outs, fi = A.run_operation(prog, op)
        funcs |= set(I.functions_visited)
        programs += 1
        where_op = f"{loc(fi, fi.node)} {fi.qualname}"
        cands = [spec["operations"][op]["login"]] + spec["operations"][op]["commands"]
        seen = set()
        for o in outs:
            if A.excluded_by_assumptions(o.state.pc):
                continue
            rd = A.reads(o)
            ctx: Dict[str, Any] = {"reply0": rd[0].result if rd else None}
            for k, e in enumerate(A.writes(o)):
                frame = e.args[0]
                key = (frame, tuple(g for g in o.state.pc if F.mentions(g, "minutes") or F.mentions(g, "days") or F.mentions(g, "full_time") or F.mentions(g, "name")))
                first_time = key not in seen
                seen.add(key)
                sp = F.split_signed(frame)
                if sp is None or T.contains_top(frame):
                    if first_time:
                        rep.undecided("R2.1", f"{op} write #{k}", e.where, "written value is not a signed frame (see C01)")
                    continue
                body, _ = sp
                expect = [cands[0]] if k == 0 else cands[1:]
                best: Optional[Tuple[List[str], Dict[str, T.Term], str]] = None
                for name in expect:
                    mm, holes = F.match_layout(body, spec["frames"][name])
                    if best is None or len(mm) < len(best[0]):
                        best = (mm, holes, name)
                assert best is not None
                mm, holes, name = best
                inst = f"{op} write#{k} as {name} @{e.where.split(' ')[1]}"
                if first_time:
                    n_frames += 1
                    if mm:
                        rep.bad("R2.1", inst, e.where, f"frame deviates from the reference layout '{name}': " + "; ".join(mm[:4]), key=f"R2.1|{op}|{name}")
                    else:
                        rep.ok("R2.1", inst, e.where, f"all fixed bytes and hole positions equal reference '{name}'")
                        if len(rep.samples) < 5 and k == 1:
                            rep.sample({"operation": op, "reference": name, "holes": {r: T.show(v)[:160] for r, v in holes.items()}})
                # roles are path dependent (timer / days literals): check on every path, report once per (role, verdict)
                for role, sl in holes.items():
                    okv, why = check_role(role, sl, op, o, ctx)
                    tag = (op, name, role, okv, why if not okv else "")
                    if tag in seen:
                        continue
                    seen.add(tag)
                    rid = "R2.2"
                    if okv is None:
                        rep.undecided(rid, f"{op}/{name}/{role}", e.where, why)
                    elif okv:
                        rep.ok(rid, f"{op}/{name}/{role}", e.where)
                    else:
                        rep.bad(rid, f"{op}/{name}/{role}", e.where, why, key=f"R2.2|{op}|{name}|{role}")
        # R2.4
        want = list(REJECTIONS.get(op, []))
        for o in outs:
            if o.kind != "raise" or A.excluded_by_assumptions(o.state.pc):
                continue
            origin = o.value[3]
            if origin.split(":")[0] in TOOL_FILES and len(A.reads(o)) <= 1:
                nw = len(A.writes(o))
                fn = origin.split(" ")[-1]
                tag2 = ("R2.4", op, fn, o.exc_name, nw)
                if tag2 in seen:
                    continue
                seen.add(tag2)
                rep.check(nw <= 1, "R2.4", f"{op}: {o.exc_name} from {fn}", origin,
                          f"an argument rejected by {fn} raises only after {nw} frames were written (the command frame is already on the wire)",
                          "rejection raises with only the login frame written", key=f"R2.4|{op}|{fn}|late")
                # the rejection may be raised by a helper the encoder calls: any frame of the raise's call stack counts
                frames = {fn} | {f for stk in getattr(I, "raise_stacks", {}).get(origin, ()) for f in stk}
                want = [(x, f_) for (x, f_) in want if not (x == o.exc_name and f_ in frames)]
        for x, f_ in want:
            rep.bad("R2.4", f"{op}: missing rejection {x} from {f_}", where_op,
                    f"no path of {op} raises {x} from {f_}: out-of-domain arguments are no longer refused", key=f"R2.4|{op}|{f_}|missing")
    rep.analysed["functions"] = sorted(funcs)
    rep.analysed["distinct_frames_checked"] = n_frames
    rep.extra["programs"] = programs
    config_sweep(prog, rep)
    clock_split_rule(prog, rep)
    days_sequence_rule(prog, rep)


def config_sweep(prog: Program, rep: Report, rid: str = "R2.5") -> None:
    """R2.5 (shared with C03 R3.7): who stores the configuration attributes."""
    names = {"_device_id": "device_id", "_device_key": "device_key", "_port": "port", "_ip_address": "ip_address"}
    found = {n: 0 for n in names}
    for m in prog.all_modules(True):
        for cls in m.classes.values():
            for fi in list(cls.methods.values()) + list(cls.properties.values()):
                for node in ast.walk(fi.node):
                    tgts: List[ast.AST] = []
                    if isinstance(node, ast.Assign):
                        tgts = list(node.targets)
                    elif isinstance(node, (ast.AugAssign, ast.AnnAssign)):
                        tgts = [node.target]
                    elif isinstance(node, ast.Delete):
                        tgts = list(node.targets)
                    for t in tgts:
                        for sub in ast.walk(t):
                            if isinstance(sub, ast.Attribute) and sub.attr in names:
                                where = f"{m.relpath}:{sub.lineno} {fi.qualname}"
                                val = getattr(node, "value", None)
                                ok = fi.qualname == "SwitcherApi.__init__" and isinstance(val, ast.Name) and val.id == names[sub.attr]
                                found[sub.attr] += 1
                                rep.check(ok, rid, f"store {sub.attr}", where,
                                          f"{sub.attr} is (re)assigned in {fi.qualname} from `{ast.unparse(val) if val is not None else 'del'}`: frames may carry an id/key other than the configured one",
                                          key=f"{rid}|{fi.qualname}|{sub.attr}")
                    if isinstance(node, ast.Call) and ast.unparse(node.func) in ("setattr", "object.__setattr__") and len(node.args) >= 2:
                        tgt_, nm_ = node.args[0], node.args[1]
                        in_api = fi.cls is not None and any(k_.name == "SwitcherApi" for k_ in fi.cls.mro())
                        on_own_self = isinstance(tgt_, ast.Name) and fi.params and tgt_.id == fi.params[0] and fi.cls is not None and not in_api
                        if on_own_self:
                            continue          # an object of another class setting its own attributes: not an API instance
                        if isinstance(nm_, ast.Constant) and isinstance(nm_.value, str):
                            if nm_.value in names:
                                rep.bad(rid, f"setattr {nm_.value}", f"{m.relpath}:{node.lineno} {fi.qualname}", f"`{ast.unparse(node)[:70]}` re-assigns {nm_.value}: frames may carry an id/key other than the configured one", key=f"{rid}|{fi.qualname}|setattr|{nm_.value}")
                            continue
                        rep.undecided(rid, "setattr", f"{m.relpath}:{node.lineno} {fi.qualname}", f"`{ast.unparse(node)[:70]}`: an attribute store with a computed name on an object that may be an API instance: configuration writers can no longer be enumerated")
    for n, k in found.items():
        if k == 0:
            rep.undecided(rid, f"store {n}", "-", f"anchor vanished: no store of {n} found")


def clock_split_rule(prog: Program, rep: Report) -> None:
    """R2.6 / R11.4: whole-input validation of HH:MM strings in the clock encoder."""
    from ..interp import Interp

    fi = prog.func("aioswitcher.schedule.tools:time_to_hexadecimal_timestamp")
    where = f"{loc(fi, fi.node)} {fi.qualname}"
    I = Interp(prog)
    st = I.new_state()
    p = ("sym", fi.params[0], "str")
    outs = I.run(fi, {fi.params[0]: p}, st)
    rets = [o for o in outs if o.kind == "return"]
    if not rets:
        rep.bad("R2.6", "clock encoder", where, "clock encoder never returns")
    for k, o in enumerate(rets):
        if T.contains_top(o.value):
            rep.undecided("R2.6", f"return path {k}", where, f"value not understood: {T.contains_top(o.value)}")
            continue
        parts = _collect(o.value, "part", [])
        sls = {p_[1] for p_ in parts}
        if not parts:
            # no split-and-index: whole-string parse; require the parameter itself to reach a strptime
            ok = any(g[0] == "not" and g[1][0] == "invalid" and "strptime" in str(g[1][1]) and F.mentions(g[1], fi.params[0]) for g in o.state.pc)
            rep.check(ok, "R2.6", f"return path {k}", where, "result not guarded by a strptime over the argument")
            continue
        for sl in sls:
            used = max(p_[2] for p_ in parts if p_[1] == sl)
            lo, hi = F.int_bounds_from_guard(o.state.pc, ("nparts", sl))
            whole = any(g[0] == "not" and g[1][0] == "invalid" and "strptime" in str(g[1][1]) and _has_whole_param(g[1], p) for g in o.state.pc)
            ok = (hi is not None and hi <= used + 1) or whole
            rep.check(ok, "R2.6", f"return path {k}", where,
                      f"the clock string is split on {T.show(sl[2])} and only components 0..{used} are consumed; nothing bounds the number of components (guard gives [{lo},{hi}]), so 'HH:MM:<anything>' is accepted as HH:MM",
                      "number of components bounded to exactly the consumed ones",
                      key="R2.6|time_to_hexadecimal_timestamp|trailing-components")


def _collect(v: Any, tag: str, acc: List[Any]) -> List[Any]:
    if isinstance(v, tuple):
        if v and v[0] == tag:
            acc.append(v)
        for x in v:
            _collect(x, tag, acc)
    elif isinstance(v, Lin):
        for t in v.coef:
            _collect(t, tag, acc)
    return acc


def _has_whole_param(g: Any, p: T.Term) -> bool:
    """A strptime whose text argument contains the whole parameter (not a split part)."""
    if isinstance(g, tuple):
        if g == ("whole", p):
            return True
        if g and g[0] == "part":
            return False
        return any(_has_whole_param(x, p) for x in g)
    return False


def days_sequence_rule(prog: Program, rep: Report) -> None:
    """R2.7: create_schedule with `days` typed as a list (the other runs type it as the annotated Set)."""
    dtype = ("enum", "aioswitcher.schedule:Days")
    days = ("sym", "days", ("list", dtype))
    try:
        I, outs, fi = A.run_operation(prog, "create_schedule", retype={"days": ("list", dtype)})
    except AnalysisError as e:
        rep.undecided("R2.7", "create_schedule with a sequence of days", "-", f"not analysable: {e}")
        return
    where = f"{loc(fi, fi.node)} {fi.qualname}"
    ln, lset = ("len", days), ("len", ("app", "set", days))
    dup = {("cmp", "!=", ln, lset), ("cmp", "!=", lset, ln), ("cmp", "<", lset, ln), ("cmp", ">", ln, lset)}
    nodup = {("cmp", "==", ln, lset), ("cmp", "==", lset, ln)}
    empty = {("not", ("truthy", days)), ("cmp", "<=", ln, c(0)), ("cmp", "==", ln, c(0)), ("cmp", "<", ln, c(1))}
    sent_dup = [o for o in outs if len(A.writes(o)) >= 2 and any(g in dup for g in o.state.pc) and not A.excluded_by_assumptions(o.state.pc)]
    sent = [o for o in outs if len(A.writes(o)) >= 2 and not A.excluded_by_assumptions(o.state.pc)]
    nonempty = {("truthy", days), ("cmp", ">", ln, c(0)), ("cmp", "!=", ln, c(0)), ("cmp", ">=", ln, c(1))}

    def under_dup(g: Any, depth: int = 0, isdup: bool = True) -> Optional[bool]:
        """Three-valued value of a guard for a non-empty sequence that names a day twice (isdup) or names no day twice
        (not isdup); None: depends on other things."""
        if depth > 12 or not isinstance(g, tuple) or not g:
            return None
        if g in nonempty:
            return True
        if g in empty:
            return False
        if g in dup:
            return isdup
        if g in nodup:
            return not isdup
        if T.is_c(g):
            return bool(g[1])
        if g[0] == "not" and len(g) == 2:
            r = under_dup(g[1], depth + 1, isdup)
            return None if r is None else not r
        if g[0] in ("and", "or"):
            rs = [under_dup(x, depth + 1, isdup) for x in g[1:]]
            if g[0] == "and":
                return False if any(r is False for r in rs) else True if all(r is True for r in rs) else None
            return True if any(r is True for r in rs) else False if all(r is False for r in rs) else None
        if g[0] == "cmp" and g[1] in ("is not", "is") and len(g) == 4 and T.is_c(g[3]) and g[3][1] is None:
            x = g[2]
            while isinstance(x, tuple) and x[:1] == ("ite",) and len(x) == 4:
                cnd = under_dup(x[1], depth + 1, isdup)
                if cnd is None:
                    return None
                x = x[2] if cnd else x[3]
            if T.is_c(x):
                isnone = x[1] is None
            elif x == days:
                isnone = False
            else:
                return None
            return isnone if g[1] == "is" else not isnone
        return None

    # a refusal: a path that raises before the command frame, is possible for a duplicate-bearing sequence and impossible for a duplicate-free one
    refused = [o for o in outs if o.kind == "raise" and len(A.writes(o)) <= 1 and not any(under_dup(g) is False for g in o.state.pc)
               and any(under_dup(g, 0, False) is False for g in o.state.pc)]
    unguarded = [o for o in sent if not any(under_dup(g) is False for g in o.state.pc) and not any(g in dup for g in o.state.pc)]
    if not sent:
        rep.undecided("R2.7", "create_schedule with a sequence of days", where, "no path writes the command frame")
        return
    rep.check(not sent_dup, "R2.7", "a duplicate-bearing sequence is never sent", where,
              f"{len(sent_dup)} path(s) write the command frame although len(days) != len(set(days)) (a sequence naming a day twice): "
              f"the frame then encodes some other day set; guard {T.show(conj(sent_dup[0].state.pc[-4:]))[:300] if sent_dup else ''}", key="R2.7|sent-dup")
    if unguarded:
        rep.undecided("R2.7", "the command frame is guarded by the duplicate test", where,
                      f"{len(unguarded)} path(s) write the command frame under a guard that neither states nor excludes len(days) == len(set(days)): {T.show(conj(unguarded[0].state.pc[-4:]))[:300]}")
    else:
        rep.check(bool(refused), "R2.7", "duplicates are refused before the command frame", where,
                  "no path raises with only the login frame written when len(days) != len(set(days))", key="R2.7|refused")
