"""C04 - the signature is the protocol's double CRC-16 (normal-form proof)."""
from __future__ import annotations

from .. import terms as T
from ..interp import Interp, conj
from ..model import Program, loc
from ..report import Report
from ..terms import c

LEVEL = "proof"
FUNC = "aioswitcher.device.tools:sign_packet_with_crc_key"


def expected(p):
    praw = ("seq", "raw", (("whole", p),))
    c1 = ("app", "binascii.crc_hqx", praw, c(0x1021))
    key = T.seq("raw", (("hbi", c1, 0), ("hbi", c1, 1), ("L", "30" * 32)))
    c2 = ("app", "binascii.crc_hqx", key, c(0x1021))
    return T.seq("s", (("whole", p), ("hbi", c1, 0), ("hbi", c1, 1), ("hbi", c2, 0), ("hbi", c2, 1)))


def _apps(v, acc):
    if isinstance(v, tuple):
        if len(v) > 1 and v[0] == "app":
            acc.add(v[1])
        for x in v:
            _apps(x, acc)
    elif isinstance(v, T.Lin):
        for t in v.coef:
            _apps(t, acc)
    return acc


def variable_width_piece(v: Any) -> str:
    """int.to_bytes(x, n, order) with a length n that takes more than one value over the range of x."""
    if isinstance(v, tuple):
        if v[:2] == ("app", "to_bytes") and len(v) == 5:
            r = T.int_range(v[3])
            if r is not None and r[0] is not None and r[1] is not None and r[0] != r[1]:
                return f"to_bytes(..., length) with length = {T.show(v[3])[:80]} between {int(r[0])} and {int(r[1])} bytes"
        for x in v:
            w = variable_width_piece(x)
            if w:
                return w
    return ""


def _crc_chained(v: Any) -> bool:
    """crc_hqx called with a non-constant initial value (crc of a prefix continued over a suffix)."""
    if isinstance(v, tuple):
        if v[:2] == ("app", "binascii.crc_hqx") and len(v) == 4 and not T.is_c(v[3]):
            return True
        return any(_crc_chained(x) for x in v)
    return False


def _seed_dropped_when_zero(v: Any) -> Any:
    """crc_hqx(data, running or K): the running CRC is replaced by the constant whenever it is 0."""
    if isinstance(v, tuple):
        if v[:2] == ("app", "binascii.crc_hqx") and len(v) == 4:
            sd = v[3]
            if isinstance(sd, tuple) and sd[:1] == ("ite",) and len(sd) == 4:
                # `running or K` as a value: ite(running != 0, running, K)
                first, second = sd[2], sd[3]
                tests_first = sd[1] in (("cmp", "!=", first, T.c(0)), ("truthy", first))
                if not tests_first and sd[1] in (("cmp", "==", second, T.c(0)), ("not", ("truthy", second))):
                    first, second, tests_first = sd[3], sd[2], True        # written with the positive test: ite(x == 0, K, x)
                if tests_first and T.is_c(second) and isinstance(second[1], int) and second[1] != 0 and isinstance(first, tuple) and first[:2] == ("app", "binascii.crc_hqx"):
                    return ("or", first, second)
        for x in v:
            r = _seed_dropped_when_zero(x)
            if r is not None:
                return r
    return None


def run(prog: Program, rep: Report, tier: str) -> None:
    rep.rule("R4.1", "normal form of the signer equals p ++ LE16(crc_hqx(p,0x1021)) ++ LE16(crc_hqx(LE16bytes(c1) ++ 0x30*32, 0x1021))", 1)
    rep.rule("R4.4", "no returning path returns the parameter itself (an 'already signed' shortcut): the result always has something appended", 1, structural=True)
    rep.rule("R4.2", "the parameter is returned unmodified as prefix; no clock, global, attribute or I/O is read (deterministic)", 2)
    rep.rule("R4.3", "every normal return is guarded by a successful unhexlify of the *parameter*; invalid hex / odd length raise a ValueError subclass and nothing is returned", 3)
    rep.trusted += [
        "binascii.crc_hqx(data, 0x1021) is CRC-16/CCITT, polynomial 0x1021, initial value 0x1021, result in [0,65535] (CPython docs)",
        "struct.pack('>I'/'<H'), hexlify/unhexlify, slicing, str concatenation (CPython docs)",
        "sa.interp abstract interpreter and sa.lib transfer functions",
    ]
    fi = prog.func(FUNC)
    where = f"{loc(fi, fi.node)} {fi.qualname}"
    if len(fi.params) != 1:
        rep.undecided("R4.1", "signature", where, "signer no longer takes exactly one parameter")
        return
    I = Interp(prog)
    st = I.new_state()
    p = ("sym", fi.params[0], "str")
    outs = I.run(fi, {fi.params[0]: p}, st)
    rets = [o for o in outs if o.kind == "return"]
    raises = [o for o in outs if o.kind == "raise"]
    rep.analysed["functions"] = sorted(I.functions_visited)
    rep.analysed["paths"] = len(outs)
    exp = expected(p)
    rep.sample({"function": FUNC, "expected_normal_form": T.show(exp), "paths": [(o.kind, o.exc_name, T.show(conj(o.state.pc))[:300]) for o in outs]})
    # R4.4 (structural: decided on the returned term alone, whatever else the analysis could not follow)
    pw = T.seq("s", (("whole", p),))
    for k, o in enumerate(rets):
        if o.value == pw or o.value == p:
            rep.bad("R4.4", f"path {k} returns the packet unsigned", where,
                    f"a returning path hands back the parameter itself (under {T.show(conj(o.state.pc))[:200]}): nothing is appended, so for those packets the result is not p followed by its "
                    f"four signature bytes - whatever the condition is meant to recognise, a packet whose last bytes happen to satisfy it is sent unsigned", key="R4.4|unsigned-return")
        else:
            rep.ok("R4.4", f"path {k}", where, "the returned value is not the bare parameter")
    # R4.1
    if not rets:
        rep.bad("R4.1", "normal-form", where, "signer never returns normally")
    for k, o in enumerate(rets):
        r = T.contains_top(o.value)
        if r:
            rep.undecided("R4.1", f"normal-form path {k}", where, f"analyser met a construct outside its vocabulary: {r}")
            continue
        same = o.value == exp
        vw = None if same else variable_width_piece(o.value)
        if vw:
            rep.bad("R4.1", f"normal-form path {k}", where,
                    f"a piece of the signature has a width that depends on the CRC value ({vw}); the protocol signature is always two little-endian bytes per CRC, "
                    f"so for some packets the result is not p followed by four bytes", key="R4.1|variable-width")
            continue
        if not same:
            arith_ops = sorted(a for a in _apps(o.value, set()) if a in ("mod", "floordiv", "and", "or", "xor", "rshift", "lshift", "mul", "add", "sub", "builtins.bytes", "divmod", "pow"))
            chained = _crc_chained(o.value)
            dropped = _seed_dropped_when_zero(o.value)
            if dropped is not None:
                # a recognised skeleton (CRC continued over a suffix) with a deviating part: `crc or K` is K when the
                # running CRC is 0.  crc_hqx reaches every 16-bit value on two or more bytes, 0 included, and for fixed
                # data it is injective in its initial value, so for such a packet the result differs from the chained CRC.
                rep.bad("R4.1", f"normal-form path {k}", where,
                        f"the CRC is continued from `{T.show(dropped)[:160]}`: when the running CRC is 0 (some packets' CRC is) the continuation restarts from {dropped[2][1]:#x} "
                        f"instead of 0, and crc_hqx is injective in its initial value - the signature of such a packet is wrong", key="R4.1|seed-or")
                continue
            if arith_ops or chained:
                # the signature is re-expressed through integer arithmetic on the CRC values (x % 256, x >> 8, ...) or by
                # chaining crc_hqx over pieces: deciding that such a form equals LE16(crc) ++ LE16(crc') needs arithmetic
                # reasoning this analysis does not do - not a violation, not a proof
                rep.undecided("R4.1", f"normal-form path {k}", where,
                              f"the signer is expressed through {'arithmetic on the CRC values ' + str(arith_ops) if arith_ops else 'chained crc_hqx calls'}: {T.show(o.value)[:300]}; "
                              f"its equality with the protocol term {T.show(exp)[:200]} is outside this analysis (normal forms are compared syntactically)")
                continue
        rep.check_term(same, o.value, "R4.1", f"normal-form path {k}", where,
                  f"signer computes {T.show(o.value)[:700]} but the protocol signature is {T.show(exp)[:500]}",
                  "derived normal form is syntactically identical to the protocol term", derived_text=T.show(o.value)[:900])
    # R4.2
    for k, o in enumerate(rets):
        v = T.to_seq(o.value)
        prefix_ok = bool(v and v[2] and v[2][0] == ("whole", p))
        rep.check(prefix_ok, "R4.2", f"prefix path {k}", where, "result does not start with the unmodified parameter")
        apps = _apps(o.value, set())
        impure = sorted(a for a in apps if a not in ("binascii.crc_hqx", "mod", "floordiv", "and", "or", "xor", "rshift", "lshift", "mul", "add", "sub", "builtins.bytes", ".bit_length", "to_bytes"))
        ev = [e for e in o.state.events if e.kind in ("call", "store", "global")]
        rep.check(not impure and not ev, "R4.2", f"determinism path {k}", where,
                  f"result depends on {impure or [repr(e) for e in ev]}", "only crc_hqx of the parameter occurs in the result; no events")
    # R4.3
    nonhex = ("nonhex", (("whole", p),))
    need = [("not", nonhex)]
    for k, o in enumerate(rets):
        pcs = list(o.state.pc)
        has_hex = ("not", nonhex) in pcs
        has_even = any(g[0] == "not" and isinstance(g[1], tuple) and g[1][0] == "odd" for g in pcs)
        rep.check(has_hex and has_even, "R4.3", f"return-guard path {k}", where,
                  f"a normal return exists whose guard does not include 'parameter is valid even-length hex': {T.show(conj(pcs))[:300]}",
                  "return guarded by not-nonhex(param) and not-odd(len(param))")
    saw_nonhex = saw_odd = False
    for k, o in enumerate(raises):
        from ..interp import exc_is_subclass
        pcs = list(o.state.pc)
        sub = exc_is_subclass(o.exc_name, "ValueError")
        if nonhex in pcs:
            saw_nonhex = saw_nonhex or sub
        if any(g[0] == "odd" for g in pcs):
            saw_odd = saw_odd or sub
        rep.check(sub, "R4.3", f"raise path {k} ({o.exc_name})", where,
                  f"exception {o.exc_name} escaping the signer is not a ValueError: guard {T.show(conj(pcs))[:200]}")
    rep.check(saw_nonhex, "R4.3", "non-hex input raises", where, "no raising path for non-hex input")
    rep.check(saw_odd, "R4.3", "odd-length input raises", where, "no raising path for odd-length input")
