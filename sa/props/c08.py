"""C08 - state replies are decoded into exactly what the device reported."""
from __future__ import annotations

import json
import os
from typing import Any, Dict, List, Optional, Set, Tuple

from .. import bridge_model as B
from .. import layout_spec as LS
from .. import terms as T
from ..interp import Ctx, HeapObj, Interp, Outcome, conj, ite
from ..model import AnalysisError, Program, loc
from ..report import Report, VERIF
from ..terms import c
from .c05 import canon, helper_forms, joined_value
from .c05 import load_spec as load_bspec

LEVEL = "translation_validation"
R = ("sym", "response", "bytes")
MSGS = "aioswitcher.api.messages"


def load_spec() -> Dict[str, Any]:
    with open(os.path.join(VERIF, "spec", "reply_layout.json")) as fh:
        return json.load(fh)


def parser_obj(I: Interp, st: Any, prog: Program) -> T.Term:
    """A StateMessageParser as its own __post_init__ leaves it (checked: _hex_response = hexlify(response))."""
    ci = prog.cls(f"{MSGS}:StateMessageParser")
    outs = I.construct(ci, [R], {}, st, Ctx(None, ci.module, 0), ci.node)
    rets = [o for o in outs if o.kind == "return"]
    if len(rets) != 1:
        raise AnalysisError("StateMessageParser construction has several outcomes")
    return rets[0].value


def getter_term(prog: Program, name: str) -> Tuple[Optional[T.Term], Optional[Any], List[Outcome]]:
    ci = prog.cls(f"{MSGS}:StateMessageParser")
    fi = ci.find_method(name)
    if fi is None:
        return None, None, []
    I = Interp(prog)
    st = I.new_state()
    st.minlen[R] = 400
    obj = parser_obj(I, st, prog)
    outs = I.run(fi, {fi.params[0]: obj}, st)
    return joined_value(outs), fi, outs


def shift_ranges(v: Any, src_from: T.Term, src_to: T.Term, shift: int) -> Any:
    """Rewrite nibble ranges of src_from into src_to shifted by `shift` nibbles."""
    if isinstance(v, tuple):
        if len(v) == 4 and v[0] in ("hx", "HX") and v[1] == src_from and isinstance(v[2], int):
            return (v[0], src_to, v[2] + shift, None if v[3] is None else v[3] + shift)
        return tuple(shift_ranges(x, src_from, src_to, shift) for x in v)
    if isinstance(v, T.Lin):
        return T.Lin({shift_ranges(t, src_from, src_to, shift): k for t, k in v.coef.items()}, v.const)
    return v


from .c05 import _sum_arity, reads_of as _reads  # noqa: E402


def run(prog: Program, rep: Report, tier: str) -> None:
    rep.rule("R8.1", "extraction normal form of every StateMessageParser getter and of the login session equals spec/reply_layout.json", 15)
    rep.rule("R8.2", "response dataclasses: field f is assigned the getter of role f (time_left<-get_time_left, electric_current<-watts_to_amps(power), ...)", 15)
    rep.rule("R8.3", "sibling consistency: a field present in both the broadcast and the reply is read the same way, a constant 58 (type 1) / 59 (type 2) bytes apart", 13)
    rep.rule("R5.6", "helper normal forms shared with C05 (seconds_to_iso_time, watts_to_amps)", 2)
    rep.trusted += ["bytes.decode, datetime.time.isoformat, round (library behaviour)", "spec/reply_layout.json (provenance in its _doc)"]
    rep.assumptions += ["well-formed replies: long enough for every fixed-offset slice (truncated/garbage replies are C09's subject)"]
    spec = load_spec()
    derived: Dict[str, T.Term] = {}
    funcs: Set[str] = set()
    for g, entry in spec["getters"].items():
        v, fi, outs = getter_term(prog, g)
        if fi is None:
            rep.undecided("R8.1", g, "-", f"anchor vanished: StateMessageParser.{g}")
            continue
        where = f"{loc(fi, fi.node)} {fi.qualname}"
        if v is None or T.contains_top(v):
            rep.undecided("R8.1", g, where, f"extraction not understood: {T.contains_top(v) if v else 'no return'}")
            continue
        derived[g] = v
        want = LS.term_of(prog, entry, R)
        rep.check_term(canon(v) == canon(want), v, "R8.1", g, where, f"{g} extracts {T.show(v)[:260]}; the reference layout says {T.show(want)[:260]}", key=f"R8.1|{g}")
    # login session
    lci = prog.cls(f"{MSGS}:SwitcherLoginResponse")
    I = Interp(prog)
    st = I.new_state()
    st.minlen[R] = 400
    outs = I.construct(lci, [R], {}, st, Ctx(None, lci.module, 0), lci.node)
    rets = [o for o in outs if o.kind == "return"]
    lwhere = f"{loc(lci, lci.node)} SwitcherLoginResponse"
    want = LS.term_of(prog, spec["login"]["session_id"], R)
    got = [o.state.heap[o.value[1]].fields.get("session_id") for o in rets]
    rep.check(len(rets) >= 1 and all(g_ is not None and canon(g_) == canon(want) for g_ in got), "R8.1", "login session_id", lwhere,
              f"session id is {[T.show(g_)[:120] if g_ else None for g_ in got]}; expected hex(reply[8:12])", key="R8.1|session_id")
    rep.sample({"reply_getter_terms": {g: T.show(v)[:160] for g, v in list(derived.items())[:8]}})
    # R8.2 wiring
    for clsname, roles in spec["responses"].items():
        ci = prog.cls(f"{MSGS}:{clsname}")
        where = f"{loc(ci, ci.node)} {clsname}"
        I = Interp(prog)
        st = I.new_state()
        st.minlen[R] = 400
        outs = I.construct(ci, [R], {}, st, Ctx(None, ci.module, 0), ci.node)
        funcs |= set(I.functions_visited)
        rets = [o for o in outs if o.kind == "return"]
        if not rets:
            rep.bad("R8.2", clsname, where, "response object is never constructed", key=f"R8.2|{clsname}|noreturn")
            continue
        for fname, role in roles.items():
            if role.startswith("amps:"):
                wantv: T.Term = ("app", "round", ("app", "truediv", LS.term_of(prog, spec["getters"][role[5:]], R), c(220.0)), c(1))
            else:
                wantv = LS.term_of(prog, spec["getters"][role], R)
            bad = None
            for o in rets:
                gotv = o.state.heap[o.value[1]].fields.get(fname)
                if gotv is None:
                    bad = f"{clsname}.{fname} is never assigned"
                elif T.contains_top(gotv) or (T.imprecise(gotv) and canon(gotv) != canon(restrict(wantv, o.state.pc)) and canon(gotv) != canon(wantv)):
                    bad = "UNDECIDED"
                elif canon(gotv) != canon(restrict(wantv, o.state.pc)) and canon(gotv) != canon(wantv):
                    bad = f"{clsname}.{fname} is {T.show(gotv)[:200]}; expected role {role}: {T.show(wantv)[:200]}"
            if bad == "UNDECIDED":
                rep.undecided("R8.2", f"{clsname}.{fname}", where, "value not understood")
            else:
                rep.check(bad is None, "R8.2", f"{clsname}.{fname}", where, bad or "", key=f"R8.2|{clsname}|{fname}")
        # unparsed_response must be the reply itself
        for o in rets[:1]:
            rep.check(o.state.heap[o.value[1]].fields.get("unparsed_response") == R, "R8.2", f"{clsname}.unparsed_response", where, "unparsed_response is not the reply", key=f"R8.2|{clsname}|unparsed")
    # R8.3 siblings
    bspec = load_bspec()
    from .c05 import run_getter
    for fam, d in spec["siblings"].items():
        for bg, rg in d["pairs"]:
            outs_b, bfi = run_getter(prog, "aioswitcher.bridge:DatagramParser", bg, "message", B.MSG, 159)
            vb = joined_value(outs_b) if outs_b else None
            vr = derived.get(rg)
            where = f"{loc(bfi, bfi.node)} {bfi.qualname}" if bfi else "-"
            if vb is None or vr is None or T.contains_top(vb):
                rep.undecided("R8.3", f"{fam}: {bg} ~ {rg}", where, "one of the sibling getters is missing or not understood")
                continue
            bentry = bspec["getters"].get(bg, {})
            if any(canon(vb) == canon(LS.term_of(prog, a, B.MSG)) for a in bentry.get("accept", [])):
                vb = LS.term_of(prog, bentry, B.MSG)  # accepted equivalent form -> its reference meaning
            shifted = shift_ranges(vb, B.MSG, R, -2 * d["shift_bytes"])
            same = canon(core(shifted)) == canon(core(vr))
            if not same and len(_reads(core(shifted))) > 1 and _sum_arity(core(shifted)) >= 2 and _sum_arity(core(vr)) < _sum_arity(core(shifted)):
                # the broadcast getter combines several reads by arithmetic of its own (another decoding of the field than
                # the forms the specification lists): whether it means the same number is not something this rule compares
                rep.undecided("R8.3", f"{fam}: {bg} ~ {rg}", where, f"broadcast getter {bg} decodes the field in a form this rule does not compare ({T.show(core(shifted))[:160]})")
                continue
            rep.check_term(same, (shifted, vr), "R8.3", f"{fam}: {bg} ~ {rg}", where,
                      f"broadcast getter {bg} shifted by {d['shift_bytes']} bytes is {T.show(core(shifted))[:200]} but the reply getter {rg} is {T.show(core(vr))[:200]}: the two parsers disagree on offset, width or byte order",
                      key=f"R8.3|{fam}|{bg}")
    helper_forms(prog, rep)
    rep.analysed["functions"] = sorted(funcs)
    rep.extra["programs"] = len(derived) + len(spec["responses"]) + 1


from ..frames import restrict  # noqa: E402  (shared: resolves ite/alt/lookup by the path's guards)


def core(v: Any) -> Any:
    """The wire-reading core of an extraction term: for sibling comparison the default/strip
    conventions (which legitimately differ between the two parsers) are ignored."""
    if isinstance(v, tuple):
        if len(v) == 4 and v[0] == "ite":
            # table lookup with default -> the lookup; flag -> its key comparison's data
            for br in (v[2], v[3]):
                if isinstance(br, tuple) and br and br[0] == "lookup":
                    return core(br)
            return ("enum-of", core(_cmp_data(v[1])))
        if v and v[0] == "lookup":
            return ("enum-of", core(v[2]))
        if v and v[0] == "app" and v[1] == "rstrip":
            return core(v[2])
        if v and v[0] == "seq" and len(v[2]) == 1 and v[2][0][0] == "txt" and isinstance(v[2][0][1], tuple) and v[2][0][1][:2] == ("app", "rstrip"):
            return core(v[2][0][1][2])
        return tuple(core(x) for x in v)
    return v


def _cmp_data(cond: Any) -> Any:
    if isinstance(cond, tuple) and cond and cond[0] == "cmp":
        a, b = cond[2], cond[3]
        return a if T.is_seq(a) and any(x[0] in ("hx", "HX") for x in a[2]) else b
    return cond
