"""C18 - the TCP client is connected exactly between connect and disconnect (structural clauses)."""
from __future__ import annotations

import ast
from typing import Any, Dict, List, Optional, Set, Tuple

from .. import api_model as A
from .. import terms as T
from ..interp import Outcome, conj
from ..model import AnalysisError, Program, loc
from ..report import Report
from ..terms import c

LEVEL = "other"
API = "aioswitcher.api"


def run_method(prog: Program, clsname: str, name: str, connected: bool, extra: Optional[Dict[str, T.Term]] = None) -> Tuple[Any, List[Outcome], Any]:
    ci = prog.cls(f"{API}:{clsname}")
    fi = ci.find_method(name)
    if fi is None:
        raise AnalysisError(f"anchor vanished: {clsname}.{name}")
    I = A.make_interp(prog)
    st = I.new_state()
    selfv = A.api_self(I, st, ci, connected=connected)
    args: Dict[str, T.Term] = {fi.params[0]: selfv}
    for p in fi.params[1:]:
        args[p] = (extra or {}).get(p, ("sym", p, "any"))
    return I, I.run(fi, args, st), fi


def property_returns_field(prog: Program, ci: Any, prop: Any, field: str) -> Optional[bool]:
    """Does the property getter return the value of self.<field> on every path, with no effect and no raise?
    Decided by interpreting the getter on an object whose field holds a symbolic boolean (not by its text)."""
    from ..interp import HeapObj, Interp

    I = Interp(prog)
    st = I.new_state()
    flag = ("sym", f"flag:{field}", "bool")
    ci.require_attrs([field], "flag read by the property")
    selfv = st.alloc(HeapObj("obj", ci, {field: flag}, [], False, "self", False))
    outs = I.run(prop, {prop.params[0]: selfv}, st)
    if not outs:
        return None
    for o in outs:
        if o.kind != "return":
            return False
        if [e for e in o.state.events if e.kind in ("call", "store", "storeitem", "global") and not e.target.startswith("logger.")]:
            return False
        v = o.value
        if v == flag or v == ("truthy", flag):
            continue
        # `True if self._flag else False` and the like: the value is the constant matching the guard on this path
        pcs = [g for g in o.state.pc]
        if v == c(True) and (("truthy", flag) in pcs or flag in pcs):
            continue
        if v == c(False) and (("not", ("truthy", flag)) in pcs or ("not", flag) in pcs):
            continue
        return False
    return True


def sig_events(o: Outcome) -> List[Tuple[str, str, Tuple[str, ...]]]:
    return [(e.kind, e.target, tuple(T.show(a)[:60] for a in e.args)) for e in o.state.events if e.kind in ("call", "store") and not e.target.startswith("logger.")]


def run(prog: Program, rep: Report, tier: str) -> None:
    rep.rule("R18.1", "flag writers: _connected is stored only in __init__ (False), connect (True, after the awaited open_connection succeeded and both streams were stored, never on a raising exit) and disconnect (False on every normal exit)", 6)
    rep.rule("R18.2", "disconnect closes: when a writer exists writer.close() then await writer.wait_closed() precede the flag store; before any connect nothing is dereferenced", 2)
    rep.rule("R18.3", "context manager: __aenter__ awaits connect and returns self; __aexit__ awaits disconnect whatever exception is passed and returns a falsy value", 2)
    rep.rule("R18.4", "reconnectable: connect behaves the same on a fresh and on a previously connected instance (no early return, both stream attributes overwritten)", 1)
    rep.explanation = (
        "Decides structural necessary conditions on every path of connect/disconnect/__aenter__/__aexit__: who writes the connected flag and where, close-then-wait before the flag is cleared, "
        "safety of disconnect before connect, unconditional disconnect on context exit, no dependence of connect on earlier state. "
        "NOT decided: that StreamWriter.close() makes the peer see EOF, that a second close() is harmless, that wait_closed() returns (asyncio, trusted). "
        "Note (informational): if wait_closed() raises, _connected stays True; the property does not quantify over a failing disconnect."
    )
    rep.trusted += ["asyncio.open_connection raises OSError on refusal before returning streams; StreamWriter.close()/wait_closed() semantics"]
    funcs: Set[str] = set()
    # ---- connect (fresh and previously connected)
    I, c_fresh, cfi = run_method(prog, "SwitcherType1Api", "connect", False)
    funcs |= set(I.functions_visited)
    I, c_again, _ = run_method(prog, "SwitcherType1Api", "connect", True)
    cwhere = f"{loc(cfi, cfi.node)} {cfi.qualname}"
    bad = None
    for o in c_fresh:
        ev = sig_events(o)
        flags = [e for e in o.state.events if e.kind == "store" and e.target == "self._connected"]
        opens = [e for e in o.state.events if e.kind == "call" and e.target == "asyncio.open_connection"]
        if o.kind == "raise":
            if flags and flags[-1].args == (c(True),):
                bad = f"connect raises {o.exc_name} with the flag already True (a refused connection would leave the client 'connected')"
            continue
        if len(opens) != 1 or not opens[0].awaited:
            bad = "connect does not await exactly one asyncio.open_connection"
            continue
        r, w = opens[0].result[1]
        stores = {e.target: e.args[0] for e in o.state.events if e.kind == "store"}
        order = [e.target for e in o.state.events if e.kind in ("store", "call") and not e.target.startswith("logger.")]
        if stores.get("self._reader") != r or stores.get("self._writer") != w:
            bad = "the streams returned by open_connection are not stored as self._reader / self._writer"
        elif flags != [flags[-1]] or flags[-1].args != (c(True),) or order.index("self._connected") < max(order.index("self._reader"), order.index("self._writer"), order.index("asyncio.open_connection")):
            bad = "the flag is not set to True exactly once after the connection was opened and both streams stored"
        kw = dict(opens[0].kwargs)
        if kw.get("host") != ("sym", "ip_address", "str") or kw.get("port") != ("sym", "port", "int"):
            bad = f"connection is opened to host={T.show(kw.get('host'))} port={T.show(kw.get('port'))}, not to the configured address"
    rep.check(bad is None and any(o.kind == "return" for o in c_fresh), "R18.1", "connect", cwhere, bad or "connect never returns", key="R18.1|connect")
    rep.check(any(o.kind == "raise" and o.exc_name == "OSError" for o in c_fresh), "R18.1", "refused connection raises", cwhere, "no raising path for a refused connection (is the OSError swallowed?)", key="R18.1|refused")
    same = sorted(map(lambda o: (o.kind, o.exc_name, tuple(sig_events(o))), c_fresh)) == sorted(map(lambda o: (o.kind, o.exc_name, tuple(sig_events(o))), c_again))
    rep.check(same, "R18.4", "connect independent of earlier state", cwhere, "connect behaves differently on an already-connected instance (early return or reuse of the old writer): the client cannot reconnect", key="R18.4|reconnect")
    # ---- disconnect
    I, d_conn, dfi = run_method(prog, "SwitcherType1Api", "disconnect", True)
    funcs |= set(I.functions_visited)
    I, d_fresh, _ = run_method(prog, "SwitcherType1Api", "disconnect", False)
    dwhere = f"{loc(dfi, dfi.node)} {dfi.qualname}"
    bad2 = None
    for o in d_conn:
        if o.kind != "return":
            bad2 = f"disconnect raises {o.exc_name} by itself"
            continue
        order = [(e.kind, e.target, e.awaited, e.args) for e in o.state.events if e.kind in ("store", "call") and not e.target.startswith("logger.")]
        names = [x[1] for x in order]
        if names != ["writer.close", "writer.wait_closed", "self._connected"]:
            bad2 = f"with an open writer disconnect performs {names}; expected writer.close(), await writer.wait_closed(), then _connected = False"
        elif not order[1][2] or order[2][3] != (c(False),):
            bad2 = "wait_closed() is not awaited or the flag is not cleared to False"
    rep.check(bad2 is None and bool(d_conn), "R18.2", "disconnect with a writer", dwhere, bad2 or "", key="R18.2|close")
    bad3 = None
    for o in d_fresh:
        if o.kind != "return":
            bad3 = f"disconnect before connect raises {o.exc_name}"
            continue
        names = [e.target for e in o.state.events if e.kind in ("store", "call", "readattr") and not e.target.startswith("logger.")]
        if names != ["self._connected"]:
            bad3 = f"disconnect before connect performs {names}; it must only clear the flag"
    rep.check(bad3 is None and bool(d_fresh), "R18.2", "disconnect before connect", dwhere, bad3 or "", key="R18.2|before-connect")
    for os_, nm in ((d_conn, "connected"), (d_fresh, "never connected")):
        okf = all(any(e.kind == "store" and e.target == "self._connected" and e.args == (c(False),) for e in o.state.events) for o in os_ if o.kind == "return")
        rep.check(okf, "R18.1", f"disconnect clears the flag ({nm})", dwhere, "a normal exit of disconnect leaves the flag unchanged", key=f"R18.1|disconnect|{nm}")
    # ---- writers sweep
    allowed = {f"{API}:SwitcherApi.__init__": False, f"{API}:SwitcherApi.connect": True, f"{API}:SwitcherApi.disconnect": False}
    found: Dict[str, List[Any]] = {}
    for m in prog.all_modules(True):
        for f in m.all_functions():
            for node in ast.walk(f.node):
                tg: List[ast.AST] = []
                if isinstance(node, ast.Assign):
                    tg = list(node.targets)
                elif isinstance(node, (ast.AugAssign, ast.AnnAssign)):
                    tg = [node.target]
                for t in tg:
                    for sub in ast.walk(t):
                        if isinstance(sub, ast.Attribute) and sub.attr == "_connected":
                            found.setdefault(f.key, []).append(getattr(node, "value", None))
    for k, vals in found.items():
        ok = k in allowed and all(isinstance(v, ast.Constant) and v.value is allowed[k] for v in vals)
        rep.check(ok, "R18.1", f"writer {k.split(':')[1]}", k, f"{k} stores _connected = {[ast.unparse(v) if v is not None else None for v in vals]}: only __init__(False), connect(True), disconnect(False) may write the flag (no operation or error path)", key=f"R18.1|writer|{k}")
    for k in allowed:
        if k not in found:
            rep.bad("R18.1", f"writer {k.split(':')[1]}", k, "expected store of _connected is missing", key=f"R18.1|missing|{k}")
    ci = prog.cls(f"{API}:SwitcherApi")
    prop = ci.properties.get("connected")
    if prop is not None:
        okp = property_returns_field(prog, ci, prop, "_connected")
        rep.check(okp, "R18.1", "connected reads the flag", f"{loc(prop, prop.node)} connected", "the connected property does not return the flag", key="R18.1|property")
    else:
        rep.undecided("R18.1", "connected property", "-", "anchor vanished")
    # ---- context manager (both API classes inherit it)
    for clsname in ("SwitcherType1Api", "SwitcherType2Api"):
        I, e_outs, efi = run_method(prog, clsname, "__aenter__", False)
        I, c_outs, _ = run_method(prog, clsname, "connect", False)
        ewhere = f"{loc(efi, efi.node)} {clsname}.__aenter__"
        sg = lambda os_: sorted((o.kind, o.exc_name, tuple(sig_events(o))) for o in os_)  # noqa: E731
        ok = sg(e_outs) == sg(c_outs) and all(o.value[0] == "obj" and o.state.heap[o.value[1]].name == "self" for o in e_outs if o.kind == "return")
        rep.check(ok, "R18.3", f"{clsname}.__aenter__", ewhere, "__aenter__ does not (only) await connect() and return self", key=f"R18.3|aenter|{clsname}")
        for conn in (True, False):
            I, x_outs, xfi = run_method(prog, clsname, "__aexit__", conn)
            I, dd, _ = run_method(prog, clsname, "disconnect", conn)
            ok2 = sg(x_outs) == sg(dd) and all(o.kind == "return" and T.is_c(o.value) and not o.value[1] for o in x_outs)
            rep.check(ok2, "R18.3", f"{clsname}.__aexit__ ({'connected' if conn else 'not connected'})", f"{loc(xfi, xfi.node)} {clsname}.__aexit__",
                      "__aexit__ does not unconditionally await disconnect() and return a falsy value: an exception in the body may skip the disconnect or be swallowed", key=f"R18.3|aexit|{clsname}")
    rep.analysed["functions"] = sorted(funcs)
    rep.sample({"connect_paths": [(o.kind, o.exc_name, [f"{k}:{t}" for k, t, _ in sig_events(o)]) for o in c_fresh], "disconnect_paths": [[f"{k}:{t}" for k, t, _ in sig_events(o)] for o in d_conn + d_fresh]})
