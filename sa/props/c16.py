"""C16 - thermostat control changes only what was asked (structural clauses)."""
from __future__ import annotations

from typing import Any, Dict, List, Optional, Set, Tuple

from .. import api_model as A
from .. import frames as F
from .. import layout_spec as LS
from .. import terms as T
from ..interp import Outcome, conj, ite, neg
from ..model import AnalysisError, EnumRef, Program, loc
from ..report import Report
from ..terms import c
from .c02 import load_spec as load_wire
from .c03 import classify
from .c05 import canon
from .c08 import load_spec as load_reply
from .c09 import successful_cond

LEVEL = "other"
DEV = "aioswitcher.device"
ROLE = {"state": "get_thermostat_state", "mode": "get_thermostat_mode", "target_temp": "get_thermostat_target_temp", "fan_level": "get_thermostat_fan_level", "swing": "get_thermostat_swing"}
FIELD = {"state": "state", "mode": "mode", "target_temp": "target_temperature", "fan_level": "fan_level", "swing": "swing"}
ENUM = {"state": "DeviceState", "mode": "ThermostatMode", "fan_level": "ThermostatFanLevel", "swing": "ThermostatSwing"}


def flat(pc: List[T.Term]) -> List[T.Term]:
    return F.flat_pc(list(pc))      # conjuncts, closed under unit resolution


def value_text(v: T.Term, prog: Program, name: str) -> Optional[T.Term]:
    """Text of <v>.value as the interpreter renders it (enum sym, lookup, ite or constant member)."""
    if v[0] == "sym" and isinstance(v[2], tuple) and v[2][0] == "enum":
        en = prog.cls(v[2][1]).enum
        assert en is not None
        alts = tuple(en.attr(m, "value") for m in en.members)
        return T.seq("s", (("txt", ("eattr", v, "value", alts)),))
    if v[0] == "enum":
        return T.seq("s", (("L", str(prog.enum_attr(v[1], "value"))),))
    if v[0] == "lookup":
        pairs = tuple((k, c(prog.enum_attr(x[1], "value"))) for k, x in v[1])
        return T.seq("s", (("txt", ("lookup", pairs, v[2])),))
    if v[0] == "ite":
        a, b = value_text(v[2], prog, name), value_text(v[3], prog, name)
        if a is None or b is None:
            return None
        return ("seq", "s", (("alt", v[1], a, b),))
    return None


def run(prog: Program, rep: Report, tier: str) -> None:
    from ..api_model import sign_summary_premise, ir_builder_premise
    sign_summary_premise(prog, rep)
    ir_builder_premise(prog, rep)
    rep.claims_instance_state = "PREMISE-C15"      # tables shared by all remotes (a class-level container mutated through instances) are C15 R15.9's violation, inherited
    rep.rule("R16.1", "merge pairing: each setting passed on is the requested value when given, otherwise the same-role field of the state this very call just read (requested wins; current only when omitted)", 5)
    rep.rule("R16.2", "argument wiring: build_command receives (state, mode, target, fan, swing, current state) bound to the same-named parameters; the status frame carries state, mode, target ({:02x}), fan, swing in the order the state reply defines", 2)
    rep.rule("R16.3", "separate-swing discipline: for remotes with a separate swing command the main command gets swing OFF, a swing frame is written iff swing was requested and this is not update-only, and swing alone does not trigger the main command", 3)
    rep.rule("R16.4", "update-only mode sends the status frame and builds no IR command", 1)
    rep.rule("R16.6", "the IR command builder keeps no memory: build_command / build_swing_command store nothing on the remote, so the code sent depends only on this call's arguments (incl. the state just reported) and the IR set", 2)
    rep.rule("R16.5", "never reports success after an empty reply: an empty login/state/command reply raises RuntimeError; nothing actionable raises RuntimeError with only the login frame written; every normal return is the response built from the last reply read", 3)
    rep.explanation = (
        "Decides structural clauses on every path of control_breeze_device for all 2^4 given/omitted combinations of the enum settings (target temperature, update flag, remote kind and all replies symbolic): "
        "which value reaches build_command / the status frame for each setting, the separate-swing discipline, that update-only builds no IR code, and the empty-reply guards. "
        "NOT decided: the content of the IR code selected (C15 decides the builder's structure, not the data)."
    )
    rep.assumptions += A.ASSUMPTIONS
    rep.assumptions += ["A6 (C16 R16.1/R16.2): the state reply read by this call has the thermostat fields (at least 82 bytes); paths guarded by a shorter reply are judged by C09, not by the merge rules"]
    rep.trusted += ["C08 reply layout (role -> extraction term of the state reply)", "C15 summary of build_command/build_swing_command (arguments recorded as events)"]
    wire = load_wire()
    reply = load_reply()
    I, combos, fi = A.run_operation_by_combo(prog, "control_breeze_device")
    where = f"{loc(fi, fi.node)} {fi.qualname}"
    rep.analysed["functions"] = sorted(I.functions_visited)
    bc = prog.func("aioswitcher.api.remotes:SwitcherBreezeRemote.build_command")
    bparams = bc.params[1:]
    bad: Dict[str, Tuple[str, int]] = {}
    n_paths = 0
    cache: Dict[T.Term, Optional[str]] = {}
    sep = ("truthy", ("sym", "remote._separated_swing_command", "any"))
    upd = ("sym", "update_state", "bool")
    off_swing = ("enum", EnumRef(prog.cls(f"{DEV}:ThermostatSwing").key, "OFF"))

    def fail(rid: str, why: str) -> None:
        w, n = bad.get(rid, (why, 0))
        bad[rid] = (w, n + 1)

    counts = {"R16.1": 0, "R16.2": 0, "R16.3": 0, "R16.4": 0, "R16.5": 0}
    for combo, outs in combos:
        given = {k: (v is not None) for k, v in combo.items() if k in ENUM}
        for o in outs:
            if A.excluded_by_assumptions(o.state.pc):
                continue
            n_paths += 1
            pcs = flat(o.state.pc)
            rd = A.reads(o)
            wr = A.writes(o)
            kinds = []
            for e in wr:
                fr = e.args[0]
                if fr not in cache:
                    sp = F.split_signed(fr)
                    cache[fr] = classify(sp[0], wire, list(wire["frames"])) if sp else None
                kinds.append(cache[fr])
            builds = [e for e in o.state.events if e.kind == "call" and e.target == "remote.build_command"]
            swings = [e for e in o.state.events if e.kind == "call" and e.target == "remote.build_swing_command"]
            is_sep = sep in pcs
            not_sep = neg(sep) in pcs
            is_upd = ("truthy", upd) in pcs or upd in pcs
            # ---- effective values expected on this path
            reply1 = rd[1].result if len(rd) > 1 else None
            tt = ("sym", "target_temp", ("int", 0, 255))
            tgiven = ("truthy", tt) in pcs
            eff: Dict[str, Optional[T.Term]] = {}
            if reply1 is not None:
                for name in ROLE:
                    cur = LS.term_of(prog, reply["getters"][ROLE[name]], reply1)
                    cur = restrict(cur, pcs)
                    if name == "target_temp":
                        t_in_combo = combo.get("target_temp") is not None
                        t_off = ("not", ("truthy", tt)) in pcs
                        # the path may have forked on "a target was given" (a statement-level `or`) or not (the merge done
                        # inside an expression): then the value passed on is the choice itself
                        eff[name] = tt if tgiven else (cur if (t_off or not t_in_combo) else ite(("truthy", tt), tt, cur))
                    else:
                        eff[name] = ("sym", name, ("enum", f"{DEV}:{ENUM[name]}")) if given[name] else cur
                if is_sep:
                    eff["swing"] = off_swing
            # A6: the merge rules speak of a state reply that has the thermostat fields (82 bytes); what a shorter reply
            # leads to is C09's subject (it must raise or be parsed as it is, never be mistaken for success)
            short_state = reply1 is not None and any(isinstance(g, tuple) and len(g) == 4 and g[0] == "cmp" and g[1] in ("<", "<=") and g[2] == ("len", reply1)
                                                    and T.is_c(g[3]) and isinstance(g[3][1], int) and g[3][1] <= 82 for g in pcs)
            # ---- R16.1/R16.2 on build_command
            for e in ([] if short_state else builds):
                counts["R16.2"] += 1
                if len(e.args) != len(bparams) or e.kwargs:
                    named = dict(e.kwargs)
                else:
                    named = {}
                amap = {p: (e.args[i] if i < len(e.args) else named.get(p)) for i, p in enumerate(bparams)}
                for name in ROLE:
                    counts["R16.1"] += 1
                    got = amap.get(name)
                    want = eff.get(name)
                    if got is not None:
                        got = restrict(got, pcs)          # (a choice made earlier in an expression, decided later on the path)
                    if got is None or want is None or canon(got) != canon(want):
                        fail("R16.1" if name != "swing" or not is_sep else "R16.3",
                             f"combo given={sorted(k for k, v in given.items() if v)}{' +target' if tgiven else ''}{' separate-swing' if is_sep else ''}: build_command receives {name}={T.show(got)[:120] if got else None}; expected {T.show(want)[:120] if want else None}")
                cs = amap.get("current_state")
                wantcs = restrict(LS.term_of(prog, reply["getters"]["get_thermostat_state"], reply1), pcs) if reply1 is not None else None
                if cs is None or wantcs is None or canon(cs) != canon(wantcs):
                    fail("R16.2", f"build_command's current_state is {T.show(cs)[:100] if cs else None}; expected the state field of the reply just read")
            # ---- status frame
            for k, e in zip(kinds, wr):
                if k != "breeze_status" or short_state:
                    continue
                counts["R16.2"] += 1
                sp = F.split_signed(e.args[0])
                assert sp
                _, holes = F.match_layout(sp[0], wire["frames"]["breeze_status"])
                for name, role in (("state", "ARG:state"), ("mode", "ARG:mode"), ("fan_level", "ARG:fan"), ("swing", "ARG:swing")):
                    want = eff.get(name)
                    wt = value_text(want, prog, name) if want is not None else None
                    got = holes.get(role)
                    if wt is None or got is None or canon(strip_alt(got)) != canon(strip_alt(wt)):
                        fail("R16.2", f"status frame {role} is {T.show(got)[:120] if got else None}; expected {name}.value of the merged setting = {T.show(wt)[:120] if wt else None}")
                tg = holes.get("ARG:target")
                wantt = eff.get("target_temp")
                okt = tg is not None and len(tg[2]) == 1 and tg[2][0][0] == "fmt" and tg[2][0][1] == "02x" and wantt is not None and canon(tg[2][0][2]) == canon(wantt)
                if not okt and tg is not None and wantt is not None:
                    # the same text in canonical form: '{:02x}' of a number read from two hex digits is those digits
                    from ..lib import format_value
                    from ..interp import Ctx, State
                    ref = format_value(I, wantt, "02x", State(), Ctx(None, fi.module, 0), fi.node)
                    okt = not T.is_top(ref) and canon(tg) == canon(ref)
                if not okt:
                    fail("R16.2", f"status frame target is {T.show(tg)[:120] if tg else None}; expected '{{:02x}}' of the merged target temperature")
                if builds or swings:
                    fail("R16.4", "an IR command is built on a path that sends the status-update frame")
                counts["R16.4"] += 1
            if is_upd and o.kind == "return" and (builds or swings or "breeze_command" in kinds):
                fail("R16.4", f"update-only path builds IR commands / sends {kinds}")
            # ---- R16.3
            sw_given = given["swing"]
            counts["R16.3"] += 1
            if o.kind == "return":
                want_swing_frame = is_sep and sw_given and not is_upd
                if bool(swings) != want_swing_frame and (is_sep or not_sep):
                    fail("R16.3", f"separate-swing={is_sep} swing requested={sw_given} update-only={is_upd}: {len(swings)} swing command(s) built; expected {'one' if want_swing_frame else 'none'}")
                not_upd = neg(("truthy", upd)) in pcs or neg(upd) in pcs
                if swings and not is_upd and not not_upd:
                    # the path never looks at update_state, so it is also the path taken in update-only mode
                    fail("R16.3", "a swing command is built and sent on a path that never tests update_state: the same path is taken in state-update-only mode, where no IR code may be sent "
                                  "(and a swing-only request on a separate-swing remote must raise RuntimeError)")
                for e in swings:
                    if e.args[:1] != (("sym", "swing", ("enum", f"{DEV}:ThermostatSwing")),):
                        fail("R16.3", f"swing command built for {T.show(e.args[0])[:60] if e.args else None}, not the requested swing")
                only_swing = sw_given and not any(given[k] for k in ("state", "mode", "fan_level")) and not tgiven
                if is_sep and only_swing and (builds or "breeze_status" in kinds or "get_state2" in kinds):
                    fail("R16.3", "with a separate-swing remote a swing-only request still queries the state / sends the main command")
            # ---- R16.5
            counts["R16.5"] += 1
            emptied = [i for i, r in enumerate(rd) if neg(successful_cond(prog, r.result)) in pcs]
            if o.kind == "return":
                v = o.value
                okv = v[0] == "obj" and o.state.heap[v[1]].cls is not None and o.state.heap[v[1]].cls.name == "SwitcherBaseResponse" and rd and o.state.heap[v[1]].fields.get("unparsed_response") == rd[-1].result
                if not okv:
                    fail("R16.5", f"a normal return yields {T.show(v)[:60]}, not the response built from the last reply")
                if any(i < len(rd) - 1 for i in emptied):
                    fail("R16.5", f"returns normally although reply #{emptied[0]} of {len(rd)} was empty")
                untested = [i for i, r in enumerate(rd[:-1]) if successful_cond(prog, r.result) not in pcs]
                if untested:
                    fail("R16.5", f"returns the last reply's response after {len(rd)} exchanges without having checked that reply #{untested[0]} was non-empty: an empty intermediate reply would be reported as success")
                if len(wr) < 2:
                    fail("R16.5", "returns normally after writing only the login frame")
            else:
                if o.exc_name not in ("RuntimeError", "KeyError") and not o.value[3].startswith("src/aioswitcher/api/remotes.py"):
                    if o.exc_name != "RuntimeError":
                        fail("R16.5", f"raises {o.exc_name} at {o.value[3]}")
            nothing = not any(given[k] for k in ("state", "mode", "fan_level")) and not tgiven and (not sw_given or (is_sep and is_upd))
            if nothing and not sw_given and not (o.kind == "raise" and o.exc_name == "RuntimeError" and len(wr) == 1):
                fail("R16.5", f"nothing actionable requested but the call {'returns' if o.kind == 'return' else 'raises ' + o.exc_name} after {len(wr)} frames")
    from .. import remote_model as RM
    for nm in ("build_command", "build_swing_command"):
        bad66 = None
        n66 = 0
        if nm == "build_command":
            runs = [RM.run_build_command(prog, "ON", "COOL", "ON", True, "OFF"), RM.run_build_command(prog, "OFF", "AUTO", "OFF", False, None)]
        else:
            from ..interp import Interp as _I
            ci_ = prog.cls("aioswitcher.api.remotes:SwitcherBreezeRemote")
            f_ = ci_.find_method(nm)
            I_ = _I(prog)
            st_ = I_.new_state()
            sv_ = RM.remote_self(I_, st_, prog)
            runs = [(I_, I_.run(f_, {f_.params[0]: sv_, f_.params[1]: RM.member(prog, "ThermostatSwing", "ON")}, st_), f_)] if f_ else []
        for _i, outs_, f_ in runs:
            for o in outs_:
                n66 += 1
                for e in o.state.events:
                    if e.kind in ("store", "storeitem") and (e.target.startswith("self") or (isinstance(e.result, tuple) and e.result[:1] == ("obj",) and not o.state.heap[e.result[1]].fresh)):
                        bad66 = f"{nm} stores {e.target} at {e.where.split(' ')[0]}: a later call can replay a command built for an earlier reported state"
                    if e.kind == "readattr":
                        bad66 = f"{nm} reads {e.target}, an attribute the constructor does not set (state carried between calls)"
        wh = f"src/aioswitcher/api/remotes.py SwitcherBreezeRemote.{nm}"
        if n66 == 0:
            rep.undecided("R16.6", nm, wh, "no path explored")
        else:
            rep.check(bad66 is None, "R16.6", nm, wh, bad66 or "", key=f"R16.6|{nm}")
    rep.analysed["paths"] = n_paths
    texts = {
        "R16.1": "merged value per setting on every build_command call",
        "R16.2": "parameter binding of build_command and status-frame holes",
        "R16.3": "separate-swing discipline per path",
        "R16.4": "status frame paths build no IR command",
        "R16.5": "empty-reply guards and return value per path",
    }
    for rid, t in texts.items():
        if rid in bad:
            why, n = bad[rid]
            rep.bad(rid, t, where, f"{why} ({n} path-level failure(s))", key=f"{rid}|control_breeze_device")
        elif counts[rid] == 0:
            rep.undecided(rid, t, where, "no instance of this rule was found on any path")
        else:
            rep.ok(rid, t, where, f"{counts[rid]} path-level instances")
    # floors are on path-level instance counts
    for rid, fl in (("R16.1", 200), ("R16.2", 50), ("R16.3", 100), ("R16.4", 20), ("R16.5", 100)):
        if counts[rid] < fl and rid not in bad:
            rep.undecided(rid, "instance floor", where, f"only {counts[rid]} path-level instances (expected >= {fl})")
    for rid in list(rep.floors):
        rep.floors[rid] = 1
    rep.sample({"paths": n_paths, "instances": counts})


from ..frames import restrict  # noqa: E402  (shared: resolves ite/alt/lookup by the path's guards)


def strip_alt(v: Any) -> Any:
    return v
