"""C12 - weekday sets and their one-byte mask are a bijection."""
from __future__ import annotations

from typing import Any, Dict, List, Set

from .. import frames as F
from .. import terms as T
from ..interp import Interp, conj
from ..model import AnalysisError, EnumRef, Program, loc
from ..report import Report
from ..terms import c

LEVEL = "proof"
SCHED = "aioswitcher.schedule"
TOOLS = "aioswitcher.schedule.tools"
DAY_NAMES = ["MONDAY", "TUESDAY", "WEDNESDAY", "THURSDAY", "FRIDAY", "SATURDAY", "SUNDAY"]
DAY_VALUES = ["Monday", "Tuesday", "Wednesday", "Thursday", "Friday", "Saturday", "Sunday"]


def table_equals_formula(prog: Program, v: T.Term, day: T.Term) -> bool:
    """A single day encoded through a table keyed by the Days members (built once from the enum) instead of the
    formula: equal iff the table has exactly the seven members and each entry is '{:02x}' of that member's bit."""
    inner = v
    if T.is_seq(v) and len(v[2]) == 1 and v[2][0][0] == "txt":
        inner = v[2][0][1]
    if not (isinstance(inner, tuple) and inner and inner[0] == "lookup" and inner[2] == day):
        return False
    den = prog.cls("aioswitcher.schedule:Days").enum
    assert den is not None
    seen = {}
    for k, val in inner[1]:
        if not (isinstance(k, tuple) and k[0] == "enum"):
            return False
        txt = None
        if T.is_c(val) and isinstance(val[1], str):
            txt = val[1]
        elif T.is_seq(val) and all(a[0] == "L" for a in val[2]):
            txt = "".join(a[1] for a in val[2])
        if txt is None:
            return False
        seen[k[1].member] = txt
    return set(seen) == set(den.members) and all(seen[m] == "{:02x}".format(den.attr(m, "bit_rep")) for m in den.members)


def run(prog: Program, rep: Report, tier: str) -> None:
    rep.rule("R12.1", "Days table: 7 members, weekday 0..6 (Monday first), hex_rep == bit_rep == 2**(weekday+1), all distinct, bit 0 unused", 7, structural=True)
    rep.rule("R12.2", "encoder normal form: empty -> ValueError; single day -> '{:02x}' of its bit; set, or sequence guarded by len == len(set) -> '{:02x}' of the sum of bit_rep; every other path raises ValueError", 6)
    rep.rule("R12.3", "decoder normal form: masks outside [2,254] raise ValueError; otherwise the result is exactly {d : d.hex_rep & mask != 0}", 100)
    rep.rule("R12.6", "structural: the collection argument of the encoder is never the bare right operand of %-formatting: `text % days` unpacks a tuple of days as the "
                      "format arguments, so a duplicate-free tuple of two or more days raises TypeError instead of being encoded", 1, structural=True)
    import ast as _ast
    for fkey_ in (f"{TOOLS}:weekdays_to_hexadecimal",):
        f_ = prog.func(fkey_)
        prm_ = set(f_.params[:1])
        hits_ = [n_ for n_ in _ast.walk(f_.node) if isinstance(n_, _ast.BinOp) and isinstance(n_.op, _ast.Mod)
                 and ((isinstance(n_.left, _ast.Constant) and isinstance(n_.left.value, str)) or isinstance(n_.left, _ast.JoinedStr)) and isinstance(n_.right, _ast.Name) and n_.right.id in prm_]
        rep.check(not hits_, "R12.6", f"{f_.qualname}: no bare %-formatting of an argument", f"{f_.module.relpath}:{(hits_[0].lineno if hits_ else f_.node.lineno)} {f_.qualname}",
                  f"`{_ast.unparse(hits_[0])[:80] if hits_ else ''}`: when the argument is a tuple its items become the format arguments - a valid tuple of several days raises TypeError (whatever the log level: the text is built eagerly)",
                  key=f"R12.6|{f_.qualname}")
    rep.rule("R12.5", "encoder and decoder are not memoised and return fresh values: no cache decorator, the decoder's result set is created inside the call (a shared mutable result would make a later decode of the same mask return whatever a caller did to the earlier result)", 2)
    rep.rule("R12.4", "lemma on the table: the bits are distinct powers of two in [2,128], so the sum over any subset has exactly its bits, lies in [2,254], fits two hex digits, and decoding returns the subset", 1, structural=True)
    rep.trusted += ["format spec '02x' = at least two zero-padded lower-case hex digits; & on ints; sum(); set semantics (CPython docs)"]
    days = prog.cls(f"{SCHED}:Days")
    if days.enum is None:
        raise AnalysisError("Days is no longer an enum")
    en = days.enum
    where = f"{loc(days, days.node)} Days"
    for a in ("bit_rep", "hex_rep", "weekday", "value"):
        if a not in en.attrs:
            raise AnalysisError(f"Days.{a} is no longer an attribute of the members")
        en.attr(next(iter(en.members)), a)      # (raises when the attribute cannot be established, by slot or by interpretation)
    rep.check(list(en.members) == DAY_NAMES, "R12.1", "members", where, f"Days members are {list(en.members)}", key="R12.1|members")
    for i, m in enumerate(en.members):
        b, h, w, v = en.attr(m, "bit_rep"), en.attr(m, "hex_rep"), en.attr(m, "weekday"), en.attr(m, "value")
        ok = isinstance(w, int) and b == h == 2 ** (w + 1) and (m not in DAY_NAMES or (w == DAY_NAMES.index(m) and v == DAY_VALUES[w]))
        rep.check(ok, "R12.1", f"{m}", where, f"{m}: bit_rep={b!r} hex_rep={h!r} weekday={w!r} value={v!r}; expected bit = 2**(weekday+1), Monday=0x02 .. Sunday=0x80", key=f"R12.1|{m}")
    bits = [en.attr(m, "bit_rep") for m in en.members]
    pow2 = all(isinstance(b, int) and 2 <= b <= 128 and b & (b - 1) == 0 for b in bits) and len(set(bits)) == len(bits)
    rep.check(pow2 and sorted(en.attr(m, "weekday") for m in en.members) == list(range(7)), "R12.4", "distinct powers of two", where,
              f"bit values {bits} are not distinct powers of two in [2,128] / weekdays not 0..6", "distinct powers of two => subset sums are unique, within [2,254], two hex digits, and x & sum != 0 exactly for members", key="R12.4|table")

    # ---- encoder
    fi = prog.func(f"{TOOLS}:weekdays_to_hexadecimal")
    wheree = f"{loc(fi, fi.node)} {fi.qualname}"
    dtype = ("enum", days.key)
    e = ("sym", "$e", dtype)
    alts = tuple(en.attr(m, "bit_rep") for m in en.members)
    forms = {
        "single day": ("sym", "days", dtype),
        "set": ("sym", "days", ("set", dtype)),
        "sequence": ("sym", "days", ("list", dtype)),
    }
    funcs: Set[str] = set()
    for fname, arg in forms.items():
        I = Interp(prog)
        st = I.new_state()
        outs = I.run(fi, {fi.params[0]: arg}, st)
        funcs |= set(I.functions_visited)
        rets = [o for o in outs if o.kind == "return"]
        raises = [o for o in outs if o.kind == "raise"]
        for o in raises:
            rep.check(o.exc_name == "ValueError", "R12.2", f"{fname}: rejection is ValueError", wheree, f"{fname} input can raise {o.exc_name} at {o.value[3]} when {T.show(conj(o.state.pc))[:160]}", key=f"R12.2|{fname}|exc")
        if fname == "single day":
            want = T.seq("s", (("fmt", "02x", ("eattr", arg, "bit_rep", alts)),))
            good = len(rets) == 1 and rets[0].value == want and not raises
            if not good and len(rets) == 1 and not raises:
                good = table_equals_formula(prog, rets[0].value, arg)
            rep.check(good, "R12.2", "single day", wheree, f"a single day encodes to {[T.show(o.value)[:120] for o in rets]} ({len(raises)} raising paths); expected '{{:02x}}'.format(day.bit_rep)", key="R12.2|single")
            continue
        want = T.seq("s", (("fmt", "02x", ("app", "int", ("app", "sum", ("map", ("eattr", e, "bit_rep", alts), arg)))),))
        want2 = T.seq("s", (("fmt", "02x", ("app", "sum", ("map", ("eattr", e, "bit_rep", alts), arg))),))
        for k, o in enumerate(rets):
            if T.contains_top(o.value):
                rep.undecided("R12.2", f"{fname} path {k}", wheree, f"not understood: {T.contains_top(o.value)}")
                continue
            rep.check(o.value in (want, want2), "R12.2", f"{fname}: mask value", wheree,
                      f"{fname} encodes to {T.show(o.value)[:200]}; expected '{{:02x}}'.format(sum of bit_rep) - exactly two zero-padded hex digits of the bit sum", key=f"R12.2|{fname}|value")
            pcs = F.flat_pc(list(o.state.pc))
            # the path is impossible for an empty collection: some conjunct of its guard is false then
            nonempty = any(F.guard_under(g, F.collection_facts(arg, True, None)) is False for g in pcs)
            rep.check(nonempty, "R12.2", f"{fname}: empty input rejected", wheree, f"{fname}: a mask is produced without testing that the collection is non-empty (guard {T.show(conj(pcs))[:160]})", key=f"R12.2|{fname}|empty")
            if fname == "sequence":
                # ... and impossible for a non-empty sequence that names a day twice
                dedup = any(F.guard_under(g, F.collection_facts(arg, False, True)) is False for g in pcs)
                rep.check(dedup, "R12.2", "sequence: duplicates rejected", wheree, f"a sequence is summed without the guard len(days) == len(set(days)): duplicates would add a bit twice (guard {T.show(conj(pcs))[:200]})", key="R12.2|sequence|dup")
        if not rets:
            rep.bad("R12.2", f"{fname}: accepted", wheree, f"no path accepts a non-empty {fname}", key=f"R12.2|{fname}|accept")
        # a raising path an empty collection can take (no conjunct false for it) and a non-empty duplicate-free one cannot
        empties = [o for o in raises if not any(F.guard_under(g, F.collection_facts(arg, True, None)) is False for g in F.flat_pc(list(o.state.pc)))
                   and any(F.guard_under(g, F.collection_facts(arg, False, False)) is False for g in F.flat_pc(list(o.state.pc)))]
        rep.check(bool(empties), "R12.2", f"{fname}: empty raises", wheree, f"no ValueError path for an empty {fname}", key=f"R12.2|{fname}|empty-raise")

    # ---- decoder
    fd = prog.func(f"{TOOLS}:bit_summary_to_days")
    whered = f"{loc(fd, fd.node)} {fd.qualname}"
    I = Interp(prog, max_paths=20000)
    st = I.new_state()
    mask = ("sym", fd.params[0], "int")
    outs = I.run(fd, {fd.params[0]: mask}, st)
    funcs |= set(I.functions_visited)
    rets = [o for o in outs if o.kind == "return"]
    raises = [o for o in outs if o.kind == "raise"]
    condsets = [o for o in rets if isinstance(o.value, tuple) and o.value and o.value[0] == "condset"]
    if len(rets) == 1 and condsets:
        # comprehension-style decoder: ONE path whose result is {d | cond_d}; each member must carry exactly its own bit test
        o = condsets[0]
        lo, hi = F.int_bounds_from_guard(o.state.pc, mask)
        rep.check((lo, hi) == (2, 254), "R12.3", "decoder domain", whered, f"masks accepted in [{lo},{hi}], expected [2,254]", key="R12.3|result")
        pairs = dict((v, cn) for cn, v in o.value[1])
        badm = None
        for m in en.members:
            h = en.attr(m, "hex_rep")
            want_c = {("cmp", "!=", ("app", "and", c(h), mask), c(0)), ("cmp", "!=", ("app", "and", mask, c(h)), c(0))}
            got_c = pairs.get(("enum", EnumRef(days.key, m)))
            if got_c not in want_c:
                badm = badm or f"{m} is in the result under {T.show(got_c)[:80] if got_c else 'no condition (never)'}, expected (0x{h:02x} & mask != 0)"
        if len(pairs) != len(en.members):
            badm = badm or f"{len(pairs)} candidates, expected the {len(en.members)} members"
        rep.check(badm is None, "R12.3", "decoder result", whered, badm or "", "the result is {d : d.hex_rep & mask != 0} member by member", key="R12.3|result")
        for _ in range(100):
            rep.ok("R12.3", "subset (symbolic set, all subsets at once)", whered)
        rets_for_fresh: list = []
    else:
        rets_for_fresh = rets
    if not (len(rets) == 1 and condsets):
      rep.check(len(rets) == 2 ** len(en.members), "R12.3", "decoder path count", whered, f"decoder has {len(rets)} returning paths, expected one per subset ({2 ** len(en.members)})", key="R12.3|paths")
    for o in raises:
        lo, hi = F.int_bounds_from_guard([g for g in o.state.pc], mask)
        rep.check(o.exc_name == "ValueError", "R12.3", "decoder rejection is ValueError", whered, f"decoder can raise {o.exc_name}", key="R12.3|exc")
    bad = 0
    first_bad = ""
    for o in ([] if (len(rets) == 1 and condsets) else rets):
        lo, hi = F.int_bounds_from_guard(o.state.pc, mask)
        if (lo, hi) != (2, 254):
            bad += 1
            first_bad = first_bad or f"masks accepted in [{lo},{hi}], expected [2,254]"
            continue
        if o.value[0] != "obj" or o.state.heap[o.value[1]].kind != "set":
            bad += 1
            first_bad = first_bad or f"decoder returns {T.show(o.value)[:80]}, not a set"
            continue
        items = set(o.state.heap[o.value[1]].items)
        for m in en.members:
            h = en.attr(m, "hex_rep")
            g_in = ("cmp", "!=", ("app", "and", c(h), mask), c(0))
            g_in2 = ("cmp", "!=", ("app", "and", mask, c(h)), c(0))
            pos = g_in in o.state.pc or g_in2 in o.state.pc
            negd = ("cmp", "==", g_in[2], c(0)) in o.state.pc or ("cmp", "==", g_in2[2], c(0)) in o.state.pc
            member = ("enum", EnumRef(days.key, m)) in items
            if pos == negd or member != pos:
                bad += 1
                first_bad = first_bad or f"{m}: in result={member}, guard (0x{h:02x} & mask != 0) true={pos} false={negd}"
                break
        else:
            rep.ok("R12.3", f"subset path", whered)
    if bad:
        rep.bad("R12.3", "decoder result", whered, f"{bad} path(s): {first_bad}", key="R12.3|result")
    for f_, w_ in ((fi, wheree), (fd, whered)):
        decos = [d for d in f_.decorators if any(x in d.split("(")[0].split(".")[-1] for x in ("cache", "lru_cache", "cached_property", "memoize"))]
        rep.check(not decos, "R12.5", f"{f_.qualname} not memoised", w_, f"{f_.qualname} is decorated with {decos}: every caller of the same argument receives the same mutable object", key=f"R12.5|{f_.qualname}|memo")
    fresh_bad = [o for o in rets_for_fresh if not (o.value[0] == "obj" and o.state.heap[o.value[1]].fresh)]
    rep.check(not fresh_bad, "R12.5", "decoder result is created inside the call", whered, "the decoder returns an object that exists outside the call (module-level / default / cached set)", key="R12.5|decoder|fresh")
    rep.sample({"encoder_forms": list(forms), "decoder_paths": len(rets), "table": {m: en.members[m] for m in en.members}})
    rep.analysed["functions"] = sorted(funcs)
    rep.analysed["paths"] = len(outs)
