"""One module per property: LEVEL, run(prog, rep, tier)."""
