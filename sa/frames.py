"""Symbolic wire frames: splitting, layout, length-field denotation."""
from __future__ import annotations

from typing import Any, Dict, List, Optional, Tuple

from . import terms as T
from .terms import Lin, Term


def split_signed(frame: Term) -> Optional[Tuple[Tuple[Term, ...], bool]]:
    """(body atoms, signature-covers-exactly-the-body) for a written value, or None."""
    if not T.is_seq(frame) or frame[1] != "raw":
        return None
    atoms = fold_signature(frame[2])
    if not atoms or atoms[-1][0] != "sig":
        return None
    body = atoms[:-1]
    if any(a[0] == "sig" for a in body):
        return body, False
    inner = T.strip_case(atoms[-1][1][2])
    return body, inner == T.strip_case(body)


def fold_signature(atoms: Tuple[Term, ...]) -> Tuple[Term, ...]:
    """A frame whose last four bytes are spelled out as the protocol signature of some bytes X,
           LE16(crc_hqx(X, 0x1021)) ++ LE16(crc_hqx(LE16(crc_hqx(X, 0x1021)) ++ 0x30*32, 0x1021))
    (C04's normal form, computed on bytes instead of through sign_packet_with_crc_key) carries the same ("sig", X)
    atom the signer's summary yields.  Whether X is exactly what precedes it is judged by the caller."""
    if len(atoms) < 5:
        return atoms
    a0, a1, b0, b1 = atoms[-4:]
    if not all(isinstance(x, tuple) and len(x) == 3 and x[0] == "hbi" for x in (a0, a1, b0, b1)):
        return atoms
    c1, c2 = a0[1], b0[1]
    if (a0[2], a1[2], b0[2], b1[2]) != (0, 1, 0, 1) or a1[1] != c1 or b1[1] != c2:
        return atoms
    def crc_of(t: Term) -> Optional[Term]:
        if isinstance(t, tuple) and t[:2] == ("app", "binascii.crc_hqx") and len(t) == 4 and t[3] == T.c(0x1021) and T.is_seq(t[2]) and t[2][1] == "raw":
            return t[2]
        return None
    x, key = crc_of(c1), crc_of(c2)
    if x is None or key is None:
        return atoms
    if T.normalise_atoms(tuple(key[2])) != T.normalise_atoms((("hbi", c1, 0), ("hbi", c1, 1), ("L", "30" * 32))):
        return atoms
    return tuple(atoms[:-4]) + (("sig", ("seq", "s", tuple(x[2]))),)


def field(body: Tuple[Term, ...], lo: int, hi: int) -> Term:
    return T.slice_seq(("seq", "s", body), lo, hi)


def literal(s: Term) -> Optional[str]:
    if T.is_seq(s) and all(a[0] == "L" for a in s[2]):
        return "".join(a[1] for a in s[2])
    return None


def body_width(body: Tuple[Term, ...]) -> Optional[Lin]:
    return T.seq_width(("seq", "s", body))


def layout(body: Tuple[Term, ...]) -> List[Dict[str, Any]]:
    out = []
    pos: Optional[Lin] = Lin.of(0)
    for a in body:
        w = T.atom_width(a)
        out.append({
            "offset_nibbles": None if pos is None else (int(pos.const) if pos.is_const() else repr(pos)),
            "width_nibbles": None if w is None else (int(w.const) if w.is_const() else repr(w)),
            "atom": T.show_atom(a),
        })
        pos = None if (pos is None or w is None) else pos + w
    return out


def length_field_denotation(f: Term) -> Tuple[str, Any, str]:
    """What do the 4 nibbles at [4:8] denote?

    returns (kind, value, note): kind 'const' -> int, 'le16' -> int term n (exact LE16 of n when 0<=n<=65535),
    'idiom' -> (n, lo, hi): equals LE16(n) only for lo<=n<=hi, 'unknown'."""
    lit = literal(f)
    if lit is not None and len(lit) == 4:
        try:
            return "const", int.from_bytes(bytes.fromhex(lit), "little"), ""
        except ValueError:
            return "unknown", None, f"not hex: {lit!r}"
    atoms = f[2] if T.is_seq(f) else ()
    if len(atoms) == 2 and atoms[0][0] == "hbi" and atoms[1][0] == "hbi" and atoms[0][1] == atoms[1][1] and (atoms[0][2], atoms[1][2]) == (0, 1):
        return "le16", atoms[0][1], ""
    if len(atoms) == 2 and atoms[0][0] == "hbi" and atoms[1][0] == "hbi" and atoms[0][1] == atoms[1][1] and (atoms[0][2], atoms[1][2]) == (1, 0):
        return "be16", atoms[0][1], "big-endian"
    if len(atoms) == 1 and atoms[0][0] == "padded" and atoms[0][1] == "ljust" and atoms[0][3] == 4 and atoms[0][4] == "0":
        inner = atoms[0][2]
        if inner[0] == "fmt" and inner[1] in ("x", "02x", "2x", "1x", "01x"):
            # "{:x}".format(n).ljust(4,"0"): two digits + "00" is LE16(n) iff 16 <= n <= 255
            # (one digit: 'f000' reads 0x00f0; three digits: '1000' reads 0x0010)
            return "idiom", (inner[2], 16, 255), "'{:x}'.format(n).ljust(4,'0') equals hex(LE16(n)) only for 16 <= n <= 255"
    if len(atoms) == 1 and atoms[0][0] == "txt":
        x = atoms[0][1]
        if isinstance(x, tuple) and len(x) > 2 and x[0] == "app" and x[1] == "ljust":
            inner = x[2]
            if T.is_seq(inner) and len(inner[2]) == 1 and inner[2][0][0] == "fmt":
                return "idiom", (inner[2][0][2], 16, 255), "'{:x}'.format(n).ljust(4,'0') equals hex(LE16(n)) only for 16 <= n <= 255 (value unbounded)"
    return "unknown", None, T.show(f)[:200]


def lin_interval(v: Term) -> Tuple[Optional[float], Optional[float]]:
    r = T.int_range(v)
    if r is None:
        return (None, None)
    return r


# ---------------------------------------------------------------------------
# matching a symbolic frame body against a reference token list (spec/wire_frames.json)
FIXED_W = {"LEN": 4, "SESSION": 8, "TS": 8, "DEVID": 6, "DEVKEY": 2}


def match_layout(body: Tuple[Term, ...], tokens: List[str]) -> Tuple[List[str], Dict[str, Term]]:
    """Compare literal bytes and hole positions. Returns (mismatches, holes by role)."""
    mism: List[str] = []
    holes: Dict[str, Term] = {}
    off = 0
    total = body_width(body)
    for tok in tokens:
        if tok in FIXED_W:
            w: Optional[int] = FIXED_W[tok]
            role = tok
            lit = None
        elif tok.startswith("0*"):
            w = int(tok[2:])
            role = None
            lit = "0" * w
        elif tok.startswith("ARG:"):
            _, r, ws = tok.split(":")
            role = "ARG:" + r
            w = None if ws == "*" else int(ws)
            lit = None
        else:
            w = len(tok)
            role = None
            lit = tok
        sl = field(body, off, off + w) if w is not None else T.slice_seq(("seq", "s", body), off, None)
        if T.is_top(sl):
            mism.append(f"nibbles {off}..{'' if w is None else off + w}: field boundary not determinable ({sl[1]})")
            return mism, holes
        if lit is not None:
            got = literal(sl)
            if got != lit:
                mism.append(f"nibbles {off}..{off + w} (bytes {off // 2}..{(off + w + 1) // 2 - 1}): expected fixed {lit if len(lit) < 20 else lit[:8] + '...'} found {T.show(sl)[:80]}")
        else:
            sw = T.seq_width(sl)
            if w is not None and (sw is None or not sw.is_const() or int(sw.const) != w):
                mism.append(f"nibbles {off}..{off + w}: {role} should be {w} nibbles wide, found width {sw!r}: {T.show(sl)[:80]}")
            if literal(sl) is not None and role in ("SESSION", "TS", "DEVID", "DEVKEY"):
                mism.append(f"nibbles {off}..{off + (w or 0)}: {role} expected, found the constant {literal(sl)}")
            holes[role] = sl  # type: ignore[index]
        if w is None:
            off = -1
            break
        off += w
    if off >= 0:
        if total is None or not total.is_const() or int(total.const) != off:
            mism.append(f"frame body is {total!r} nibbles, reference layout is {off}")
    return mism, holes


def le32_of(sl: Term) -> Optional[Term]:
    """If the 8 nibbles are hex(LE32(V)) return V."""
    a = sl[2] if T.is_seq(sl) else ()
    if len(a) == 4 and all(x[0] == "hbi" for x in a) and len({x[1] for x in a}) == 1 and [x[2] for x in a] == [0, 1, 2, 3]:
        return a[0][1]
    return None


def mentions(v: Any, name: str) -> bool:
    if isinstance(v, tuple):
        if len(v) >= 2 and v[0] == "sym" and v[1] == name:
            return True
        return any(mentions(x, name) for x in v)
    if isinstance(v, Lin):
        return any(mentions(t, name) for t in v.coef)
    return False


def int_bounds_from_guard(pc: List[Term], v: Term) -> Tuple[Optional[int], Optional[int]]:
    """Integer interval of term v implied by comparison atoms `v op const` in a conjunction; a linear term
    k*x + c with k > 0 takes its interval from that of x."""
    if isinstance(v, tuple) and v and v[0] == "lin":
        lv = Lin.of(v)
        if len(lv.coef) == 1:
            (x, k), = lv.coef.items()
            if isinstance(k, int) and k > 0 and isinstance(lv.const, int):
                lo_, hi_ = _int_bounds_atom(pc, x)
                return (None if lo_ is None else k * lo_ + lv.const, None if hi_ is None else k * hi_ + lv.const)
    return _int_bounds_atom(pc, v)


def _int_bounds_atom(pc: List[Term], v: Term) -> Tuple[Optional[int], Optional[int]]:
    lo: Optional[int] = None
    hi: Optional[int] = None

    def upd(op: str, k: Any) -> None:
        nonlocal lo, hi
        if not isinstance(k, (int, float)):
            return
        import math
        if op == "<":
            h = math.ceil(k) - 1
            hi = h if hi is None else min(hi, h)
        elif op == "<=":
            h = math.floor(k)
            hi = h if hi is None else min(hi, h)
        elif op == ">":
            l = math.floor(k) + 1
            lo = l if lo is None else max(lo, l)
        elif op == ">=":
            l = math.ceil(k)
            lo = l if lo is None else max(lo, l)
        elif op == "==":
            lo = int(k) if lo is None else max(lo, int(k))
            hi = int(k) if hi is None else min(hi, int(k))

    flip = {"<": ">", "<=": ">=", ">": "<", ">=": "<=", "==": "=="}

    def walk(g: Term) -> None:
        nonlocal lo, hi
        if not isinstance(g, tuple) or not g:
            return
        if g[0] == "and":
            for x in g[1:]:
                walk(x)
        elif g[0] == "or":
            # hull of the disjuncts (each taken alone)
            subs = [int_bounds_from_guard([x], v) for x in g[1:]]
            if all(s_[0] is not None for s_ in subs):
                l = min(s_[0] for s_ in subs)  # type: ignore[type-var]
                lo = l if lo is None else max(lo, l)
            if all(s_[1] is not None for s_ in subs):
                h = max(s_[1] for s_ in subs)  # type: ignore[type-var]
                hi = h if hi is None else min(hi, h)
        elif g[0] == "cmp" and g[1] in flip:
            if g[2] == v and T.is_c(g[3]):
                upd(g[1], g[3][1])
            elif g[3] == v and T.is_c(g[2]):
                upd(flip[g[1]], g[2][1])
            else:
                # k*v + c0 OP K  with k > 0 (e.g. len(rest) = nparts - 1 compared with a constant)
                for lhs, rhs, op in ((g[2], g[3], g[1]), (g[3], g[2], flip[g[1]])):
                    if isinstance(lhs, tuple) and lhs and lhs[0] == "lin" and T.is_c(rhs) and isinstance(rhs[1], (int, float)):
                        lv = Lin.of(lhs)
                        if len(lv.coef) == 1 and v in lv.coef and isinstance(lv.coef[v], int) and lv.coef[v] > 0 and isinstance(lv.const, (int, float)):
                            upd(op, (rhs[1] - lv.const) / lv.coef[v])
        elif g[0] == "cmp" and g[1] == "in" and g[2] == v and isinstance(g[3], tuple) and g[3]:
            coll = g[3]
            if coll[0] == "app" and coll[1] in ("range", "builtins.range") and 3 <= len(coll) <= 4 and all(T.is_c(x) and isinstance(x[1], int) for x in coll[2:]):
                a_, b_ = (0, coll[2][1]) if len(coll) == 3 else (coll[2][1], coll[3][1])
                if b_ > a_:
                    upd(">=", a_)
                    upd("<=", b_ - 1)
            elif coll[0] in ("tuple", "clist", "cset") and coll[1] and all(T.is_c(x) and isinstance(x[1], int) for x in coll[1]):
                upd(">=", min(x[1] for x in coll[1]))
                upd("<=", max(x[1] for x in coll[1]))

    for g in pc:
        walk(g)
    return lo, hi


DEADLINE: Optional[float] = None     # set by check.run_property: process CPU time after which the analysis gives up (exit 2)


def check_deadline(what: str = "") -> None:
    if DEADLINE is not None:
        import time as _time
        if _time.process_time() > DEADLINE:
            from .model import AnalysisError
            raise AnalysisError(f"analysis budget exceeded (SA_MAX_TOTAL_SECONDS for one property{': ' + what if what else ''}): the guards grew too large to handle")


def flat_pc(pc: List[Term]) -> List[Term]:
    """The conjuncts of a path condition, closed under unit resolution: a disjunction all of whose alternatives but one
    are contradicted by the other conjuncts contributes that alternative ((not p or q) and p gives q)."""
    from .interp import neg

    check_deadline("closing a path condition")

    out: List[Term] = []
    have: set = set()

    def add(g: Term) -> bool:
        if isinstance(g, tuple) and g and g[0] == "and":
            ch = False
            for x in g[1:]:
                ch = add(x) or ch
            return ch
        if g in have:
            return False
        have.add(g)
        out.append(g)
        return True

    for g in pc:
        add(g)
    ors = [g for g in out if isinstance(g, tuple) and g and g[0] == "or" and len(g) <= 9]
    if not ors:
        return out
    negs: Dict[Any, Any] = {}

    def ng(d: Term) -> Term:
        r = negs.get(d)
        if r is None:
            r = negs[d] = neg(d)
        return r

    for _ in range(6):
        changed = False
        for g in ors:
            live = [d for d in g[1:] if ng(d) not in have and not (isinstance(d, tuple) and d[:1] == ("and",) and len(d) <= 9 and any(ng(x) in have for x in d[1:]))]
            if len(live) == 1 and add(live[0]):
                changed = True
        if not changed:
            break
        ors = [g for g in out if isinstance(g, tuple) and g and g[0] == "or" and len(g) <= 9]
    return out


def restrict(v: Any, pc: List[Term]) -> Any:
    """Specialise a term to a path: `ite` choices and `alt` text alternatives whose guard (or its negation) is
    among the path's guards are resolved.  A reference term stated as ite(c, a, b) can then be compared with the
    value a path computes after branching on c at statement level (`if c: return a` / `return b`)."""
    from .interp import neg

    pcs = flat_pc(list(pc))

    def go(x: Any) -> Any:
        if isinstance(x, tuple):
            if len(x) == 4 and x[0] == "ite":
                if x[1] in pcs:
                    return go(x[2])
                if neg(x[1]) in pcs:
                    return go(x[3])
                if isinstance(x[1], tuple) and x[1][:2] == ("cmp", "in") and isinstance(x[1][3], tuple) and x[1][3][0] == "tuple":
                    # membership decided by an equality / by all the disequalities on the path
                    key, ks = x[1][2], x[1][3][1]
                    if any(("cmp", "==", key, k) in pcs for k in ks):
                        return go(x[2])
                    if all(("cmp", "!=", key, k) in pcs for k in ks):
                        return go(x[3])
            if len(x) == 3 and x[0] == "lookup":
                for k, v in x[1]:
                    if ("cmp", "==", x[2], k) in pcs:
                        return go(v)
            if len(x) == 3 and x[0] == "seq" and isinstance(x[2], tuple):
                atoms: List[Any] = []
                for a in x[2]:
                    if isinstance(a, tuple) and len(a) == 4 and a[0] == "alt" and (a[1] in pcs or neg(a[1]) in pcs):
                        br = go(a[2] if a[1] in pcs else a[3])
                        if isinstance(br, tuple) and len(br) == 3 and br[0] == "seq":
                            atoms.extend(br[2])
                            continue
                    atoms.append(go(a))
                return T.seq(x[1], tuple(atoms))
            return tuple(go(y) for y in x)
        return x

    return go(v)


def guard_under(g: Any, atom: Any, depth: int = 0) -> Optional[bool]:
    """Three-valued value of a guard when `atom(term)` gives the truth of some atomic conditions (None: unknown).
    Understands not / and / or, `x is [not] None` where x is a chain of conditional values, and bool constants."""
    if depth > 14 or not isinstance(g, tuple) or not g:
        return None
    r = atom(g)
    if r is not None:
        return r
    if g[0] == "c":
        return bool(g[1])
    if g[0] == "not" and len(g) == 2:
        r = guard_under(g[1], atom, depth + 1)
        return None if r is None else not r
    if g[0] in ("and", "or"):
        rs = [guard_under(x, atom, depth + 1) for x in g[1:]]
        if g[0] == "and":
            return False if any(x is False for x in rs) else True if all(x is True for x in rs) else None
        return True if any(x is True for x in rs) else False if all(x is False for x in rs) else None
    if g[0] == "cmp" and g[1] in ("is not", "is") and len(g) == 4 and isinstance(g[3], tuple) and g[3][:1] == ("c",) and g[3][1] is None:
        x = g[2]
        while isinstance(x, tuple) and x[:1] == ("ite",) and len(x) == 4:
            cnd = guard_under(x[1], atom, depth + 1)
            if cnd is None:
                return None
            x = x[2] if cnd else x[3]
        if isinstance(x, tuple) and x[:1] == ("c",):
            isnone = x[1] is None
        elif isinstance(x, tuple) and x[:1] in (("sym",), ("obj",), ("enum",), ("tuple",), ("seq",)):
            isnone = False
        else:
            return None
        return isnone if g[1] == "is" else not isnone
    return None


def collection_facts(arg: Any, empty: Optional[bool], dup: Optional[bool]) -> Any:
    """atom() for guard_under: what is known about a collection argument (empty? names an element twice?)."""
    ln, ls = ("len", arg), ("len", ("app", "set", arg))
    c0, c1 = ("c", 0), ("c", 1)
    nonempty = {("truthy", arg), ("cmp", ">", ln, c0), ("cmp", "!=", ln, c0), ("cmp", ">=", ln, c1)}
    isempty = {("cmp", "<=", ln, c0), ("cmp", "==", ln, c0), ("cmp", "<", ln, c1)}
    dups = {("cmp", "!=", ln, ls), ("cmp", "!=", ls, ln), ("cmp", "<", ls, ln), ("cmp", ">", ln, ls)}
    nodups = {("cmp", "==", ln, ls), ("cmp", "==", ls, ln)}

    def atom(g: Any) -> Optional[bool]:
        if empty is not None:
            if g in nonempty:
                return not empty
            if g in isempty:
                return empty
        if dup is not None:
            if g in dups:
                return dup
            if g in nodups:
                return not dup
        if empty is True and (g in nodups):
            return True      # an empty collection has no duplicates
        if empty is True and (g in dups):
            return False
        return None
    return atom
