"""Symbolic wire frames: splitting, layout, length-field denotation."""
from __future__ import annotations

from typing import Any, Dict, List, Optional, Tuple

from . import terms as T
from .terms import Lin, Term


def split_signed(frame: Term) -> Optional[Tuple[Tuple[Term, ...], bool]]:
    """(body atoms, signature-covers-exactly-the-body) for a written value, or None."""
    if not T.is_seq(frame) or frame[1] != "raw":
        return None
    atoms = frame[2]
    if not atoms or atoms[-1][0] != "sig":
        return None
    body = atoms[:-1]
    if any(a[0] == "sig" for a in body):
        return body, False
    inner = T.strip_case(atoms[-1][1][2])
    return body, inner == T.strip_case(body)


def field(body: Tuple[Term, ...], lo: int, hi: int) -> Term:
    return T.slice_seq(("seq", "s", body), lo, hi)


def literal(s: Term) -> Optional[str]:
    if T.is_seq(s) and all(a[0] == "L" for a in s[2]):
        return "".join(a[1] for a in s[2])
    return None


def body_width(body: Tuple[Term, ...]) -> Optional[Lin]:
    return T.seq_width(("seq", "s", body))


def layout(body: Tuple[Term, ...]) -> List[Dict[str, Any]]:
    out = []
    pos: Optional[Lin] = Lin.of(0)
    for a in body:
        w = T.atom_width(a)
        out.append({
            "offset_nibbles": None if pos is None else (int(pos.const) if pos.is_const() else repr(pos)),
            "width_nibbles": None if w is None else (int(w.const) if w.is_const() else repr(w)),
            "atom": T.show_atom(a),
        })
        pos = None if (pos is None or w is None) else pos + w
    return out


def length_field_denotation(f: Term) -> Tuple[str, Any, str]:
    """What do the 4 nibbles at [4:8] denote?

    returns (kind, value, note): kind 'const' -> int, 'le16' -> int term n (exact LE16 of n when 0<=n<=65535),
    'idiom' -> (n, lo, hi): equals LE16(n) only for lo<=n<=hi, 'unknown'."""
    lit = literal(f)
    if lit is not None and len(lit) == 4:
        try:
            return "const", int.from_bytes(bytes.fromhex(lit), "little"), ""
        except ValueError:
            return "unknown", None, f"not hex: {lit!r}"
    atoms = f[2] if T.is_seq(f) else ()
    if len(atoms) == 2 and atoms[0][0] == "hbi" and atoms[1][0] == "hbi" and atoms[0][1] == atoms[1][1] and (atoms[0][2], atoms[1][2]) == (0, 1):
        return "le16", atoms[0][1], ""
    if len(atoms) == 2 and atoms[0][0] == "hbi" and atoms[1][0] == "hbi" and atoms[0][1] == atoms[1][1] and (atoms[0][2], atoms[1][2]) == (1, 0):
        return "be16", atoms[0][1], "big-endian"
    if len(atoms) == 1 and atoms[0][0] == "padded" and atoms[0][1] == "ljust" and atoms[0][3] == 4 and atoms[0][4] == "0":
        inner = atoms[0][2]
        if inner[0] == "fmt" and inner[1] in ("x", "02x", "2x", "1x", "01x"):
            # "{:x}".format(n).ljust(4,"0"): two digits + "00" is LE16(n) iff 16 <= n <= 255
            # (one digit: 'f000' reads 0x00f0; three digits: '1000' reads 0x0010)
            return "idiom", (inner[2], 16, 255), "'{:x}'.format(n).ljust(4,'0') equals hex(LE16(n)) only for 16 <= n <= 255"
    if len(atoms) == 1 and atoms[0][0] == "txt":
        x = atoms[0][1]
        if isinstance(x, tuple) and len(x) > 2 and x[0] == "app" and x[1] == "ljust":
            inner = x[2]
            if T.is_seq(inner) and len(inner[2]) == 1 and inner[2][0][0] == "fmt":
                return "idiom", (inner[2][0][2], 16, 255), "'{:x}'.format(n).ljust(4,'0') equals hex(LE16(n)) only for 16 <= n <= 255 (value unbounded)"
    return "unknown", None, T.show(f)[:200]


def lin_interval(v: Term) -> Tuple[Optional[float], Optional[float]]:
    r = T.int_range(v)
    if r is None:
        return (None, None)
    return r


# ---------------------------------------------------------------------------
# matching a symbolic frame body against a reference token list (spec/wire_frames.json)
FIXED_W = {"LEN": 4, "SESSION": 8, "TS": 8, "DEVID": 6, "DEVKEY": 2}


def match_layout(body: Tuple[Term, ...], tokens: List[str]) -> Tuple[List[str], Dict[str, Term]]:
    """Compare literal bytes and hole positions. Returns (mismatches, holes by role)."""
    mism: List[str] = []
    holes: Dict[str, Term] = {}
    off = 0
    total = body_width(body)
    for tok in tokens:
        if tok in FIXED_W:
            w: Optional[int] = FIXED_W[tok]
            role = tok
            lit = None
        elif tok.startswith("0*"):
            w = int(tok[2:])
            role = None
            lit = "0" * w
        elif tok.startswith("ARG:"):
            _, r, ws = tok.split(":")
            role = "ARG:" + r
            w = None if ws == "*" else int(ws)
            lit = None
        else:
            w = len(tok)
            role = None
            lit = tok
        sl = field(body, off, off + w) if w is not None else T.slice_seq(("seq", "s", body), off, None)
        if T.is_top(sl):
            mism.append(f"nibbles {off}..{'' if w is None else off + w}: field boundary not determinable ({sl[1]})")
            return mism, holes
        if lit is not None:
            got = literal(sl)
            if got != lit:
                mism.append(f"nibbles {off}..{off + w} (bytes {off // 2}..{(off + w + 1) // 2 - 1}): expected fixed {lit if len(lit) < 20 else lit[:8] + '...'} found {T.show(sl)[:80]}")
        else:
            sw = T.seq_width(sl)
            if w is not None and (sw is None or not sw.is_const() or int(sw.const) != w):
                mism.append(f"nibbles {off}..{off + w}: {role} should be {w} nibbles wide, found width {sw!r}: {T.show(sl)[:80]}")
            if literal(sl) is not None and role in ("SESSION", "TS", "DEVID", "DEVKEY"):
                mism.append(f"nibbles {off}..{off + (w or 0)}: {role} expected, found the constant {literal(sl)}")
            holes[role] = sl  # type: ignore[index]
        if w is None:
            off = -1
            break
        off += w
    if off >= 0:
        if total is None or not total.is_const() or int(total.const) != off:
            mism.append(f"frame body is {total!r} nibbles, reference layout is {off}")
    return mism, holes


def le32_of(sl: Term) -> Optional[Term]:
    """If the 8 nibbles are hex(LE32(V)) return V."""
    a = sl[2] if T.is_seq(sl) else ()
    if len(a) == 4 and all(x[0] == "hbi" for x in a) and len({x[1] for x in a}) == 1 and [x[2] for x in a] == [0, 1, 2, 3]:
        return a[0][1]
    return None


def mentions(v: Any, name: str) -> bool:
    if isinstance(v, tuple):
        if len(v) >= 2 and v[0] == "sym" and v[1] == name:
            return True
        return any(mentions(x, name) for x in v)
    if isinstance(v, Lin):
        return any(mentions(t, name) for t in v.coef)
    return False


def int_bounds_from_guard(pc: List[Term], v: Term) -> Tuple[Optional[int], Optional[int]]:
    """Integer interval of term v implied by comparison atoms `v op const` in a conjunction."""
    lo: Optional[int] = None
    hi: Optional[int] = None

    def upd(op: str, k: Any) -> None:
        nonlocal lo, hi
        if not isinstance(k, (int, float)):
            return
        import math
        if op == "<":
            h = math.ceil(k) - 1
            hi = h if hi is None else min(hi, h)
        elif op == "<=":
            h = math.floor(k)
            hi = h if hi is None else min(hi, h)
        elif op == ">":
            l = math.floor(k) + 1
            lo = l if lo is None else max(lo, l)
        elif op == ">=":
            l = math.ceil(k)
            lo = l if lo is None else max(lo, l)
        elif op == "==":
            lo = int(k) if lo is None else max(lo, int(k))
            hi = int(k) if hi is None else min(hi, int(k))

    flip = {"<": ">", "<=": ">=", ">": "<", ">=": "<=", "==": "=="}

    def walk(g: Term) -> None:
        nonlocal lo, hi
        if not isinstance(g, tuple) or not g:
            return
        if g[0] == "and":
            for x in g[1:]:
                walk(x)
        elif g[0] == "or":
            # hull of the disjuncts (each taken alone)
            subs = [int_bounds_from_guard([x], v) for x in g[1:]]
            if all(s_[0] is not None for s_ in subs):
                l = min(s_[0] for s_ in subs)  # type: ignore[type-var]
                lo = l if lo is None else max(lo, l)
            if all(s_[1] is not None for s_ in subs):
                h = max(s_[1] for s_ in subs)  # type: ignore[type-var]
                hi = h if hi is None else min(hi, h)
        elif g[0] == "cmp" and g[1] in flip:
            if g[2] == v and T.is_c(g[3]):
                upd(g[1], g[3][1])
            elif g[3] == v and T.is_c(g[2]):
                upd(flip[g[1]], g[2][1])

    for g in pc:
        walk(g)
    return lo, hi
