"""Symbolic wire frames: splitting, layout, length-field denotation."""
from __future__ import annotations

from typing import Any, Dict, List, Optional, Tuple

from . import terms as T
from .terms import Lin, Term


def split_signed(frame: Term) -> Optional[Tuple[Tuple[Term, ...], bool]]:
    """(body atoms, signature-covers-exactly-the-body) for a written value, or None."""
    if not T.is_seq(frame) or frame[1] != "raw":
        return None
    atoms = frame[2]
    if not atoms or atoms[-1][0] != "sig":
        return None
    body = atoms[:-1]
    if any(a[0] == "sig" for a in body):
        return body, False
    inner = T.strip_case(atoms[-1][1][2])
    return body, inner == T.strip_case(body)


def field(body: Tuple[Term, ...], lo: int, hi: int) -> Term:
    return T.slice_seq(("seq", "s", body), lo, hi)


def literal(s: Term) -> Optional[str]:
    if T.is_seq(s) and all(a[0] == "L" for a in s[2]):
        return "".join(a[1] for a in s[2])
    return None


def body_width(body: Tuple[Term, ...]) -> Optional[Lin]:
    return T.seq_width(("seq", "s", body))


def layout(body: Tuple[Term, ...]) -> List[Dict[str, Any]]:
    out = []
    pos: Optional[Lin] = Lin.of(0)
    for a in body:
        w = T.atom_width(a)
        out.append({
            "offset_nibbles": None if pos is None else (int(pos.const) if pos.is_const() else repr(pos)),
            "width_nibbles": None if w is None else (int(w.const) if w.is_const() else repr(w)),
            "atom": T.show_atom(a),
        })
        pos = None if (pos is None or w is None) else pos + w
    return out


def length_field_denotation(f: Term) -> Tuple[str, Any, str]:
    """What do the 4 nibbles at [4:8] denote?

    returns (kind, value, note): kind 'const' -> int, 'le16' -> int term n (exact LE16 of n when 0<=n<=65535),
    'idiom' -> (n, lo, hi): equals LE16(n) only for lo<=n<=hi, 'unknown'."""
    lit = literal(f)
    if lit is not None and len(lit) == 4:
        try:
            return "const", int.from_bytes(bytes.fromhex(lit), "little"), ""
        except ValueError:
            return "unknown", None, f"not hex: {lit!r}"
    atoms = f[2] if T.is_seq(f) else ()
    if len(atoms) == 2 and atoms[0][0] == "hbi" and atoms[1][0] == "hbi" and atoms[0][1] == atoms[1][1] and (atoms[0][2], atoms[1][2]) == (0, 1):
        return "le16", atoms[0][1], ""
    if len(atoms) == 2 and atoms[0][0] == "hbi" and atoms[1][0] == "hbi" and atoms[0][1] == atoms[1][1] and (atoms[0][2], atoms[1][2]) == (1, 0):
        return "be16", atoms[0][1], "big-endian"
    if len(atoms) == 1 and atoms[0][0] == "padded" and atoms[0][1] == "ljust" and atoms[0][3] == 4 and atoms[0][4] == "0":
        inner = atoms[0][2]
        if inner[0] == "fmt" and inner[1] in ("x", "02x", "2x", "1x", "01x"):
            # "{:x}".format(n).ljust(4,"0"): two digits + "00" is LE16(n) iff 16 <= n <= 255
            # (one digit: 'f000' reads 0x00f0; three digits: '1000' reads 0x0010)
            return "idiom", (inner[2], 16, 255), "'{:x}'.format(n).ljust(4,'0') equals hex(LE16(n)) only for 16 <= n <= 255"
    if len(atoms) == 1 and atoms[0][0] == "txt":
        x = atoms[0][1]
        if isinstance(x, tuple) and len(x) > 2 and x[0] == "app" and x[1] == "ljust":
            inner = x[2]
            if T.is_seq(inner) and len(inner[2]) == 1 and inner[2][0][0] == "fmt":
                return "idiom", (inner[2][0][2], 16, 255), "'{:x}'.format(n).ljust(4,'0') equals hex(LE16(n)) only for 16 <= n <= 255 (value unbounded)"
    return "unknown", None, T.show(f)[:200]


def lin_interval(v: Term) -> Tuple[Optional[float], Optional[float]]:
    r = T.int_range(v)
    if r is None:
        return (None, None)
    return r
