"""Repository-specific static analyser for TomerFi/aioswitcher.

Nothing in this package imports or executes ``aioswitcher``.  Every verdict is
derived from the syntax trees of the files under ``$SA_REPO`` (default
``/repo``) on every run.
"""
