"""Developer aid: print the abstract outcomes of one function.  Not used by checks."""
import sys
from . import terms as T
from .interp import Interp, conj
from .model import Program


def show_outcomes(outs, interp=None, events=True):
    for i, o in enumerate(outs):
        pc = conj(o.state.pc)
        if o.kind == "return":
            print(f"  path {i}: RETURN {T.show(o.value)}")
        else:
            print(f"  path {i}: RAISE {o.value[1]} @ {o.value[3]}")
        print(f"      when {T.show(pc)}")
        if events:
            for e in o.state.events:
                print(f"      ev {e!r}")
        v = o.value
        if isinstance(v, tuple) and v and v[0] == "obj":
            ho = o.state.heap[v[1]]
            print(f"      obj {ho.cls.name if ho.cls else ho.kind}: " + "; ".join(f"{k}={T.show(x)}" for k, x in ho.fields.items()) + (" items=" + ", ".join(T.show(x) for x in ho.items) if ho.items else ""))


if __name__ == "__main__":
    prog = Program()
    key = sys.argv[1]
    fi = prog.func(key)
    I = Interp(prog)
    st = I.new_state()
    args = {}
    for p in fi.params:
        ann = None
        for a in fi.node.args.args:
            if a.arg == p:
                ann = a.annotation
        if p == "self":
            args[p] = I.sym_object(st, fi.cls, "self")
        else:
            typ = I.type_of_annotation(ann, fi.module) if ann is not None else "any"
            args[p] = I.materialise(("sym", p, typ), st)
    outs = I.run(fi, args, st)
    show_outcomes(outs)
    print("paths", len(outs), "visited", I.functions_visited)
