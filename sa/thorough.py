"""Thorough tier additions shared by all properties.

1. Self-test of the rules: every seeded variant registered for the property (breaking edits and
   behaviour-preserving twins, sa/selftest/variants/*.json) is materialised in a scratch copy of the
   *current* tree and analysed; a breaking variant that is not reported, or a twin that is, means the
   analyser is broken for this tree -> UNDECIDED (exit 2), never a VIOLATION of the property.
2. Second witness: mypy (present only because it is the repository's own dev dependency) is run as a
   library with opt-in diagnostics; what it reports is recorded in the evidence, it decides nothing.
"""
from __future__ import annotations

import json
import os
import subprocess
import sys
from concurrent.futures import ThreadPoolExecutor
from typing import Any, Dict, List

from .report import Report, VERIF


def selftest_obligations(prop: str, rep: Report, root: str) -> None:
    from .selftest import run as st

    rep.rule("SELFTEST", "rule self-test: each seeded breaking variant of the current tree is reported as a violation of this property and each behaviour-preserving twin passes", 1)
    if os.environ.get("SA_NO_SELFTEST") == "1":
        rep.ok("SELFTEST", "skipped (nested run)", "-")
        return
    vs = [dict(v) for v in st.load_variants() if prop in v["properties"]]
    for v in vs:
        v["properties"] = [prop]
    if not vs:
        rep.undecided("SELFTEST", "variants", "-", f"no seeded variants registered for {prop}")
        return
    os.environ["SA_NO_SELFTEST"] = "1"
    try:
        with ThreadPoolExecutor(max_workers=min(16, os.cpu_count() or 4)) as ex:
            res = list(ex.map(lambda v: st.run_variant(v, root), vs))
    finally:
        os.environ.pop("SA_NO_SELFTEST", None)
    stale = 0
    for v, r in zip(vs, res):
        inst = f"{v['id']} ({v['expect']}): {v.get('what', '')}"
        if r["status"] == "OK":
            rep.ok("SELFTEST", inst, "-")
        elif r["status"] == "STALE":
            # the anchor text of the variant no longer exists in the tree under analysis (the tree changed);
            # that says nothing about the property - recorded, not counted against the run
            stale += 1
            rep.note(f"selftest variant {v['id']} is stale on this tree: {r.get('why', '')}")
        else:
            rep.undecided("SELFTEST", inst, "-", f"self-test outcome {r['status']}: the rule does not behave as designed on this tree")
    rep.extra["selftest"] = {"variants": len(vs), "stale": stale, "breaking": sum(1 for v in vs if v["expect"] == "violation"), "twins": sum(1 for v in vs if v["expect"] == "pass")}
    if stale == len(vs):
        rep.undecided("SELFTEST", "variants", "-", "every variant is stale on this tree")


def engine_obligations(rep: Report) -> None:
    """Unit tests of the analyser's building blocks (term algebra, guards, canonical forms)."""
    import contextlib
    import io
    from .selftest import engine

    rep.rule("ENGINE", "unit tests of the term algebra, the guard logic and the canonical forms (sa/selftest/engine.py) pass", 1)
    buf = io.StringIO()
    with contextlib.redirect_stdout(buf):
        rc = engine.main()
    fails = [ln for ln in buf.getvalue().splitlines() if "FAIL" in ln]
    if rc == 0:
        rep.ok("ENGINE", "engine unit tests", "-", buf.getvalue().strip().splitlines()[-1] if buf.getvalue().strip() else "")
    else:
        rep.undecided("ENGINE", "engine unit tests", "-", f"the analyser's own unit tests fail: {fails[:5]}")


def fuzz_obligations(prop: str, rep: Report, root: str) -> None:
    """False-alarm fuzzing of this property's checker on the current tree (sa/selftest/havoc.py, rewrite.py):
    one scratch copy per site, each differing from the tree by ONE behaviour-preserving edit.  A VIOLATION on any
    of them means a rule of this checker matches the shape of the code instead of its meaning -> the checker is
    broken for this tree (UNDECIDED, exit 2); it is never a violation of the property."""
    from .selftest import havoc, rewrite

    rep.rule("FUZZ", "no false alarm under behaviour-preserving edits: (a) every computed value wrapped in an unmodelled identity (copy.copy) - answer 0 or 2, never 1; "
             "(b) every applicable local rewrite (18 kinds, see DESIGN 2.7: comparison orientation, chained comparison, or-chain -> membership, if/else <-> conditional expression, hexlify().decode() -> .hex(), "
             "elif -> nested if, dict(map(lambda)) -> comprehension, return via a local) - answer 0", 50)
    if os.environ.get("SA_NO_SELFTEST") == "1":
        rep.ok("FUZZ", "skipped (nested run)", "-")
        return
    os.environ["SA_NO_SELFTEST"] = "1"
    try:
        hs = havoc.sites(root)
        rs = rewrite.all_sites(root, None)
        with ThreadPoolExecutor(max_workers=min(16, os.cpu_count() or 4)) as ex:
            hres = list(ex.map(lambda k: havoc.run_site(k, hs[k], root, [prop]), range(len(hs))))
            rres = list(ex.map(lambda k: rewrite.run_site(k, rs[k], root, [prop]), range(len(rs))))
    finally:
        os.environ.pop("SA_NO_SELFTEST", None)
    stats = {"havoc_sites": len(hs), "havoc_exit0": 0, "havoc_exit2": 0, "havoc_alarm": 0, "rewrite_sites": len(rs), "rewrite_exit0": 0, "rewrite_exit2": 0, "rewrite_alarm": 0, "skipped": 0}
    for r in hres:
        inst = f"havoc #{r['site']} {r['where']} {r.get('what', '')[:60]}"
        if r["status"] == "SKIP":
            stats["skipped"] += 1
        elif r["status"] == "ALARM":
            stats["havoc_alarm"] += 1
            rep.undecided("FUZZ", inst, r["where"], f"the checker reports a VIOLATION on a tree that differs only by an unmodelled identity call: {r['alarms']}")
        else:
            stats["havoc_exit2" if r["rc"] else "havoc_exit0"] += 1
            rep.ok("FUZZ", inst, r["where"], "exit 2 (cannot decide)" if r["rc"] else "exit 0")
    for r in rres:
        inst = f"rewrite {r['kind']} #{r['site']} {r['where'][:90]}"
        if r["status"] == "SKIP":
            stats["skipped"] += 1
        elif r["status"] == "ALARM":
            stats["rewrite_alarm"] += 1
            rep.undecided("FUZZ", inst, r["where"], f"the checker reports a VIOLATION on a behaviour-preserving rewrite: {r['alarms']}")
        elif r["status"] == "UNDECIDED":
            stats["rewrite_exit2"] += 1
            rep.note(f"fuzz: {inst}: exit 2 (cannot decide) - tolerated, recorded")
            rep.ok("FUZZ", inst, r["where"], "exit 2 (cannot decide)")
        else:
            stats["rewrite_exit0"] += 1
            rep.ok("FUZZ", inst, r["where"], "exit 0")
    rep.extra["fuzz"] = stats


MYPY_SNIPPET = r"""
import json, os, sys
os.chdir(sys.argv[1])
try:
    from mypy import api
except Exception as exc:
    print(json.dumps({"available": False, "why": str(exc)})); sys.exit(0)
out, err, rc = api.run(["src/aioswitcher", "--no-incremental", "--cache-dir", os.devnull, "--warn-unreachable",
                        "--enable-error-code", "possibly-undefined", "--enable-error-code", "unused-awaitable",
                        "--no-error-summary", "--hide-error-context", "--no-color-output"])
lines = [l for l in out.splitlines() if l.strip() and "Unrecognized option" not in l]
print(json.dumps({"available": True, "rc": rc, "diagnostics": lines[:50]}))
"""


def mypy_second_witness(rep: Report, root: str) -> None:
    try:
        p = subprocess.run([sys.executable, "-c", MYPY_SNIPPET, root], capture_output=True, text=True, timeout=180)
        data = json.loads(p.stdout.strip().splitlines()[-1]) if p.stdout.strip() else {"available": False, "why": p.stderr[-300:]}
    except Exception as exc:  # noqa: BLE001
        data = {"available": False, "why": str(exc)}
    rep.extra["mypy_second_witness"] = data
    rep.note("mypy opt-in diagnostics are recorded as a second witness only; they decide nothing")
