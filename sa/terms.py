"""The "hexshape" term domain: symbolic text / bytes / ints with nibble provenance.

All values are plain tuples ``(tag, ...)`` so they are hashable and comparable.

Text-like values
    ('seq', kind, atoms)   kind: 's' str, 'b' bytes holding ASCII text,
                           'raw' arbitrary bytes *represented by their hex text*
    atoms (each has a width in characters of the (hex) text):
      ('L', chars)                 literal characters
      ('hx', src, a, b)            nibbles [a,b) of hexlify(<bytes source src>); b may be None
                                   (to the end) or negative (from the end)
      ('HX', src, a, b)            the same, upper-cased
      ('hbi', I, k)                two hex digits of byte k (0 = least significant) of int term I
      ('hni', I, k, half)          one hex digit of that byte (half 0 = high nibble)
      ('hexof', R)                 hexlify of an opaque raw-bytes term R  (width 2*len(R))
      ('sub', S, a, b)             characters [a,b) of the symbolic text S
      ('whole', S)                 all characters of the symbolic text S
      ('fmt', spec, I)             format(I, spec)
      ('rep', chars, N)            chars * N  (N an int term)
      ('txt', X)                   opaque text
Int values
    ('c', n) | ('uint', atoms) big-endian base-16 reading of hex atoms | ('lin', Lin)
    | ('app', f, args...) | ('sym', name, typ)
"""
from __future__ import annotations

from typing import Any, Dict, Iterable, List, Optional, Tuple

Term = Tuple[Any, ...]

HEXDIGITS = set("0123456789abcdef")
HEXDIGITS_ANY = set("0123456789abcdefABCDEF")


# ---------------------------------------------------------------------------
# linear expressions over opaque terms (for widths and simple arithmetic)
class Lin:
    __slots__ = ("coef", "const")

    def __init__(self, coef: Optional[Dict[Term, Any]] = None, const: Any = 0):
        self.coef = {k: v for k, v in (coef or {}).items() if v != 0}
        self.const = const

    @staticmethod
    def of(x: Any) -> "Lin":
        if isinstance(x, Lin):
            return x
        if isinstance(x, (int, float)):
            return Lin({}, x)
        if isinstance(x, tuple):
            if x[0] == "c" and isinstance(x[1], (int, float)) and not isinstance(x[1], bool):
                return Lin({}, x[1])
            if x[0] == "lin":
                return x[1]
            return Lin({x: 1}, 0)
        raise TypeError(x)

    def __add__(self, o: Any) -> "Lin":
        o = Lin.of(o)
        c = dict(self.coef)
        for k, v in o.coef.items():
            c[k] = c.get(k, 0) + v
        return Lin(c, self.const + o.const)

    def __sub__(self, o: Any) -> "Lin":
        return self + Lin.of(o).scale(-1)

    def scale(self, k: Any) -> "Lin":
        return Lin({t: v * k for t, v in self.coef.items()}, self.const * k)

    def is_const(self) -> bool:
        return not self.coef

    def __eq__(self, o: Any) -> bool:
        if not isinstance(o, Lin):
            return False
        return self.coef == o.coef and self.const == o.const

    def __hash__(self) -> int:
        return hash((frozenset(self.coef.items()), self.const))

    def term(self) -> Term:
        if self.is_const():
            return ("c", self.const)
        if self.const == 0 and len(self.coef) == 1:
            (t, k), = self.coef.items()
            if k == 1:
                return t
        return ("lin", self)

    def __repr__(self) -> str:
        parts = []
        for t, k in sorted(self.coef.items(), key=lambda kv: show(kv[0])):
            parts.append(f"{k}*{show(t)}" if k != 1 else show(t))
        if self.const or not parts:
            parts.append(str(self.const))
        return " + ".join(parts)


# ---------------------------------------------------------------------------
def c(v: Any) -> Term:
    return ("c", v)


def is_c(v: Term) -> bool:
    return isinstance(v, tuple) and len(v) == 2 and v[0] == "c"


def top(reason: str) -> Term:
    return ("top", reason)


# ---------------------------------------------------------------------------
# Opaque values that SURVIVE into the outcomes of an interpreter run (guards, results, event arguments, heap):
# results of calls the analyser has no model for, TOP, attributes of unmodelled objects.  Filled by Interp.run;
# read by Report.finish, which never reports a VIOLATION while the analysis itself was imprecise.
OPAQUE_SEEN: Dict[str, Tuple[int, str]] = {}
# Constructs met by the interpreter that make its results unreliable in a specific, nameable way:
#   CACHED  - a repository function with a cache decorator was inlined (the interpreter does not model memoisation)
#   ONESHOT - a module-level or class-level one-shot iterator (map/filter/zip/generator/iter/reversed object) is consumed in a function
#   SHARED  - a container created in a class body and mutated in place through instances is read (state shared by all instances)
HAZARDS: Dict[Tuple[str, str], str] = {}
# markers that occur on the unchanged tree and were read: (kind, name) -> why harmless
OPAQUE_BENIGN = {
    "EXTMETH:category": "device_type.category on the path where the model lookup returned None (guarded by `device_type and`)",
    "EXTMETH:display": "ThermostatMode.display inside the text of the RuntimeError for unsupported modes",
    "OPQ:self._transports.get": "dict.get on the symbolic port->transport map in SwitcherBridge.stop (the value is only tested for truth and closed)",
    "RECV:opq:self._transports.get": "the same value as the receiver of .is_closing()/.close() in SwitcherBridge.stop",
}


def _time_valued(x: Any, depth: int = 0) -> bool:
    """A value of the time / datetime modules: a call into them, or a sum / difference / remainder of such values."""
    if not (isinstance(x, tuple) and x[:1] == ("app",) and len(x) > 1 and isinstance(x[1], str)) or depth > 6:
        return False
    if x[1].startswith(("time.", "datetime.")):
        return True
    return x[1] in ("sub", "add", "mod") and any(_time_valued(y, depth + 1) for y in x[2:])


def opaque_markers(v: Any, acc: set, seen: Optional[set] = None, depth: int = 0) -> None:
    if seen is None:
        seen = set()
    if depth > 80:
        return
    if isinstance(v, tuple):
        if id(v) in seen:
            return
        seen.add(id(v))
        if v and v[0] == "top":
            if not str(v[1]).startswith("never: "):
                # ("never: ..." is the value of an expression that always raises: the path raises at the end of the
                # statement, nothing was approximated)
                acc.add("TOP:" + str(v[1])[:70])
            return
        if len(v) >= 2 and v[0] == "sym" and isinstance(v[1], str) and v[1].startswith("opq:"):
            acc.add("OPQ:" + v[1][4:].split("#")[0][:60])
            return
        if len(v) == 3 and v[0] == "modvar" and v[2] != "logger":
            acc.add("MODVAR:" + str(v[2]))   # a module-level value the analyser could not evaluate
            return
        if len(v) == 3 and v[0] in ("item", "item?") and isinstance(v[1], tuple) and v[1][:1] and v[1][0] in ("mapobj", "filterobj", "lazymap", "top") and not (v[1][0] == "mapobj" and len(v[1]) == 4):
            acc.add("ITEM-OF:" + str(v[1][0]))     # an element of a lazy / unevaluated iterable the analyser could not produce
        if len(v) == 3 and v[0] in ("item", "item?") and isinstance(v[1], tuple) and v[1][:1] == ("sym",) and isinstance(v[1][1], str) and v[1][1].startswith(("builtins.zip(", "builtins.enumerate(", "builtins.reversed(", "itertools.")):
            acc.add("ITEM-OF:" + v[1][1].split("(")[0])   # (the element symbol of an un-evaluated zip / enumerate / itertools object)
        if len(v) == 3 and v[0] in ("item", "item?") and isinstance(v[1], tuple) and v[1][:2] in (("app", "builtins.zip"), ("app", "builtins.enumerate"), ("app", "zip"), ("app", "enumerate")):
            acc.add("ITEM-OF:" + str(v[1][1]))
        if len(v) == 3 and v[0] == "extmeth" and isinstance(v[2], str):
            # a field of a modelled pure value (struct_time.tm_hour, ...) is a projection, not an unknown
            x = v[1]
            # (also through method chains on such a value: datetime.now().astimezone().tzinfo)
            while isinstance(x, tuple) and x[:1] == ("app",) and isinstance(x[1], str) and x[1].startswith(".") and len(x) > 2:
                x = x[2]
            env_obj = isinstance(x, tuple) and len(x) == 3 and x[0] == "sym" and isinstance(x[2], tuple) and x[2][:1] == ("extobj",)
            # (a method of an environment object - the event loop, a transport, a stream - taken as a value is a known
            #  thing, not an unknown of the analysis: calling it is an event like any other call on that object)
            if not _time_valued(x) and not env_obj:
                acc.add("EXTMETH:" + v[2])
        for x in v:
            if isinstance(x, (tuple, Lin, list)):
                opaque_markers(x, acc, seen, depth + 1)
    elif isinstance(v, Lin):
        for t in v.coef:
            opaque_markers(t, acc, seen, depth + 1)
    elif isinstance(v, list):
        for x in v:
            opaque_markers(x, acc, seen, depth + 1)


def is_top(v: Any) -> bool:
    return isinstance(v, tuple) and len(v) > 0 and v[0] == "top"


def contains_top(v: Any) -> Optional[str]:
    """Return the reason of the first ⊤ inside v (deep), else None."""
    if isinstance(v, tuple):
        if len(v) > 0 and v[0] == "top":
            return str(v[1])
        for x in v:
            r = contains_top(x)
            if r:
                return r
    elif isinstance(v, Lin):
        for t in v.coef:
            r = contains_top(t)
            if r:
                return r
    elif isinstance(v, (list,)):
        for x in v:
            r = contains_top(x)
            if r:
                return r
    return None


# results of operations the analyser models only opaquely: a term that contains one of these is *imprecise*
# (a mismatch with a reference form is then "cannot tell", not "differs")
IMPRECISE_APPS = {"join", "slice", "list", "dict", "set", "sorted", "type", "repr", ".index", ".count", "tuple", "enumerate", "zip",
                  "range", "getattr", "any", "all", "min", "max", "sum", ".keys", ".values", ".items", "int.from_bytes", "unhexlify",
                  "field", ".group", "re.match", "re.search", "re.fullmatch", "re.compile", "replace", "halflen"}
IMPRECISE_TAGS = {"mapobj", "filterobj", "map", "item?", "chunks", "extmeth", "elemof", "splitlist", "sorted-elem", "listof"}


def imprecise(v: Any) -> Optional[str]:
    """Reason why a term is only opaquely modelled (deep), else None."""
    if isinstance(v, tuple):
        if len(v) > 1 and v[0] == "app" and v[1] in IMPRECISE_APPS:
            return f"{v[1]}(...) is modelled opaquely"
        if v and v[0] in IMPRECISE_TAGS:
            return f"{v[0]} value is modelled opaquely"
        if len(v) == 3 and v[0] == "sym" and isinstance(v[1], str) and v[1].startswith(("ret:", "opq:")):
            return f"result of the unknown call {v[1][4:]}"
        for x in v:
            r = imprecise(x)
            if r:
                return r
    elif isinstance(v, Lin):
        for t in v.coef:
            r = imprecise(t)
            if r:
                return r
    return None


def sym(name: str, typ: Any = "any") -> Term:
    return ("sym", name, typ)


# ---------------------------------------------------------------------------
# sequences
def seq(kind: str, atoms: Iterable[Term]) -> Term:
    return ("seq", kind, normalise_atoms(tuple(atoms)))


def is_seq(v: Any) -> bool:
    return isinstance(v, tuple) and len(v) == 3 and v[0] == "seq"


def normalise_atoms(atoms: Tuple[Term, ...]) -> Tuple[Term, ...]:
    out: List[Term] = []
    for a in atoms:
        if a[0] == "L" and a[1] == "":
            continue
        if a[0] == "rep" and is_c(a[2]) and isinstance(a[2][1], int):
            a = ("L", a[1] * max(0, a[2][1]))
            if a[1] == "":
                continue
        elif a[0] == "rep" and len(a[1]) > 1 and len(set(a[1])) == 1:
            # "00" * k and "0" * (2 * k) are the same text: the unit is one character
            a = ("rep", a[1][0], Lin.of(a[2]).scale(len(a[1])).term())
        if out:
            p = out[-1]
            if p[0] == "L" and a[0] == "L":
                out[-1] = ("L", p[1] + a[1])
                continue
            if p[0] in ("hx", "HX") and a[0] == p[0] and p[1] == a[1] and p[3] is not None and p[3] == a[2]:
                out[-1] = (p[0], p[1], p[2], a[3])
                continue
            if p[0] == "sub" and a[0] == "sub" and p[1] == a[1] and p[3] is not None and p[3] == a[2]:
                out[-1] = ("sub", p[1], p[2], a[3])
                continue
        out.append(a)
    return tuple(out)


def to_seq(v: Term, want: Optional[str] = None) -> Optional[Term]:
    """View a value as a sequence, or None."""
    if is_seq(v):
        return v
    if is_c(v):
        if isinstance(v[1], str):
            return ("seq", "s", (("L", v[1]),) if v[1] else ())
        if isinstance(v[1], bytes):
            if any(b >= 0x80 for b in v[1]):
                # not text: a raw byte string, kept as its hex nibbles like every other raw value
                return ("seq", "raw", (("L", v[1].hex()),))
            return ("seq", "b", (("L", v[1].decode("latin-1")),) if v[1] else ())
    if isinstance(v, tuple) and v and v[0] == "sym":
        t = v[2]
        if t == "str" or t == "hex" or (isinstance(t, tuple) and t and t[0] == "hexw"):
            return ("seq", "s", (("whole", v),))
        if t == "bytes" or (isinstance(t, tuple) and t and t[0] == "bytesr"):
            return ("seq", "raw", (("hx", v, 0, None),))
        if t == "hexbytes" or (isinstance(t, tuple) and t and t[0] == "hexbw"):
            return ("seq", "b", (("whole", v),))
    if isinstance(v, tuple) and v and v[0] in ("eattr", "txtterm", "lookup"):
        return ("seq", "s", (("txt", v),))
    return None


def atom_width(a: Term) -> Optional[Lin]:
    t = a[0]
    if t == "L":
        return Lin.of(len(a[1]))
    if t in ("hx", "HX"):
        lo, hi = a[2], a[3]
        if hi is not None and hi >= 0 and lo >= 0:
            return Lin.of(max(0, hi - lo))
        if hi is None and lo >= 0:
            return Lin({("len", a[1]): 2}, -lo)
        if hi is not None and hi < 0 and lo >= 0:
            return Lin({("len", a[1]): 2}, hi - lo)
        return None
    if t == "hbi":
        return Lin.of(2)
    if t == "hni":
        return Lin.of(1)
    if t == "hexof":
        return Lin({("len", a[1]): 2}, 0)
    if t == "sub":
        lo, hi = a[2], a[3]
        w = sym_width(a[1])
        if hi is not None and hi >= 0 and lo >= 0:
            return Lin.of(max(0, hi - lo))
        if hi is None and lo >= 0:
            if w is not None:
                return Lin.of(max(0, w - lo))
            return Lin({("len", a[1]): 1}, -lo)
        if hi is not None and hi < 0 and lo >= 0:
            if w is not None:
                return Lin.of(max(0, w + hi - lo))
            return Lin({("len", a[1]): 1}, hi - lo)
        return None
    if t == "whole":
        w = sym_width(a[1])
        if w is not None:
            return Lin.of(w)
        return Lin({("len", a[1]): 1}, 0)
    if t == "fmt":
        w = fmt_fixed_width(a[1], a[2])
        if w is not None:
            return Lin.of(w)
        return Lin({("len", a): 1}, 0)
    if t == "rep":
        return Lin.of(a[2]).scale(len(a[1]))
    if t == "txt":
        w = txt_width(a[1])
        if w is not None:
            return Lin.of(w)
        return Lin({("len", a[1]): 1}, 0)
    if t == "alt":
        wa, wb = seq_width(a[2]), seq_width(a[3])
        if wa is not None and wb is not None and wa == wb:
            return wa
        return None
    if t in ("upper", "lower"):
        return atom_width(a[1])
    if t == "sig":
        return Lin.of(8)
    if t == "padded":
        return Lin.of(a[3])
    return None


def txt_width(x: Term) -> Optional[int]:
    if isinstance(x, tuple) and x and x[0] == "lookup":
        ws = {len(v[1]) for _, v in x[1] if is_c(v) and isinstance(v[1], str)}
        if len(ws) == 1 and all(is_c(v) and isinstance(v[1], str) for _, v in x[1]):
            return ws.pop()
        return None
    if isinstance(x, tuple) and x and x[0] == "eattr":
        alts = x[3] if len(x) > 3 else None
        if alts:
            ws = {len(str(v)) for v in alts}
            if len(ws) == 1:
                return ws.pop()
    return None


def sym_width(s: Term) -> Optional[int]:
    if isinstance(s, tuple) and s and s[0] == "sym":
        t = s[2]
        if isinstance(t, tuple) and t and t[0] in ("hexw", "hexbw"):
            return int(t[1])
    return None


def fmt_fixed_width(spec: str, val: Term) -> Optional[int]:
    """Width of format(val, spec) when it is provably fixed, else None."""
    import re

    m = re.fullmatch(r"(0?)(\d*)([xXdb]?)", spec)
    if not m:
        return None
    zero, width, conv = m.groups()
    rng = int_range(val)
    if rng is None or rng[0] is None or rng[1] is None:
        return None
    lo, hi = rng
    if lo < 0:
        return None
    base = {"x": 16, "X": 16, "d": 10, "": 10, "b": 2}[conv]

    def ndig(n: int) -> int:
        k = 1
        while n >= base:
            n //= base
            k += 1
        return k

    wmin, wmax = ndig(lo), ndig(hi)
    w = int(width) if width else 0
    wmin, wmax = max(wmin, w), max(wmax, w)
    if wmin == wmax:
        return wmin
    return None


def int_range(v: Term) -> Optional[Tuple[Optional[int], Optional[int]]]:
    """Interval of an int term, from constants and declared symbol ranges."""
    if is_c(v) and isinstance(v[1], int):
        return (v[1], v[1])
    if isinstance(v, tuple) and v and v[0] == "sym":
        t = v[2]
        if isinstance(t, tuple) and t and t[0] == "int":
            return (t[1], t[2])
        return None
    if isinstance(v, tuple) and v and v[0] == "uint":
        w = seq_width(("seq", "s", v[1]))
        if w is not None and w.is_const():
            return (0, 16 ** int(w.const) - 1)
        return (0, None)
    if isinstance(v, tuple) and v and v[0] == "len":
        x = v[1]
        if isinstance(x, tuple) and x and x[0] == "sym" and isinstance(x[2], tuple) and x[2] and x[2][0] == "bytesr":
            return (x[2][1], x[2][2])
        if is_seq(x):
            # the length of a text / byte string made of bounded pieces: each hx[lo:hi] piece has at most hi-lo characters
            hi_ = 0
            for a in x[2]:
                if isinstance(a, tuple) and a and a[0] == "L":
                    hi_ += len(a[1])
                elif isinstance(a, tuple) and len(a) == 4 and a[0] in ("hx", "HX") and isinstance(a[2], int) and isinstance(a[3], int) and 0 <= a[2] <= a[3]:
                    hi_ += a[3] - a[2]
                else:
                    w_ = atom_width(a)
                    if w_ is not None and w_.is_const():
                        hi_ += int(w_.const)
                    else:
                        return (0, None)
            return (0, hi_ // 2 if x[1] == "raw" else hi_)
        return (0, None)
    if isinstance(v, tuple) and len(v) == 4 and v[0] == "ite":
        ra, rb = int_range(v[2]), int_range(v[3])
        if ra is None or rb is None:
            return None
        return (None if ra[0] is None or rb[0] is None else min(ra[0], rb[0]), None if ra[1] is None or rb[1] is None else max(ra[1], rb[1]))
    if isinstance(v, tuple) and v and v[0] == "lin":
        lo: Optional[float] = v[1].const
        hi: Optional[float] = v[1].const
        for t, k in v[1].coef.items():
            r = int_range(t)
            if r is None:
                return None
            a, b = r
            if k >= 0:
                lo = None if (lo is None or a is None) else lo + k * a
                hi = None if (hi is None or b is None) else hi + k * b
            else:
                lo = None if (lo is None or b is None) else lo + k * b
                hi = None if (hi is None or a is None) else hi + k * a
        return (lo, hi)  # type: ignore[return-value]
    if isinstance(v, tuple) and v and v[0] == "app" and v[1] in ("crc_hqx", "binascii.crc_hqx"):
        return (0, 65535)
    if isinstance(v, tuple) and v and v[0] == "app" and v[1] in ("add", "sub") and len(v) == 4:
        ra, rb = int_range(v[2]), int_range(v[3])
        if ra is not None and rb is not None and None not in ra and None not in rb:
            return (ra[0] + rb[0], ra[1] + rb[1]) if v[1] == "add" else (ra[0] - rb[1], ra[1] - rb[0])
        return None
    if isinstance(v, tuple) and v and v[0] == "eattr" and len(v) > 3 and v[3] and all(isinstance(a, int) and not isinstance(a, bool) for a in v[3]):
        return (min(v[3]), max(v[3]))    # an integer attribute of an enum member: one of the table's values
    if isinstance(v, tuple) and v and v[0] == "app" and v[1] == "and" and len(v) == 4:
        # x & M with a constant M >= 0 lies in [0, M] for every integer x (two's complement)
        ms = [x[1] for x in v[2:] if is_c(x) and isinstance(x[1], int) and not isinstance(x[1], bool) and x[1] >= 0]
        if ms:
            return (0, min(ms))
        return None
    if isinstance(v, tuple) and v and v[0] == "app" and v[1] == ".bit_length" and len(v) == 3:
        r = int_range(v[2])
        if r is not None and r[0] is not None and r[1] is not None and r[0] >= 0:
            return (int(r[0]).bit_length(), int(r[1]).bit_length())
        return (0, None)
    if isinstance(v, tuple) and v and v[0] == "app" and v[1] in ("mod", "floordiv") and len(v) == 4 and is_c(v[3]) and isinstance(v[3][1], int) and v[3][1] > 0:
        r = int_range(v[2])
        if v[1] == "mod" and r is not None:
            return (0, v[3][1] - 1)
        if v[1] == "floordiv" and r is not None and r[0] is not None and r[1] is not None:
            return (r[0] // v[3][1], r[1] // v[3][1])
    if isinstance(v, tuple) and v and v[0] == "eattr":
        alts = v[3] if len(v) > 3 else None
        if alts and all(isinstance(a, int) for a in alts):
            return (min(alts), max(alts))
    if isinstance(v, tuple) and v and v[0] == "app" and v[1] == "int" and len(v) == 3:
        return int_range(v[2])
    if isinstance(v, tuple) and v and v[0] == "app" and v[1] == "sum" and len(v) == 3:
        m = v[2]
        # sum over a *set* (duplicate-free by type) of an int attribute of distinct enum members
        if isinstance(m, tuple) and m and m[0] == "map" and isinstance(m[1], tuple) and m[1][0] == "eattr":
            it = m[2]
            alts = m[1][3] if len(m[1]) > 3 else None
            if (alts and all(isinstance(a, int) and a >= 0 for a in alts)
                    and isinstance(it, tuple) and it[0] == "sym" and isinstance(it[2], tuple) and it[2][0] == "set"
                    and m[1][1] == ("sym", "$e", it[2][1])):
                return (0, sum(alts))
    return None


def seq_width(s: Term) -> Optional[Lin]:
    w = Lin.of(0)
    for a in s[2]:
        aw = atom_width(a)
        if aw is None:
            return None
        w = w + aw
    return w


def const_width(s: Term) -> Optional[int]:
    w = seq_width(s)
    if w is not None and w.is_const():
        return int(w.const)
    return None


def concat(a: Term, b: Term) -> Term:
    sa, sb = to_seq(a), to_seq(b)
    if sa is None or sb is None:
        return top(f"concat of non-sequence {show(a)} + {show(b)}")
    ka, kb = sa[1], sb[1]
    kind = ka
    if ka != kb:
        if {ka, kb} == {"b", "s"}:
            # python would raise TypeError; literals are coerced (bytes literal vs hex text)
            kind = "b" if "b" in (ka, kb) else "s"
        elif "raw" in (ka, kb):
            other = sb if ka == "raw" else sa
            conv = text_to_raw(other)
            if conv is None:
                return top("concat raw with symbolic text")
            if ka == "raw":
                sb = conv
            else:
                sa = conv
            kind = "raw"
    return seq(kind, sa[2] + sb[2])


def text_to_raw(s: Term) -> Optional[Term]:
    """ASCII text sequence -> raw bytes (represented by hex of each char)."""
    out: List[Term] = []
    for a in s[2]:
        if a[0] == "L":
            out.append(("L", a[1].encode("utf-8").hex()))
        else:
            out.append(("hexof", ("ascii", a)))
    return seq("raw", out)


def slice_atom(a: Term, lo: int, hi: int) -> Optional[List[Term]]:
    """Characters [lo,hi) of an atom whose constant width covers them."""
    t = a[0]
    if t == "L":
        return [("L", a[1][lo:hi])]
    if t in ("hx", "HX"):
        return [(t, a[1], a[2] + lo, a[2] + hi)]
    if t == "hbi":
        if lo == 0 and hi == 2:
            return [a]
        if hi - lo == 1:
            return [("hni", a[1], a[2], lo)]
        return []
    if t == "hni":
        return [a] if hi > lo else []
    if t == "sub":
        return [("sub", a[1], a[2] + lo, a[2] + hi)]
    if t == "whole":
        return [("sub", a[1], lo, hi)]
    if t == "rep":
        n = len(a[1])
        if n == 1:
            return [("L", a[1] * (hi - lo))]
        return None
    if t == "fmt":
        w = fmt_fixed_width(a[1], a[2])
        if w is not None and lo == 0 and hi == w:
            return [a]
        return [("sub", ("txtterm", a), lo, hi)]
    if t == "txt":
        return [("sub", a[1], lo, hi)]
    if t in ("upper", "lower"):
        inner = slice_atom(a[1], lo, hi)
        if inner is None:
            return None
        return [(t, x) if x[0] != "L" else ("L", x[1].upper() if t == "upper" else x[1].lower()) for x in inner]
    return None


def slice_seq(s: Term, lo: Optional[int], hi: Optional[int]) -> Term:
    """s[lo:hi] with constant bounds, in *characters of the text representation*.

    For kind 'raw' the caller passes byte indices; they are doubled here.
    """
    kind = s[1]
    atoms = s[2]
    if kind == "raw":
        lo = None if lo is None else lo * 2
        hi = None if hi is None else hi * 2
    lo = 0 if lo is None else lo
    if lo < 0:
        return _slice_from_end(s, lo, hi)
    # single open-ended source: stay symbolic
    out: List[Term] = []
    pos = 0
    skip: set = set()
    for i, a in enumerate(atoms):
        if id(a) in skip:
            continue
        if hi is not None and hi >= 0 and pos >= hi:
            break
        aw = atom_width(a)
        if aw is None:
            return top("slice over atom of unknown width")
        if not aw.is_const():
            # a run of variable-width atoms whose widths add up to a constant is one fixed-width unit
            gw = aw
            j = i + 1
            while not gw.is_const() and j < len(atoms):
                nw = atom_width(atoms[j])
                if nw is None:
                    break
                gw = gw + nw
                j += 1
            if gw.is_const() and j > i + 1 and id(a) not in skip:
                gwc = int(gw.const)
                g_lo, g_hi = pos, pos + gwc
                end = hi if (hi is not None and hi >= 0) else None
                if lo <= g_lo and (end is None or end >= g_hi):
                    out.extend(atoms[i:j])
                    for x in atoms[i + 1:j]:
                        skip.add(id(x))
                    pos = g_hi
                    skipn = j - i - 1
                    continue_group = True
                elif g_hi <= lo or (end is not None and end <= g_lo):
                    for x in atoms[i + 1:j]:
                        skip.add(id(x))
                    pos = g_hi
                    continue_group = True
                else:
                    return top(f"slice cuts through the variable-width group starting at {show_atom(a)}")
                if continue_group:
                    continue
            if hi is None and lo <= pos:
                out.extend(x for x in atoms[i:] if id(x) not in skip)
                return seq(kind, out)
            # variable-width atom: only sliceable if it is the atom that holds the range start..end
            if a[0] in ("hx", "HX") and a[3] is None or (a[0] in ("hx", "HX") and a[3] is not None and a[3] < 0):
                rel_lo = max(0, lo - pos)
                if hi is None:
                    na = (a[0], a[1], a[2] + rel_lo, a[3])
                    out.append(na)
                    out.extend(atoms[i + 1:])
                    return seq(kind, out)
                if hi < 0:
                    if i != len(atoms) - 1:
                        return top("negative slice end over several atoms")
                    base_end = a[3] if a[3] is not None else 0
                    out.append((a[0], a[1], a[2] + rel_lo, base_end + hi))
                    return seq(kind, out)
                rel_hi = hi - pos
                if rel_hi <= rel_lo:
                    return seq(kind, out)
                # assumes the source is long enough (recorded by callers as an assumption)
                out.append((a[0], a[1], a[2] + rel_lo, a[2] + rel_hi))
                return seq(kind, out)
            if a[0] in ("whole", "sub", "txt") and (a[0] != "sub" or a[3] is None):
                base = a[1]
                off = a[2] if a[0] == "sub" else 0
                rel_lo = max(0, lo - pos)
                if hi is None:
                    out.append(("sub", base, off + rel_lo, None))
                    out.extend(atoms[i + 1:])
                    return seq(kind, out)
                if hi < 0:
                    if i != len(atoms) - 1:
                        return top("negative slice end over several atoms")
                    out.append(("sub", base, off + rel_lo, hi))
                    return seq(kind, out)
                rel_hi = hi - pos
                if rel_hi <= rel_lo:
                    return seq(kind, out)
                out.append(("sub", base, off + rel_lo, off + rel_hi))
                return seq(kind, out)
            return top(f"slice across variable-width atom {show_atom(a)}")
        w = int(aw.const)
        a_lo, a_hi = pos, pos + w
        pos = a_hi
        if hi is not None and hi >= 0 and a_lo >= hi:
            break
        if a_hi <= lo:
            continue
        s_lo = max(lo, a_lo) - a_lo
        s_hi = (min(hi, a_hi) if (hi is not None and hi >= 0) else a_hi) - a_lo
        if s_lo == 0 and s_hi == w:
            out.append(a)
        else:
            sub = slice_atom(a, s_lo, s_hi)
            if sub is None:
                return top(f"cannot slice atom {show_atom(a)}")
            out.extend(sub)
    if hi is not None and hi < 0:
        # all atoms constant width: resolve the negative end
        total = const_width(s)
        if total is None:
            return top("negative slice end on unknown width")
        return slice_seq(("seq", "s" if kind == "raw" else kind, atoms), lo, total + hi) if kind != "raw" else \
            ("seq", "raw", slice_seq(("seq", "s", atoms), lo, total + hi)[2])
    return seq(kind, out)


def _slice_from_end(s: Term, lo: int, hi: Optional[int]) -> Term:
    total = const_width(s)
    if total is None:
        return top("negative slice start on unknown width")
    k = "s" if s[1] == "raw" else s[1]
    r = slice_seq(("seq", k, s[2]), max(0, total + lo), hi if (hi is None or hi >= 0) else total + hi)
    if is_top(r):
        return r
    return ("seq", s[1], r[2])


def is_hex_atom(a: Term) -> bool:
    t = a[0]
    if t == "L":
        return all(ch in HEXDIGITS_ANY for ch in a[1])
    if t in ("hx", "HX", "hbi", "hni", "hexof", "sig"):
        return True
    if t == "padded":
        return is_hex_atom(a[2]) and a[4] in HEXDIGITS_ANY
    if t == "alt":
        return all(is_hex_atom(x) for x in a[2][2]) and all(is_hex_atom(x) for x in a[3][2])
    if t in ("upper", "lower"):
        return is_hex_atom(a[1])
    if t in ("sub", "whole"):
        s = a[1]
        if isinstance(s, tuple) and s and s[0] == "sym":
            ty = s[2]
            return ty in ("hex", "hexbytes") or (isinstance(ty, tuple) and ty and ty[0] in ("hexw", "hexbw"))
        return False
    if t == "fmt":
        return a[1].endswith("x") or a[1].endswith("X") or ((a[1].endswith("d") or a[1] == "" or a[1].isdigit()) and True)
    if t == "rep":
        return all(ch in HEXDIGITS_ANY for ch in a[1])
    if t == "txt":
        x = a[1]
        if isinstance(x, tuple) and x and x[0] == "eattr" and len(x) > 3 and x[3]:
            return all(all(ch in HEXDIGITS_ANY for ch in str(v)) for v in x[3])
        if isinstance(x, tuple) and x and x[0] == "lookup":
            return all(is_c(v) and isinstance(v[1], str) and all(ch in HEXDIGITS_ANY for ch in v[1]) for _, v in x[1])
    return False


def upper_atoms(atoms: Tuple[Term, ...]) -> Optional[Tuple[Term, ...]]:
    out = []
    for a in atoms:
        if a[0] == "L":
            out.append(("L", a[1].upper()))
        elif a[0] == "hx":
            out.append(("HX",) + a[1:])
        elif a[0] == "HX":
            out.append(a)
        else:
            out.append(("upper", a))
    return tuple(out)


def _lowercase_known(a: Term) -> bool:
    t = a[0]
    if t in ("hx", "hbi", "hni", "hexof", "sig", "lower"):
        return True
    if t == "padded":
        return _lowercase_known(a[2])
    if t == "fmt":
        return not a[1].endswith("X")
    if t == "rep":
        return a[1] == a[1].lower()
    if t == "alt":
        return all(_lowercase_known(x) or x[0] == "L" and x[1] == x[1].lower() for x in a[2][2] + a[3][2])
    return False


def lower_atoms(atoms: Tuple[Term, ...]) -> Tuple[Term, ...]:
    out = []
    for a in atoms:
        if a[0] == "L":
            out.append(("L", a[1].lower()))
        elif a[0] == "HX":
            out.append(("hx",) + a[1:])
        elif a[0] == "upper":
            out.extend(lower_atoms((a[1],)))
        elif _lowercase_known(a):
            out.append(a)
        else:
            out.append(("lower", a))
    return tuple(out)


def strip_case(atoms: Tuple[Term, ...]) -> Tuple[Term, ...]:
    """Canonical atoms for the *byte values* of hex text (case is irrelevant)."""
    out = []
    for a in atoms:
        if a[0] == "L":
            out.append(("L", a[1].lower()))
        elif a[0] == "HX":
            out.append(("hx",) + a[1:])
        elif a[0] in ("upper", "lower"):
            out.extend(strip_case((a[1],)))
        else:
            out.append(a)
    return normalise_atoms(tuple(out))


# ---------------------------------------------------------------------------
# nibble view: turn hex atoms into a list of single-nibble designators
def nibbles_of(atoms: Tuple[Term, ...]) -> Optional[List[Term]]:
    """List of nibble designators, or None if some atom has non-constant width.

    ('n', src, i)        nibble i of hexlify(src)
    ('ni', I, k, half)   nibble of byte k of int I
    ('lit', d)           literal hex digit
    """
    out: List[Term] = []
    for a in atoms:
        t = a[0]
        if t == "L":
            for ch in a[1]:
                if ch not in HEXDIGITS_ANY:
                    return None
                out.append(("lit", ch.lower()))
        elif t in ("hx", "HX"):
            if a[3] is None or a[3] < 0 or a[2] < 0:
                return None
            for i in range(a[2], a[3]):
                out.append(("n", a[1], i))
        elif t == "hbi":
            out.append(("ni", a[1], a[2], 0))
            out.append(("ni", a[1], a[2], 1))
        elif t == "hni":
            out.append(("ni", a[1], a[2], a[3]))
        elif t == "sub" and a[3] is not None and a[3] >= 0:
            for i in range(a[2], a[3]):
                out.append(("n", ("text", a[1]), i))
        elif t == "whole" and sym_width(a[1]) is not None:
            for i in range(sym_width(a[1]) or 0):
                out.append(("n", ("text", a[1]), i))
        elif t == "fmt":
            w = fmt_fixed_width(a[1], a[2])
            if w is None:
                return None
            for i in range(w):
                out.append(("nf", a, i))
        else:
            return None
    return out


def uint_of(atoms: Tuple[Term, ...]) -> Term:
    """int(<hex text>, 16) as a term (case-insensitive)."""
    return ("uint", strip_case(atoms))


def byte_of_int(I: Term, k: int, nbytes: int) -> Optional[List[Term]]:
    """Hex atoms (2 nibbles) of byte k (0 = LSB) of int term I, when derivable."""
    if I[0] == "c" and isinstance(I[1], int):
        return [("L", "%02x" % ((I[1] >> (8 * k)) & 0xFF))]
    if I[0] == "uint":
        nibs = nibbles_of(I[1])
        if nibs is not None:
            n = len(nibs)
            # pad to even on the left
            hi_idx = n - 2 * k - 2
            lo_idx = n - 2 * k - 1
            res: List[Term] = []
            for idx in (hi_idx, lo_idx):
                if idx < 0:
                    res.append(("L", "0"))
                else:
                    res.append(nib_to_atom(nibs[idx]))
            return list(normalise_atoms(tuple(res)))
    return [("hbi", I, k)]


def nib_to_atom(n: Term) -> Term:
    if n[0] == "lit":
        return ("L", n[1])
    if n[0] == "n":
        src = n[1]
        if isinstance(src, tuple) and src and src[0] == "text":
            return ("sub", src[1], n[2], n[2] + 1)
        return ("hx", src, n[2], n[2] + 1)
    if n[0] == "ni":
        return ("hni", n[1], n[2], n[3])
    if n[0] == "nf":
        return ("sub", ("txtterm", n[1]), n[2], n[2] + 1)
    raise ValueError(n)


# ---------------------------------------------------------------------------
# pretty printer (used in evidence and messages)
def show_atom(a: Term) -> str:
    t = a[0]
    if t == "L":
        s = a[1]
        if len(s) > 24 and set(s) == {"0"}:
            return f"'0'*{len(s)}"
        return repr(s)
    if t in ("hx", "HX"):
        up = "^" if t == "HX" else ""
        return f"{up}hex({show(a[1])})[{a[2]}:{'' if a[3] is None else a[3]}]"
    if t == "hbi":
        return f"hexbyte{a[2]}({show(a[1])})"
    if t == "hni":
        return f"hexnib{a[2]}.{a[3]}({show(a[1])})"
    if t == "hexof":
        return f"hexlify({show(a[1])})"
    if t == "sub":
        return f"{show(a[1])}[{a[2]}:{'' if a[3] is None else a[3]}]"
    if t == "whole":
        return show(a[1])
    if t == "fmt":
        return f"format({show(a[2])},{a[1]!r})"
    if t == "rep":
        return f"{a[1]!r}*({show(a[2])})"
    if t == "txt":
        return f"text({show(a[1])})"
    if t in ("upper", "lower"):
        return f"{t}({show_atom(a[1])})"
    if t == "alt":
        return f"alt({show(a[1])} ? {show(a[2])} : {show(a[3])})"
    if t == "sig":
        return "SIG(<all preceding nibbles>)"
    if t == "padded":
        return f"{a[1]}({show_atom(a[2])},{a[3]},{a[4]!r})"
    return repr(a)


def show(v: Any) -> str:
    if isinstance(v, Lin):
        return repr(v)
    if not isinstance(v, tuple) or not v:
        return repr(v)
    t = v[0]
    if t == "c":
        return repr(v[1])
    if t == "sym":
        return str(v[1])
    if t == "seq":
        pre = {"s": "", "b": "b", "raw": "unhex"}[v[1]]
        return pre + "<" + " ".join(show_atom(a) for a in v[2]) + ">"
    if t == "uint":
        return "uint16be<" + " ".join(show_atom(a) for a in v[1]) + ">"
    if t == "lin":
        return "(" + repr(v[1]) + ")"
    if t == "app":
        return f"{v[1]}(" + ", ".join(show(x) for x in v[2:]) + ")"
    if t == "ite":
        return f"ite({show(v[1])}, {show(v[2])}, {show(v[3])})"
    if t == "cmp":
        return f"({show(v[2])} {v[1]} {show(v[3])})"
    if t in ("and", "or"):
        return "(" + f" {t} ".join(show(x) for x in v[1:]) + ")"
    if t == "not":
        return f"not {show(v[1])}"
    if t == "truthy":
        return f"bool({show(v[1])})"
    if t == "len":
        return f"len({show(v[1])})"
    if t == "enum":
        return repr(v[1])
    if t == "eattr":
        return f"{show(v[1])}.{v[2]}"
    if t == "attr":
        return f"{show(v[1])}.{v[2]}"
    if t == "obj":
        return f"obj#{v[1]}"
    if t == "tuple":
        return "(" + ", ".join(show(x) for x in v[1]) + ")"
    if t == "top":
        return f"TOP[{v[1]}]"
    if t == "ext":
        return f"<{v[1]}>"
    if t in ("class", "func", "module"):
        return f"<{t} {getattr(v[1], 'key', getattr(v[1], 'name', '?'))}>"
    if t == "bound":
        return f"<bound {v[2].key}>"
    if t in ("lambda", "partialobj"):
        return f"<{t}>"
    if t == "builtin":
        return f"<builtin {v[1]}>"
    return "(" + " ".join(show(x) if isinstance(x, (tuple, Lin)) else repr(x) for x in v) + ")"
