"""Obligations, verdicts, evidence files, known findings, exit codes."""
from __future__ import annotations

import json
import os
import sys
import time
from dataclasses import dataclass, field
from typing import Any, Dict, List, Optional

VERIF = os.path.dirname(os.path.dirname(os.path.abspath(__file__)))
EVIDENCE_DIR = os.environ.get("SA_EVIDENCE_DIR", os.path.join(VERIF, "evidence"))
KNOWN_FINDINGS = os.path.join(VERIF, "known_findings.json")

DISCHARGED, VIOLATED, UNDECIDED = "DISCHARGED", "VIOLATED", "UNDECIDED"


@dataclass
class Obligation:
    rule: str
    instance: str
    where: str
    verdict: str
    why: str = ""
    key: str = ""
    detail: Dict[str, Any] = field(default_factory=dict)

    def as_dict(self) -> Dict[str, Any]:
        d = {
            "rule": self.rule,
            "instance": self.instance,
            "where": self.where,
            "verdict": self.verdict,
        }
        if self.why:
            d["why"] = self.why
        if self.key:
            d["key"] = self.key
        if self.detail:
            d["detail"] = self.detail
        return d


class Report:
    def __init__(self, prop: str, tier: str, level: str):
        self.prop = prop
        self.tier = tier
        self.level = level
        self.obligations: List[Obligation] = []
        self.floors: Dict[str, int] = {}
        self.analysed: Dict[str, Any] = {}
        self.samples: List[Any] = []
        self.assumptions: List[str] = []
        self.trusted: List[str] = []
        self.notes: List[str] = []
        self.explanation = ""
        self.rules: Dict[str, str] = {}
        self.t0 = time.time()
        self.extra: Dict[str, Any] = {}
        self.structural: set = set()

    # ------------------------------------------------------------------
    def rule(self, rid: str, text: str, floor: int = 1, structural: bool = False) -> None:
        """structural=True: the rule reads the syntax tree / folded tables only, never interpreted values, so it
        stays decisive even when the interpreter met values it does not model."""
        self.rules[rid] = text
        self.floors[rid] = floor
        if structural:
            self.structural.add(rid)

    def ok(self, rule: str, instance: str, where: str, why: str = "", **detail: Any) -> None:
        self.obligations.append(Obligation(rule, instance, where, DISCHARGED, why, "", detail))

    def bad(self, rule: str, instance: str, where: str, why: str, key: str = "", **detail: Any) -> None:
        k = key or f"{rule}|{_strip_line(where)}|{instance}"
        self.obligations.append(Obligation(rule, instance, where, VIOLATED, why, k, detail))

    def undecided(self, rule: str, instance: str, where: str, why: str, **detail: Any) -> None:
        self.obligations.append(Obligation(rule, instance, where, UNDECIDED, why, "", detail))

    def check(self, cond: Optional[bool], rule: str, instance: str, where: str, why_bad: str, why_ok: str = "", **detail: Any) -> bool:
        if cond is None:
            self.undecided(rule, instance, where, why_bad, **detail)
            return False
        if cond:
            self.ok(rule, instance, where, why_ok, **detail)
            return True
        self.bad(rule, instance, where, why_bad, **detail)
        return False

    def check_term(self, equal: bool, derived: Any, rule: str, instance: str, where: str, why_bad: str, why_ok: str = "", **detail: Any) -> bool:
        """Verdict of comparing a derived term with a reference form: a mismatch of a term the analyser
        modelled only opaquely (or not at all) is UNDECIDED, never a violation."""
        from . import terms as T

        if equal:
            self.ok(rule, instance, where, why_ok, **detail)
            return True
        reason = T.contains_top(derived) or T.imprecise(derived)
        if reason:
            self.undecided(rule, instance, where, f"the analyser cannot decide this instance ({reason}); derived: {T.show(derived)[:200]}", **detail)
            return False
        self.bad(rule, instance, where, why_bad, **detail)
        return False

    def sample(self, s: Any) -> None:
        if len(self.samples) < 12:
            self.samples.append(s)

    def note(self, s: str) -> None:
        self.notes.append(s)

    # ------------------------------------------------------------------
    def finish(self, seed: int = 0) -> int:
        # vacuity floors
        counts: Dict[str, int] = {}
        for o in self.obligations:
            counts[o.rule] = counts.get(o.rule, 0) + 1
        for rid, floor in self.floors.items():
            if counts.get(rid, 0) < floor:
                self.undecided(
                    rid,
                    "vacuity-floor",
                    "-",
                    f"rule matched {counts.get(rid, 0)} instances, expected at least {floor}: the rule lost its subject",
                )
        # imprecision policy: while the interpreter's outcomes contain values it has no model for (results of
        # unknown calls, TOP, ...), a mismatch found by a value-based rule is "cannot decide", not a violation
        from . import terms as T

        opaque = {m: v for m, v in T.OPAQUE_SEEN.items() if not any(m == b or m.startswith(b) for b in T.OPAQUE_BENIGN)}
        if opaque:
            what = "; ".join(f"{m} (in {fn})" for m, (n, fn) in sorted(opaque.items())[:6])
            for o in self.obligations:
                if o.verdict == VIOLATED and o.rule not in self.structural:
                    o.verdict = UNDECIDED
                    o.why = f"not decided - the analysis met values it does not model [{what}], so this mismatch may be the analyser's, not the code's. Finding as derived: {o.why}"
            self.notes.append(f"opaque values in analysed outcomes: {what}")
        # hazards named by the interpreter (see terms.HAZARDS)
        shared = [(what, why) for (kind, what), why in sorted(T.HAZARDS.items()) if kind == "SHARED"]
        if shared:
            # the shared container was analysed as "content unknown": value-based mismatches derived from it are the
            # analyser's; the sharing itself is reported below (as a violation by properties that claim per-instance state)
            for o in self.obligations:
                if o.verdict == VIOLATED and o.rule not in self.structural:
                    o.verdict = UNDECIDED
                    o.why = f"not decided - derived with a class-level container shared by all instances ({shared[0][0]}) whose content is unknown to the analysis. Finding as derived: {o.why}"
        for (kind, what), why in sorted(T.HAZARDS.items()):
            if kind == "ONESHOT":
                # a defect whatever the property: state shared between calls that the first call destroys
                self.rules.setdefault("ENGINE-ONESHOT", "no function on the analysed paths consumes a module-level or class-level one-shot iterator")
                self.structural.add("ENGINE-ONESHOT")
                self.obligations.append(Obligation("ENGINE-ONESHOT", what, what, VIOLATED, why, f"ENGINE-ONESHOT|{what}", {}))
            elif kind == "SHARED" and getattr(self, "claims_instance_state", None):
                rid = self.claims_instance_state
                self.structural.add(rid)
                self.obligations.append(Obligation(rid, what, what, VIOLATED, why, f"{rid}|shared|{what}", {}))
            elif kind == "SHARED" and not any(o.verdict == VIOLATED for o in self.obligations):
                # the analysis starts every call from "whatever is in there": sound, but the values then depend on other
                # instances; a rule that claims per-instance state reports it itself (C15 R15.6)
                self.rules.setdefault("ENGINE-SHARED", "no class-level container that is mutated in place is read on the analysed paths unless a rule of this property judges the sharing")
                self.obligations.append(Obligation("ENGINE-SHARED", what, what, UNDECIDED, why, "", {}))
            elif kind == "CACHED" and not any(o.verdict == VIOLATED for o in self.obligations):
                self.rules.setdefault("ENGINE-CACHED", "no memoised repository function is inlined unless a rule of this property judges the memoisation")
                self.obligations.append(Obligation("ENGINE-CACHED", what, what, UNDECIDED, why, "", {}))
        known = load_known()
        viol = [o for o in self.obligations if o.verdict == VIOLATED]
        und = [o for o in self.obligations if o.verdict == UNDECIDED]
        new_viol = []
        known_hit = []
        for o in viol:
            kf = match_known(known, self.prop, o)
            if kf is not None:
                known_hit.append((o, kf))
            else:
                new_viol.append(o)
        os.makedirs(EVIDENCE_DIR, exist_ok=True)
        vdir = os.path.join(EVIDENCE_DIR, "violations")
        replay_paths = []
        if new_viol:
            os.makedirs(vdir, exist_ok=True)
            for k, o in enumerate(new_viol):
                pth = os.path.join(vdir, f"{self.prop}-{k}.json")
                with open(pth, "w") as fh:
                    json.dump({"property": self.prop, "obligation": o.as_dict(), "rule_text": self.rules.get(o.rule, "")}, fh, indent=1, default=str)
                replay_paths.append(pth)
        n = len(self.obligations)
        disc = sum(1 for o in self.obligations if o.verdict == DISCHARGED)
        per_rule: Dict[str, Dict[str, int]] = {}
        for o in self.obligations:
            d = per_rule.setdefault(o.rule, {"instances": 0, "discharged": 0})
            d["instances"] += 1
            d["discharged"] += o.verdict == DISCHARGED
        coverage: Dict[str, Any] = {
            "obligations": n,
            "discharged": disc,
            "checker_cmd": f"/venv/bin/python -m sa.check {self.prop} --tier {self.tier}",
            "trusted_base": self.trusted,
            "programs": max(1, len(self.analysed.get("functions", [])) or 1),
            "disagreements_checked": n,
            "explanation": self.explanation or "static analysis of /repo sources; see rules",
            "rule": "one obligation per (rule, construct) instance enumerated from the current syntax trees; distinct = distinct (rule, instance, location)",
            "evaluations": n,
            "distinct_nontrivial": len({(o.rule, o.instance, o.where) for o in self.obligations}),
            "samples": self.samples or [o.as_dict() for o in self.obligations[:5]],
            "rules": self.rules,
            "per_rule": per_rule,
            "analysed": self.analysed,
            "obligation_list": _compress([o.as_dict() for o in self.obligations]),
            "known_findings_matched": [kf.get("what", "") for _, kf in known_hit],
            "undecided": [o.as_dict() for o in und],
            "notes": self.notes,
            "exhaustive": True,
        }
        coverage.update(self.extra)
        ev = {
            "property_id": self.prop,
            "tier": self.tier,
            "seed": seed,
            "level": self.level,
            "coverage": coverage,
            "assumptions": self.assumptions,
            "wall_s": round(time.time() - self.t0, 3),
            "violations": len(new_viol),
        }
        with open(os.path.join(EVIDENCE_DIR, f"{self.prop}.json"), "w") as fh:
            json.dump(ev, fh, indent=1, default=str)
        # ---- console
        print(f"[{self.prop}] tier={self.tier} obligations={n} discharged={disc} violated={len(viol)} undecided={len(und)} wall={ev['wall_s']}s")
        for rid in self.rules:
            pr = per_rule.get(rid, {"instances": 0, "discharged": 0})
            print(f"  rule {rid}: {pr['discharged']}/{pr['instances']} discharged (floor {self.floors.get(rid, 1)}) - {self.rules[rid]}")
        for o, kf in known_hit:
            print(f"KNOWN-FINDING: property={self.prop} {kf.get('what', o.why)}")
        for o in und:
            print(f"  UNDECIDED {o.rule} [{o.instance}] at {o.where}: {o.why}")
        for o, pth in zip(new_viol, replay_paths):
            print(f"  VIOLATED {o.rule} [{o.instance}] at {o.where}: {o.why}")
            print(f"VIOLATION property={self.prop} replay={pth}")
        if new_viol:
            return 1
        if und:
            print(f"ANALYSIS-ERROR property={self.prop} {len(und)} obligation(s) undecided (not a violation)")
            return 2
        return 0


def _compress(items: List[Dict[str, Any]]) -> List[Dict[str, Any]]:
    """Identical obligations (same rule, instance, location, verdict) are listed once with a count."""
    out: List[Dict[str, Any]] = []
    index: Dict[str, int] = {}
    for d in items:
        k = json.dumps(d, sort_keys=True, default=str)
        if k in index:
            out[index[k]]["count"] = out[index[k]].get("count", 1) + 1
        else:
            index[k] = len(out)
            out.append(dict(d))
    return out


def _strip_line(where: str) -> str:
    # "src/x.py:123 Qual.name" -> "src/x.py Qual.name" (keys must not depend on line numbers)
    parts = where.split(" ")
    head = parts[0]
    if ":" in head:
        f, _, ln = head.rpartition(":")
        if ln.isdigit():
            head = f
    return " ".join([head] + parts[1:])


def load_known() -> List[Dict[str, Any]]:
    if not os.path.exists(KNOWN_FINDINGS):
        return []
    with open(KNOWN_FINDINGS) as fh:
        data = json.load(fh)
    return list(data.get("findings", []))


def match_known(known: List[Dict[str, Any]], prop: str, o: Obligation) -> Optional[Dict[str, Any]]:
    for kf in known:
        if kf.get("property") == prop and kf.get("key") == o.key:
            return kf
    return None


def analysis_error(prop: str, tier: str, level: str, msg: str) -> int:
    """Write a minimal evidence file and return exit code 2."""
    os.makedirs(EVIDENCE_DIR, exist_ok=True)
    ev = {
        "property_id": prop,
        "tier": tier,
        "seed": 0,
        "level": "other",
        "coverage": {"explanation": f"ANALYSIS-ERROR: {msg}", "obligations": 0, "discharged": 0},
        "assumptions": [],
        "wall_s": 0.0,
        "violations": 0,
    }
    with open(os.path.join(EVIDENCE_DIR, f"{prop}.json"), "w") as fh:
        json.dump(ev, fh, indent=1)
    print(f"ANALYSIS-ERROR property={prop} {msg}")
    sys.stdout.flush()
    return 2
