"""Transfer functions for the library vocabulary the repository uses.

Each function maps abstract argument terms to an abstract result term and
records (a) the exceptions the operation may raise, as guarded *pending*
conditions on the state, and (b) externally visible events.  Facts about
library behaviour encoded here are the trusted base (see spec/library_facts.json).
"""
from __future__ import annotations

import ast
import re
import string
from typing import Any, Dict, List, Optional, Tuple

from . import terms as T
from .model import AnalysisError, ClassInfo, EnumRef
from .terms import Lin, Term, c, is_c, is_top, top

BUILTINS = {
    "int", "str", "len", "round", "float", "divmod", "sum", "map", "filter", "list", "dict", "set", "tuple",
    "isinstance", "hasattr", "type", "hash", "open", "bool", "bytes", "sorted", "min", "max", "abs", "any", "all",
    "range", "print", "object", "super", "getattr", "setattr", "memoryview", "repr", "enumerate", "zip", "frozenset", "bytearray", "hex", "slice", "format", "reversed", "next", "iter", "chr", "ord", "pow",
    "ValueError", "KeyError", "RuntimeError", "IndexError", "TypeError", "Exception", "NotImplementedError",
    "OSError", "BaseException", "UnicodeDecodeError", "LookupError", "AttributeError", "OverflowError",
    "ConnectionError", "StopIteration", "AssertionError", "ArithmeticError", "ZeroDivisionError", "FileNotFoundError",
}

EXC_NAMES = {
    "builtins.ValueError", "builtins.KeyError", "builtins.RuntimeError", "builtins.IndexError", "builtins.TypeError",
    "builtins.Exception", "builtins.NotImplementedError", "builtins.OSError", "builtins.BaseException",
    "builtins.UnicodeDecodeError", "builtins.LookupError", "builtins.AttributeError", "builtins.OverflowError",
    "builtins.ConnectionError", "builtins.StopIteration", "builtins.AssertionError", "builtins.ArithmeticError",
    "builtins.ZeroDivisionError", "builtins.FileNotFoundError", "binascii.Error", "struct.error",
    "json.JSONDecodeError", "asyncio.CancelledError", "asyncio.TimeoutError",
}

# external calls that are observable effects (recorded as events); everything
# else unknown is recorded as an event too, this list only gives nicer names
PURE_APPS = {
    "time.time", "time.strftime", "time.strptime", "time.mktime", "time.localtime", "time.gmtime",
    "calendar.timegm", "datetime.datetime.strptime", "datetime.datetime.utcnow", "datetime.datetime.now",
    "datetime.datetime.today", "datetime.datetime.fromtimestamp", "datetime.datetime.utcfromtimestamp",
    "datetime.timedelta", "datetime.time", "datetime.datetime", "datetime.date.today", "socket.inet_ntoa", "builtins.round", "builtins.float",
    "builtins.hash", "builtins.abs", "builtins.min", "builtins.max", "builtins.sorted", "builtins.type",
    "builtins.repr", "builtins.bool", "builtins.frozenset", "builtins.tuple", "builtins.any", "builtins.all",
    "pathlib.Path", "re.match", "re.search", "re.fullmatch", "re.compile", "builtins.range", "builtins.enumerate",
    "builtins.zip", "builtins.getattr", "binascii.crc_hqx", "binascii.crc32", "zlib.crc32", "datetime.timezone.utc",
    "builtins.hex", "time.struct_time", "contextlib.suppress",
}

# library functions that read a bytes-like argument without keeping or changing it
PURE_BUFFER_READERS = {"binascii.crc_hqx", "binascii.crc32", "zlib.crc32", "binascii.hexlify", "struct.unpack", "struct.unpack_from", "builtins.int.from_bytes", "builtins.sum",
                       "builtins.list", "builtins.tuple", "builtins.memoryview", "builtins.hash", "builtins.any", "builtins.all", "builtins.bool"}

# clock-reading calls -> max number of positional args for which the *current* time is read
CLOCK_READS = {
    "time.time": 0, "time.time_ns": 0, "time.monotonic": 0, "time.strftime": 1, "time.localtime": 0, "time.gmtime": 0,
    "time.ctime": 0, "time.asctime": 0,
    "datetime.datetime.utcnow": 0, "datetime.datetime.now": 1, "datetime.datetime.today": 0, "datetime.date.today": 0,
}

MAY_RAISE_APPS = {
    "time.strptime": "ValueError",
    "datetime.datetime.strptime": "ValueError",
    "datetime.time": "ValueError",
    "datetime.datetime": "ValueError",
    "time.localtime": "OverflowError",
    "time.gmtime": "OverflowError",
    "time.mktime": "OverflowError",
    "datetime.datetime.fromtimestamp": "OverflowError",
    "datetime.datetime.utcfromtimestamp": "OverflowError",
}


def freeze(v: Term) -> Term:
    """A hashable stand-in for a closure value that ends up inside an opaque application term:
    the source text of the lambda/def plus the values of the free variables it captures."""
    if isinstance(v, tuple) and v and v[0] == "lambda" and len(v) == 5 and isinstance(v[4], dict):
        node = v[1]
        bound = {a.arg for a in getattr(node, "args", ast.arguments(posonlyargs=[], args=[], kwonlyargs=[], kw_defaults=[], defaults=[])).args}
        free = sorted({n.id for n in ast.walk(node) if isinstance(n, ast.Name)} - bound)
        cap = tuple((n, freeze(v[4][n])) for n in free if n in v[4])
        try:
            hash(cap)
        except TypeError:
            cap = tuple((n, ("top", "unhashable captured value")) for n, _ in cap)
        return ("closure", ast.unparse(node)[:400], cap)
    return v


def kwitems(kwargs: Dict[str, Term]) -> Tuple[Term, ...]:
    return tuple(("kw", k, freeze(v)) for k, v in sorted(kwargs.items()))


def app(name: str, args: List[Term], kwargs: Optional[Dict[str, Term]] = None) -> Term:
    return ("app", name) + tuple(freeze(a) for a in args) + kwitems(kwargs or {})


def text_of(x: Term) -> Term:
    return ("seq", "s", (("txt", x),))


def as_const_int(v: Optional[Term]) -> Any:
    if v is None:
        return None
    if is_c(v) and isinstance(v[1], int) and not isinstance(v[1], bool):
        return v[1]
    return "?"


def length_lower_bound(ln: Term) -> Optional[int]:
    """A lower bound of a length term: constants, sums of lengths (each >= 0), the shorter branch of a choice, and for
    the length of a byte / text sequence the part whose width does not depend on anything."""
    if is_c(ln) and isinstance(ln[1], int) and not isinstance(ln[1], bool):
        return ln[1]
    if not isinstance(ln, tuple) or not ln:
        return None
    if ln[0] == "lin":
        l_ = Lin.of(ln)
        if isinstance(l_.const, int) and all(isinstance(q_, int) and q_ > 0 and isinstance(t_, tuple) and t_[:1] in (("len",), ("nparts",)) for t_, q_ in l_.coef.items()):
            return l_.const
        return None
    if ln[0] == "ite" and len(ln) == 4:
        a_, b_ = length_lower_bound(ln[2]), length_lower_bound(ln[3])
        return None if a_ is None or b_ is None else min(a_, b_)
    if ln[0] == "len" and len(ln) == 2 and T.is_seq(ln[1]):
        tot = 0
        for a_ in ln[1][2]:
            if isinstance(a_, tuple) and a_[:1] == ("alt",) and len(a_) == 4 and all(T.is_seq(x_) for x_ in a_[2:]):
                ws_ = [T.const_width(x_) for x_ in a_[2:]]
                tot += min(int(w_) for w_ in ws_) if all(w_ is not None for w_ in ws_) else 0
                continue
            w_ = T.atom_width(a_)
            if w_ is not None and w_.is_const():
                tot += int(w_.const)
        return tot // 2 if ln[1][1] == "raw" else tot
    return None


def buffer_content(v: Term, st: Any) -> Term:
    """The current content of a bytearray object (an immutable snapshot); any other value unchanged."""
    if isinstance(v, tuple) and v[:1] == ("obj",) and st is not None and v[1] in st.heap and st.heap[v[1]].name == "bytearray":
        return st.heap[v[1]].fields["buf"]
    return v


_BUFFER_WRITERS = {"struct.pack_into", "builtins.bytes", "builtins.len", "builtins.bytearray", "builtins.isinstance", "builtins.type", "builtins.id"}


# ---------------------------------------------------------------------------
def call_ext(I: Any, name: str, args: List[Term], kwargs: Dict[str, Term], st: Any, ctx: Any, node: ast.AST, awaited: bool) -> Term:
    where = ctx.loc(node)
    if name not in _BUFFER_WRITERS and name in PURE_BUFFER_READERS:
        # a library function that only reads its byte arguments sees the current content of a bytearray
        args = [buffer_content(a_, st) for a_ in args]
    # exception classes
    if name in EXC_NAMES or (name.startswith("builtins.") and name.split(".")[1] in __import__("sa.interp", fromlist=["EXC_PARENTS"]).EXC_PARENTS):
        return ("exc", name.split("builtins.")[-1], tuple(args), where, None)

    if name == "builtins.memoryview" and len(args) == 1 and not kwargs:
        src_ = buffer_content(args[0], st)
        sq_ = T.to_seq(src_) if _textlike(src_) else None
        if sq_ is not None and sq_[1] in ("raw", "b"):
            return src_          # a view of the bytes: indexing, slicing, .hex(), .tobytes(), .cast('B') read the same bytes
        return top("memoryview of something that is not bytes")
    if name == "builtins.setattr" and len(args) == 3 and not kwargs and is_c(args[1]) and isinstance(args[1][1], str):
        I.store_attr(args[0], args[1][1], args[2], st, ctx, node)
        return c(None)
    if name == "types.MappingProxyType" and len(args) == 1 and not kwargs:
        return args[0]          # a read-only view of the same mapping (this model never writes through it)
    if name == "builtins.object.__new__" and len(args) == 1 and not kwargs and args[0][0] == "class":
        from .interp import HeapObj
        return st.alloc(HeapObj("obj", args[0][1], {}, [], False, "", True))
    if name == "binascii.hexlify":
        return hexlify(I, args[0], st, ctx, node)
    if name == "binascii.unhexlify" or name == "builtins.bytes.fromhex":
        return unhexlify(I, args[0], st, ctx, node)
    if name == "struct.pack":
        return struct_pack(I, args, st, ctx, node)
    if name == "struct.unpack":
        return ("tuple", (struct_unpack(I, args, st, ctx, node),))
    if name == "builtins.bytearray" and len(args) == 1 and not kwargs and T.to_seq(args[0]) is not None and T.to_seq(args[0])[1] in ("raw", "b"):
        # a mutable byte buffer: one heap object holding the current content
        from .interp import HeapObj
        src_ = T.to_seq(args[0])
        if src_[1] == "b":
            return top("bytearray of text-like bytes is not modelled")
        return st.alloc(HeapObj("obj", None, {"buf": src_}, [], False, "bytearray", True))
    if name == "struct.pack_into" and len(args) >= 4 and not kwargs and is_c(args[0]) and args[1][0] == "obj" and st.heap[args[1][1]].name == "bytearray":
        # pack_into(fmt, buf, offset, *values): the packed bytes overwrite buf[offset:offset+size] in place
        import struct as _struct
        off_ = as_const_int(args[2])
        try:
            size_ = _struct.calcsize(args[0][1])
        except (_struct.error, TypeError):
            size_ = None
        ho_ = st.heap[args[1][1]]
        if isinstance(off_, int) and off_ >= 0 and size_ is not None:
            packed = struct_pack(I, [args[0]] + list(args[3:]), st, ctx, node)
            buf_ = ho_.fields["buf"]
            ln_ = length(I, buf_, st, ctx, node)
            lb_ = length_lower_bound(ln_)
            if lb_ is None or lb_ < off_ + size_:
                st.may_raise("struct.error", ("cmp", "<", ln_, c(off_ + size_)), where)
            head_ = slice_value(I, buf_, c(0), c(off_), st, ctx, node)
            tail_ = slice_value(I, buf_, c(off_ + size_), None, st, ctx, node)
            if not any(is_top(x) for x in (packed, head_, tail_)):
                ho_.fields["buf"] = T.concat(T.concat(T.to_seq(head_), T.to_seq(packed)), T.to_seq(tail_))
                return c(None)
        ho_.fields["buf"] = top("pack_into in a form that is not modelled")
        return c(None)
    if name == "struct.unpack_from" and len(args) >= 2 and is_c(args[0]) and isinstance(args[0][1], str):
        # the module function is the method of the compiled Struct
        return call_method(I, ("structobj", args[0]), "unpack_from", list(args[1:]), kwargs, st, ctx, node, awaited)
    if name == "builtins.int":
        return to_int(I, args, kwargs, st, ctx, node)
    if name == "builtins.int.from_bytes":
        order = kwargs.get("byteorder", args[1] if len(args) > 1 else c("big"))
        u_ = int_from_bytes(args[0], order, st, ctx, node)
        sg_ = kwargs.get("signed")
        if sg_ is not None and not (is_c(sg_) and sg_[1] is False):
            if not (is_c(sg_) and sg_[1] is True):
                return top("int.from_bytes with a non-constant signed flag")
            w_ = T.const_width(T.to_seq(args[0])) if _textlike(args[0]) and T.to_seq(args[0]) is not None else None
            if w_ is None:
                return top("signed int.from_bytes of bytes of unknown length")
            return signed_view(u_, 4 * int(w_))
        return u_
    if name == "builtins.str":
        if not args:
            return c("")
        if len(args) >= 2 or "encoding" in kwargs or "errors" in kwargs:
            # str(b, encoding[, errors]) is b.decode(encoding[, errors])
            kw2 = {k: v for k, v in kwargs.items() if k in ("encoding", "errors")}
            return call_method(I, args[0], "decode", list(args[1:]), kw2, st, ctx, node, awaited)
        return format_value(I, args[0], "", st, ctx, node)
    if name == "builtins.bytes":
        if len(args) == 1 and not kwargs and args[0][0] == "obj" and st.heap[args[0][1]].name == "bytearray":
            return st.heap[args[0][1]].fields["buf"]       # an immutable copy of the buffer's current content
        if len(args) == 1 and not kwargs:
            a0 = args[0]
            if isinstance(a0, tuple) and a0 and a0[0] == "revbytes":
                return a0[1]          # bytes(reversed(b)) == b[::-1]
            if is_c(a0) and isinstance(a0[1], int) and not isinstance(a0[1], bool) and 0 <= a0[1] <= 4096:
                return ("seq", "raw", (("L", "00" * a0[1]),) if a0[1] else ())
            s = T.to_seq(a0)
            if s is not None and s[1] in ("raw", "b"):
                return a0 if s[1] == "b" else s
            items = I.iter_items(a0, st, ctx, node)
            if items is not None and all(is_c(x) and isinstance(x[1], int) and 0 <= x[1] <= 255 for x in items):
                return ("seq", "raw", (("L", bytes(x[1] for x in items).hex()),) if items else ())
            if items is not None and items and all(isinstance(x, tuple) and x[:1] == ("uint",) and T.const_width(("seq", "s", x[1])) == 2 for x in items):
                # bytes of integers that are themselves single bytes read from hex digits: those digits, in order
                return T.seq("raw", tuple(a for x in items for a in x[1]))
            if items is not None and len(items) == 1 and is_int_term(items[0]) and not is_c(items[0]):
                # bytes((x,)) is the single byte x (ValueError outside 0..255): as text its hex is '{:02x}'.format(x)
                rng_ = T.int_range(items[0])
                if not (rng_ is not None and rng_[0] is not None and rng_[1] is not None and 0 <= rng_[0] and rng_[1] <= 255):
                    st.may_raise("ValueError", ("outofrange", items[0], c(0), c(255)), where)
                return ("seq", "raw", (("fmt", "02x", items[0]),))
            if items is not None and items and all(is_c(x) and isinstance(x[1], int) and 0 <= x[1] <= 255 or byte_atom_of(x) is not None for x in items):
                return T.seq("raw", tuple(("L", "%02x" % x[1]) if is_c(x) else byte_atom_of(x) for x in items))
        return app(name, args, kwargs)
    if name == "builtins.len":
        return length(I, args[0], st, ctx, node)
    if name == "builtins.float":
        if is_c(args[0]) and isinstance(args[0][1], (int, float)):
            return c(float(args[0][1]))
        return app("float", args)
    if name == "builtins.divmod":
        a, b = args
        return ("tuple", (arith("floordiv", a, b), arith("mod", a, b)))
    if name == "itertools.batched" and len(args) == 2 and not kwargs:
        n_ = as_const_int(args[1])
        sq_ = T.to_seq(args[0]) if _textlike(args[0]) else None
        if isinstance(n_, int) and n_ > 0 and sq_ is not None:
            return ("batched", sq_, n_)      # tuples of n consecutive items (bytes as ints, text as characters)
    if name == "itertools.pairwise" and len(args) == 1 and not kwargs:
        its_ = I.iter_items(args[0], st, ctx, node)
        if its_ is not None:
            from .interp import HeapObj
            return st.alloc(HeapObj("list", None, {}, [("tuple", (x_, y_)) for x_, y_ in zip(its_, its_[1:])]))
    if name in ("builtins.any", "builtins.all") and len(args) == 1 and not kwargs:
        from .interp import conj as _conj, disj as _disj, ite as _ite
        a0 = args[0]
        if isinstance(a0, tuple) and len(a0) == 4 and a0[0] == "ite":
            # any(xs if p else ys) is any(xs) if p else any(ys)
            return _ite(a0[1], call_ext(I, name, [a0[2]], {}, st, ctx, node, awaited), call_ext(I, name, [a0[3]], {}, st, ctx, node, awaited))
        its_ = I.iter_items(a0, st, ctx, node)
        if its_ is not None:
            ts_ = [I.truth(x, st) for x in its_]
            return _disj(ts_) if name.endswith("any") else _conj(ts_)
    if name == "builtins.map" and len(args) == 2 and isinstance(args[1], tuple) and args[1][:1] == ("batched",):
        f_ = args[0]
        if f_ == ("builtin", "bytes") and args[1][1][1] in ("b", "raw"):
            return ("chunks", args[1][1], args[1][2])       # bytes(tuple of the ints of n bytes) is those n bytes
        if f_[0] == "extmeth" and f_[2] == "join" and is_c(f_[1]) and f_[1][1] == "" and args[1][1][1] == "s":
            return ("chunks", args[1][1], args[1][2])       # "".join(tuple of n characters) is that text
    if name == "builtins.map":
        return make_map(I, args[0], args[1], st, ctx, node)
    if name == "builtins.filter" and len(args) == 2:
        its_f = I.iter_items(args[1], st, ctx, node)
        if its_f is not None and len(its_f) <= 64 and args[0] != c(None):
            # over known items: each item with the condition under which it is kept (as a filtered comprehension)
            pairs_f = [(I.truth(I.call(args[0], [x_], {}, st, ctx, node), st), x_) for x_ in its_f]
            pairs_f = [(cn, x_) for cn, x_ in pairs_f if not (is_c(cn) and not cn[1])]
            # (a filter object can be consumed once: the eager result is marked, see Interp.iter_items / class_attr_value)
            if all(is_c(cn) for cn, _ in pairs_f):
                from .interp import HeapObj
                return st.alloc(HeapObj("list", None, {"$born": c(getattr(I, "cur_serial", None))}, [x_ for _, x_ in pairs_f], False, "iter:filter", True))
            return ("condlist", tuple(pairs_f), "once")
        return ("filterobj", lambda_norm(I, args[0], args[1], st, ctx, node), args[1])
    if name == "builtins.sum":
        if len(args) == 1:
            its = I.iter_items(args[0], st, ctx, node)
            if its is not None and 1 <= len(its) <= 16 and all(is_int_term(x) for x in its):
                acc = its[0]
                for x in its[1:]:
                    acc = arith("add", acc, x)
                return acc
        if len(args) == 1 and args[0][0] == "mapobj" and len(args[0]) == 4 and args[0][3] == "list":
            # sum(f(x) for x in xs) == sum(map(f, xs)): one canonical form
            return app("sum", [("map", args[0][1], args[0][2])])
        return app("sum", args)
    if name == "builtins.list" or name == "builtins.tuple" or name == "builtins.sorted":
        if not args:
            from .interp import HeapObj
            return st.alloc(HeapObj("list", None, {}, []))
        items = I.iter_items(args[0], st, ctx, node)
        if items is not None:
            from .interp import HeapObj
            if name == "builtins.tuple":
                return ("tuple", tuple(items))
            if name == "builtins.sorted":
                keyf = kwargs.get("key")
                rev = kwargs.get("reverse", c(False))
                keys = [I.call(keyf, [it], {}, st, ctx, node) for it in items] if keyf is not None and keyf != c(None) else list(items)
                if is_c(rev) and all(is_c(k) and isinstance(k[1], (int, str, float)) and not isinstance(k[1], bool) for k in keys) and len({type(k[1]) for k in keys}) <= 1 and set(kwargs) <= {"key", "reverse"}:
                    order = sorted(range(len(items)), key=lambda i: keys[i][1], reverse=bool(rev[1]))
                    return st.alloc(HeapObj("list", None, {}, [items[i] for i in order]))
                return app("sorted", args, kwargs)
            return st.alloc(HeapObj("list", None, {}, list(items)))
        return app(name.split(".")[1], args, kwargs)
    if name == "builtins.set" or name == "builtins.frozenset":
        from .interp import HeapObj
        if not args:
            return st.alloc(HeapObj("set", None, {}, []))
        if args[0][0] == "condlist" and len({v for _, v in args[0][1]}) == len(args[0][1]):
            # {x_i | c_i}: a set given by one membership condition per (distinct) candidate
            return ("condset", args[0][1])
        items = I.iter_items(args[0], st, ctx, node)
        if items is not None:
            uniq: List[Term] = []
            for it in items:
                if it not in uniq:
                    uniq.append(it)
            return st.alloc(HeapObj("set", None, {}, uniq))
        return app("set", args)
    if name == "builtins.dict":
        from .interp import HeapObj
        if not args and not kwargs:
            return st.alloc(HeapObj("dict", None, {}, []))
        if not args and kwargs:
            return st.alloc(HeapObj("dict", None, {}, [(c(k_), v_) for k_, v_ in kwargs.items()]))      # dict(a=1, b=2)
        if len(args) == 1 and not kwargs and args[0][0] == "obj" and st.heap[args[0][1]].kind == "dict" and not st.heap[args[0][1]].symbolic:
            return st.alloc(HeapObj("dict", None, {}, list(st.heap[args[0][1]].items)))                  # a copy
        if len(args) == 1 and not kwargs and args[0][0] == "cdict":
            return st.alloc(HeapObj("dict", None, {}, list(args[0][1])))
        if len(args) == 1 and not kwargs:
            items = I.iter_items(args[0], st, ctx, node)
            if items is not None:
                pairs = []
                for it in items:
                    if it[0] == "tuple" and len(it[1]) == 2:
                        pairs.append((I.canon_cmp_operand(it[1][0], st), it[1][1]))
                    else:
                        return top("dict() of non-pairs")
                # a repeated key keeps its first position and takes the last value, like dict()
                dd: List[Tuple[Term, Term]] = []
                for k, v in pairs:
                    if any(k2 == k for k2, _ in dd):
                        dd = [(k2, v if k2 == k else v2) for (k2, v2) in dd]
                    else:
                        dd.append((k, v))
                return st.alloc(HeapObj("dict", None, {}, dd))
        return app("dict", args, kwargs)
    if name == "builtins.isinstance":
        return isinstance_cond(I, args[0], args[1], st)
    if name == "builtins.hasattr":
        obj, nm = args
        if obj[0] == "obj" and is_c(nm):
            ho = st.heap[obj[1]]
            if nm[1] in ho.fields:
                return c(True)
            if ho.cls is not None and (ho.cls.find_method(nm[1]) or ho.cls.find_property(nm[1])):
                return c(True)
            if not ho.symbolic:
                return c(False)
        return ("hasattr", obj if obj[0] != "obj" else ("sym", I.describe(obj, st), "any"), nm)
    if name == "builtins.type":
        v = args[0]
        if v[0] == "enum":
            return ("class", I.prog.cls(v[1].cls))
        if v[0] == "sym" and isinstance(v[2], tuple) and v[2] and v[2][0] == "enum":
            return ("class", I.prog.cls(v[2][1]))
        if v[0] == "sym" and isinstance(v[2], tuple) and v[2] and v[2][0] in ("set", "list"):
            return ("builtin", v[2][0])
        if v[0] == "sym" and v[2] in ("str", "int", "bytes", "bool", "float"):
            return ("builtin", v[2])
        if v[0] == "obj" and st.heap[v[1]].kind == "set":
            return ("builtin", "set")
        if v[0] == "obj" and st.heap[v[1]].kind == "list":
            return ("builtin", "list")
        return app("type", args)
    if name == "builtins.super":
        me_ = st.env.get("self")
        if me_ is None and ctx.fi is not None and ctx.fi.params:
            me_ = st.env.get(ctx.fi.params[0])       # (cls in a classmethod / __init_subclass__)
        return ("super", ctx.fi.cls if ctx.fi else None, me_)
    if name == "functools.partial":
        return ("partialobj", args[0], tuple(args[1:]))
    if name == "textwrap.wrap":
        n = as_const_int(args[1] if len(args) > 1 else kwargs.get("width"))
        if not isinstance(n, int):
            return top("wrap width not constant")
        s = T.to_seq(args[0])
        if s is None:
            return top("wrap of non-text")
        return ("chunks", s, n)
    if name == "io.BytesIO" and len(args) == 1 and not kwargs and T.to_seq(args[0]) is not None and T.to_seq(args[0])[1] in ("b", "raw"):
        from .interp import HeapObj
        return st.alloc(HeapObj("obj", None, {"buf": args[0], "pos": c(0)}, [], False, "bytesio", True))
    if name == "builtins.open":
        st.may_raise("OSError", ("ext", "open fails", st.fresh("ext")), where)
        return I.external_call("open", args, kwargs, st, ctx, node, awaited, ("sym", st.fresh("file"), ("extobj", "file")))
    if name == "json.load" or name == "json.loads":
        st.may_raise("json.JSONDecodeError", ("ext", "invalid json", st.fresh("ext")), where)
        return ("sym", st.fresh("json"), "json")
    if name == "logging.getLogger":
        return ("modvar", "logging", "logger")
    if name == "warnings.warn":
        return I.external_call("warn", args, kwargs, st, ctx, node, awaited, c(None))
    if name == "asyncio.open_connection":
        st.may_raise("OSError", ("ext", "connection refused/unreachable", st.fresh("ext")), where)
        r = ("sym", st.fresh("reader"), ("extobj", "StreamReader"))
        w = ("sym", st.fresh("writer"), ("extobj", "StreamWriter"))
        return I.external_call("asyncio.open_connection", args, kwargs, st, ctx, node, awaited, ("tuple", (r, w)))
    if name in ("asyncio.get_running_loop", "asyncio.get_event_loop"):
        return ("sym", "loop", ("extobj", "loop"))
    if name in ("asyncio.create_task", "asyncio.ensure_future"):
        return I.external_call(name, args, kwargs, st, ctx, node, awaited)
    if name == "socket.inet_ntoa":
        return text_of(app("inet_ntoa", args))
    if name == "ipaddress.IPv4Address" and len(args) == 1 and not kwargs:
        # IPv4Address(4 bytes) / IPv4Address(int n): the address whose packed form is those bytes / n as 4 big-endian
        # bytes; str() of it is the dotted quad inet_ntoa gives for the packed form (ValueError outside that)
        a0_ = args[0]
        sq_ = T.to_seq(a0_) if _textlike(a0_) else None
        if sq_ is not None and sq_[1] == "raw":
            st.may_raise("ValueError", ("cmp", "!=", length(I, a0_, st, ctx, node), c(4)), where)
            return ("app", "ipaddress.IPv4Address", sq_)
        if is_int_term(a0_):
            n0 = len(st.pending)
            pk_ = int_to_bytes(I, a0_, [c(4), c("big")], {}, st, ctx, node)
            st.pending[n0:] = [(("ValueError",) + tuple(p_[1:])) if p_[0] == "OverflowError" else p_ for p_ in st.pending[n0:]]   # AddressValueError is a ValueError
            if not is_top(pk_) and T.to_seq(pk_) is not None:
                return ("app", "ipaddress.IPv4Address", T.to_seq(pk_))
    if name == "operator.methodcaller" and len(args) >= 1 and is_c(args[0]) and isinstance(args[0][1], str) and args[0][1].isidentifier():
        # methodcaller("m", *a, **k) == lambda x: x.m(*a, **k); the extra arguments are captured by name
        cap: Dict[str, Term] = {}
        call_args: List[ast.expr] = []
        for i_, a_ in enumerate(args[1:]):
            cap[f"$mc{i_}"] = a_
            call_args.append(ast.Name(id=f"$mc{i_}", ctx=ast.Load()))
        kws = []
        for k_, v_ in kwargs.items():
            cap[f"$mck_{k_}"] = v_
            kws.append(ast.keyword(arg=k_, value=ast.Name(id=f"$mck_{k_}", ctx=ast.Load())))
        lam = ast.Lambda(args=ast.arguments(posonlyargs=[], args=[ast.arg(arg="$x")], kwonlyargs=[], kw_defaults=[], defaults=[]),
                         body=ast.Call(func=ast.Attribute(value=ast.Name(id="$x", ctx=ast.Load()), attr=args[0][1], ctx=ast.Load()), args=call_args, keywords=kws))
        ast.copy_location(lam, node)
        ast.fix_missing_locations(lam)
        return ("lambda", lam, None, ctx.fi, cap)
    if name == "operator.itemgetter" and len(args) >= 2 and not kwargs and all(is_c(a) and isinstance(a[1], (str, int)) or (isinstance(a, tuple) and a and a[0] == "sliceobj") for a in args):
        # itemgetter(i, j, ...) == lambda x: (x[i], x[j], ...)
        cap2: Dict[str, Term] = {}
        elts: List[ast.expr] = []
        for i_, a_ in enumerate(args):
            cap2[f"$ig{i_}"] = a_
            elts.append(ast.Subscript(value=ast.Name(id="$x", ctx=ast.Load()), slice=ast.Name(id=f"$ig{i_}", ctx=ast.Load()), ctx=ast.Load()))
        lam = ast.Lambda(args=ast.arguments(posonlyargs=[], args=[ast.arg(arg="$x")], kwonlyargs=[], kw_defaults=[], defaults=[]), body=ast.Tuple(elts=elts, ctx=ast.Load()))
        ast.copy_location(lam, node)
        ast.fix_missing_locations(lam)
        return ("lambda", lam, None, ctx.fi, cap2)
    if name in ("operator.attrgetter", "operator.itemgetter") and len(args) >= 1 and not kwargs and all(is_c(a_) and isinstance(a_[1], (str, int)) and not isinstance(a_[1], bool) for a_ in args):
        # a synthesised lambda: attrgetter("a.b") == lambda x: x.a.b ; itemgetter(k) == lambda x: x[k]; several keys give the tuple
        def one_(key_: Any) -> ast.expr:
            b_: ast.expr = ast.Name(id="$x", ctx=ast.Load())
            if name.endswith("attrgetter") and isinstance(key_, str):
                for part in key_.split("."):
                    b_ = ast.Attribute(value=b_, attr=part, ctx=ast.Load())
            else:
                b_ = ast.Subscript(value=b_, slice=ast.Constant(value=key_), ctx=ast.Load())
            return b_
        body: ast.expr = one_(args[0][1]) if len(args) == 1 else ast.Tuple(elts=[one_(a_[1]) for a_ in args], ctx=ast.Load())
        lam = ast.Lambda(args=ast.arguments(posonlyargs=[], args=[ast.arg(arg="$x")], kwonlyargs=[], kw_defaults=[], defaults=[]), body=body)
        ast.copy_location(lam, node)
        ast.fix_missing_locations(lam)
        return ("lambda", lam, None, ctx.fi, {})
    if name == "builtins.format" and 1 <= len(args) <= 2 and not kwargs:
        spec = args[1] if len(args) > 1 else c("")
        if is_c(spec) and isinstance(spec[1], str):
            return merge_strftime(format_value(I, args[0], spec[1], st, ctx, node))
        return top("format() with a non-constant spec")
    if name in ("operator.add", "operator.sub", "operator.mul", "operator.floordiv", "operator.mod", "operator.and_", "operator.or_", "operator.xor", "operator.lshift", "operator.rshift") and len(args) == 2 and not kwargs:
        opn = {"add": ast.Add, "sub": ast.Sub, "mul": ast.Mult, "floordiv": ast.FloorDiv, "mod": ast.Mod, "and_": ast.BitAnd, "or_": ast.BitOr, "xor": ast.BitXor, "lshift": ast.LShift, "rshift": ast.RShift}[name.split(".")[1]]
        return binop(I, opn(), args[0], args[1], st, ctx, node)
    if name in ("operator.eq", "operator.ne", "operator.lt", "operator.le", "operator.gt", "operator.ge") and len(args) == 2 and not kwargs:
        opc = {"eq": ast.Eq, "ne": ast.NotEq, "lt": ast.Lt, "le": ast.LtE, "gt": ast.Gt, "ge": ast.GtE}[name.split(".")[1]]
        return I.compare(opc(), args[0], args[1], st, ctx, node)
    if name == "functools.reduce" and 2 <= len(args) <= 3 and not kwargs:
        items = I.iter_items(args[1], st, ctx, node)
        if items is not None and (items or len(args) == 3) and len(items) <= 64:
            acc = args[2] if len(args) == 3 else items[0]
            for it in (items if len(args) == 3 else items[1:]):
                acc = I.call(args[0], [acc, it], {}, st, ctx, node)
            return acc
        src_ = args[1]
        if isinstance(src_, tuple) and (src_[:1] == ("map",) or (src_[:1] == ("mapobj",) and len(src_) == 4)) and args[0] in (("ext", "operator.or_"), ("ext", "operator.add"), ("ext", "operator.xor")) \
                and (len(args) == 2 or args[2] == c(0)):
            body_, it_ = src_[1], src_[2]
            alts_ = body_[3] if isinstance(body_, tuple) and body_[:1] == ("eattr",) and len(body_) > 3 else None
            pow2 = bool(alts_) and all(isinstance(a_, int) and not isinstance(a_, bool) and a_ > 0 and a_ & (a_ - 1) == 0 for a_ in alts_) and len(set(alts_)) == len(alts_)
            if args[0][1] == "operator.add" and len(args) == 3:
                return app("sum", [("map", body_, it_)])
            if pow2 and dupfree_collection(I, it_, st) and (len(args) == 3 or False):
                # OR (or XOR) of distinct powers of two taken from distinct members is their sum: no two share a bit
                return app("sum", [("map", body_, it_)])
        return I.external_call(name, args, kwargs, st, ctx, node, awaited, opaque=True)
    if name == "itertools.compress" and len(args) == 2 and not kwargs:
        data_, sels_ = I.iter_items(args[0], st, ctx, node), I.iter_items(args[1], st, ctx, node)
        if data_ is not None and sels_ is not None:
            from .interp import HeapObj, NeedSplit, decided_by
            kept_ = []
            open_ = []
            for x_, s_ in zip(data_, sels_):
                t_ = I.truth(s_, st)
                d_ = bool(t_[1]) if is_c(t_) else decided_by(st.pc, t_)
                if d_ is None:
                    open_.append(t_)
                elif d_:
                    kept_.append(x_)
            if not open_:
                return st.alloc(HeapObj("list", None, {"$born": c(getattr(I, "cur_serial", None))}, kept_, False, "iter:compress", True))
            if len(open_) <= 3:
                raise NeedSplit(open_[0])        # the statement is re-executed once per truth value of the selector
            # more value-dependent selectors than a case split can afford (2**n paths): not modelled (opaque result)
    if name == "itertools.accumulate" and len(args) == 1 and not kwargs:
        its_ = I.iter_items(args[0], st, ctx, node)
        if its_ is not None and (all(_textlike(x_) for x_ in its_) or all(is_int_term(x_) for x_ in its_)):
            from .interp import HeapObj
            run_: List[Term] = []
            for x_ in its_:
                run_.append(x_ if not run_ else (T.concat(T.to_seq(run_[-1]), T.to_seq(x_)) if _textlike(x_) else arith("add", run_[-1], x_)))
            if not any(is_top(x_) for x_ in run_):
                return st.alloc(HeapObj("list", None, {"$born": c(getattr(I, "cur_serial", None))}, run_, False, "iter:accumulate", True))
    if name == "builtins.zip" and len(args) >= 2 and not kwargs:
        lists = [I.iter_items(a, st, ctx, node) for a in args]
        if all(l is not None for l in lists):
            from .interp import HeapObj
            return st.alloc(HeapObj("list", None, {"$born": c(getattr(I, "cur_serial", None))}, [("tuple", tuple(t)) for t in zip(*lists)], False, "iter:zip", True))  # type: ignore[arg-type]
    if name == "itertools.compress" and len(args) == 2 and not kwargs:
        data, sels = I.iter_items(args[0], st, ctx, node), I.iter_items(args[1], st, ctx, node)
        if data is not None and sels is not None:
            pairs_c = [(I.truth(sv, st), dv) for dv, sv in zip(data, sels)]
            pairs_c = [(cn, dv) for cn, dv in pairs_c if not (is_c(cn) and not cn[1])]
            if all(is_c(cn) for cn, _ in pairs_c):
                from .interp import HeapObj
                return st.alloc(HeapObj("list", None, {}, [dv for _, dv in pairs_c]))
            return ("condlist", tuple(pairs_c))
        return I.external_call(name, args, kwargs, st, ctx, node, awaited, opaque=True)
    if name == "builtins.iter" and len(args) == 2 and not kwargs and is_c(args[1]) and args[1][1] in (b"", ""):
        # iter(partial(stream.read, n), b""): the consecutive n-chunks of the rest of an in-memory stream.  The
        # iterator is lazy, so where the stream stands afterwards depends on how far it is consumed: the stream is
        # closed for the model (any later use of it is "not modelled")
        f = args[0]
        if f[0] == "partialobj" and f[1][0] == "biometh" and f[1][2] == "read" and len(f[2]) == 1 and is_c(f[2][0]) and isinstance(f[2][0][1], int) and not isinstance(f[2][0][1], bool) and f[2][0][1] > 0:
            ho = st.heap[f[1][1][1]]
            buf, pos = ho.fields["buf"], ho.fields["pos"]
            if is_c(pos) and isinstance(pos[1], int):
                rest = buf if pos[1] == 0 else slice_value(I, buf, pos, None, st, ctx, node)
                seq = T.to_seq(rest)
                if seq is not None and not is_top(rest) and type(args[1][1]) is (bytes if seq[1] in ("b", "raw") else str):
                    ho.fields["pos"] = c(None)
                    return ("chunks", seq, f[2][0][1])
    if name == "builtins.iter" and len(args) == 1 and not kwargs and _textlike(args[0]) and T.to_seq(args[0]) is not None and T.to_seq(args[0])[1] in ("b", "raw"):
        # an iterator over the bytes of a byte string: a read position over that buffer (only `bytes(islice(it, n))`
        # chunk reading is modelled, see Interp._while_reads_chunks; any other use stops the analysis)
        from .interp import HeapObj
        return st.alloc(HeapObj("obj", None, {"buf": args[0], "pos": c(0)}, [], False, "byteiter", True))
    if name == "builtins.next" and 1 <= len(args) <= 2 and not kwargs:
        src = args[0]
        default = args[1] if len(args) == 2 else None
        if src[0] == "condlist":
            from .interp import ite, mkcmp
            pairs = list(src[1])
            # first match of `x == k_i` over distinct constant keys: the table lookup a dict of the same pairs gives
            eqs = [cn for cn, _ in pairs]
            if len(pairs) >= 2 and all(isinstance(cn, tuple) and cn[:2] == ("cmp", "==") and cn[2] == eqs[0][2] and (is_c(cn[3]) or (T.is_seq(cn[3]) and all(a[0] == "L" for a in cn[3][2])) or cn[3][0] == "enum") for cn in eqs) and len({cn[3] for cn in eqs}) == len(eqs):
                x = eqs[0][2]
                table = tuple((cn[3], v) for cn, v in pairs)
                miss = key_missing_cond(I, x, tuple(k for k, _ in table))
                if default is None:
                    st.may_raise("StopIteration", miss, where)
                    return ("lookup", table, x)
                return ite_pos(miss, default, ("lookup", table, x))
            if default is None:
                st.may_raise("StopIteration", conj_all([neg_(cn) for cn, _ in pairs]), where)
            val = default if default is not None else top("next() of an exhausted iterator")
            for cn, v in reversed(pairs):
                val = ite(cn, v, val)
            return val
        items = I.iter_items(src, st, ctx, node)
        if items is not None:
            if items:
                return items[0]
            if default is not None:
                return default
            st.may_raise("StopIteration", c(True), where)
            return top("never: next() of an empty iterator")
        return I.external_call(name, args, kwargs, st, ctx, node, awaited, opaque=True)
    if name == "builtins.reversed" and len(args) == 1 and not kwargs:
        if _textlike(args[0]) and T.to_seq(args[0]) is not None and T.to_seq(args[0])[1] in ("raw", "b"):
            r0 = reverse_value(I, args[0], st, ctx, node)
            if not is_top(r0):
                return ("revbytes", r0)
        items = I.iter_items(args[0], st, ctx, node)
        if items is not None:
            from .interp import HeapObj
            return st.alloc(HeapObj("list", None, {}, list(reversed(items))))
        if _textlike(args[0]):
            r = reverse_value(I, args[0], st, ctx, node)
            if not is_top(r):
                return ("revbytes", r)
        return I.external_call(name, args, kwargs, st, ctx, node, awaited, opaque=True)
    if name == "builtins.bytes" and len(args) == 1 and not kwargs:
        a0 = args[0]
        if isinstance(a0, tuple) and a0 and a0[0] == "revbytes":
            return a0[1]          # bytes(reversed(b)) == b[::-1]
        if is_c(a0) and isinstance(a0[1], int) and not isinstance(a0[1], bool) and 0 <= a0[1] <= 4096:
            return ("seq", "raw", (("L", "00" * a0[1]),) if a0[1] else ())
        s0 = T.to_seq(a0) if _textlike(a0) else None
        if s0 is not None and s0[1] in ("raw", "b"):
            return a0             # bytes(b) is b
    if name == "struct.Struct" and len(args) == 1 and not kwargs and is_c(args[0]):
        return ("structobj", args[0])
    if name == "builtins.dict.fromkeys" and 1 <= len(args) <= 2 and not kwargs:
        items = I.iter_items(args[0], st, ctx, node)
        if items is not None:
            from .interp import HeapObj
            val = args[1] if len(args) > 1 else c(None)
            pairs: List[Tuple[Term, Term]] = []
            for it in items:
                k_ = I.canon_cmp_operand(it, st)
                if not any(k2 == k_ for k2, _ in pairs):
                    pairs.append((k_, val))
            return st.alloc(HeapObj("dict", None, {}, pairs))
    if name == "builtins.slice" and 1 <= len(args) <= 3 and not kwargs:
        a3 = [c(None)] * 3
        if len(args) == 1:
            a3[1] = args[0]
        else:
            a3[:len(args)] = args
        return ("sliceobj", a3[0], a3[1], a3[2])
    if name in ("builtins.round",):
        if not kwargs and 1 <= len(args) <= 2 and all(is_c(a) and isinstance(a[1], (int, float)) and not isinstance(a[1], bool) for a in args):
            return c(round(*[a[1] for a in args]))
        if len(args) == 1 and not kwargs:
            return app("int", [app("round", args)])      # round(x) with one argument is an int: one form with int(round(x))
        return app("round", args, kwargs)
    if name == "builtins.hash":
        return app("hash", args)
    if name == "builtins.bool":
        return I.truth(args[0], st)
    if name == "builtins.print":
        return I.external_call("print", args, kwargs, st, ctx, node, awaited, c(None))
    if name in ("builtins.min", "builtins.max", "builtins.abs"):
        if all(is_c(a) and isinstance(a[1], (int, float)) for a in args) and args:
            f = {"min": min, "max": max, "abs": abs}[name.split(".")[1]]
            return c(f(*[a[1] for a in args]) if name != "builtins.abs" else abs(args[0][1]))
        if name != "builtins.abs" and len(args) == 1 and set(kwargs) == {"key"} and kwargs["key"][0] in ("lambda", "func"):
            # argmin / argmax of a collection: the key is kept as its body over the canonical element symbol $e
            coll = args[0]
            under = coll[2] if (coll[0] == "mapobj" and len(coll) == 4) else coll
            st.may_raise("ValueError", ("not", ("truthy", under)), where)
            return ("arg" + name.split(".")[1], lambda_norm(I, kwargs["key"], coll, st, ctx, node), coll)
        return app(name.split(".")[1], args, kwargs)
    if name == "builtins.getattr" and len(args) >= 2 and is_c(args[1]) and isinstance(args[1][1], str):
        obj, nm = args[0], args[1][1]
        if obj[0] in ("ite", "lookup") and len(args) == 3:
            # getattr(x, name, default) of a value chosen among alternatives: per alternative
            from .interp import ite as _ite
            if obj[0] == "ite" and len(obj) == 4:
                return _ite(obj[1], call_ext(I, name, [obj[2]] + list(args[1:]), kwargs, st, ctx, node, awaited), call_ext(I, name, [obj[3]] + list(args[1:]), kwargs, st, ctx, node, awaited))
            return ("lookup", tuple((k_, call_ext(I, name, [v_] + list(args[1:]), kwargs, st, ctx, node, awaited)) for k_, v_ in obj[1]), obj[2])
        if is_c(obj) and len(args) == 3 and obj[1] is None:
            return args[2] if not hasattr(None, nm) else top("attribute of None")
        if obj[0] == "enum":
            en_ = I.prog.enum_of(obj[1])
            ci_ = I.prog.cls(obj[1].cls)
            if nm in ("name", "value") or nm in en_.attrs or ci_.find_method(nm) or ci_.find_property(nm):
                return I.getattr(obj, nm, st, ctx, node)
            if len(args) == 3:
                return args[2]
        if obj[0] == "obj":
            ho = st.heap[obj[1]]
            known = nm in ho.fields or (ho.cls is not None and (ho.cls.find_method(nm) or ho.cls.find_property(nm)))
            if known or len(args) == 2:
                return I.getattr(obj, nm, st, ctx, node)
            if not ho.symbolic:
                return args[2]   # same decision as hasattr(): a concrete object without the attribute
            from .interp import Event, ite
            st.events.append(Event("readattr", f"{I.describe(obj, st)}.{nm}", (), (), where, ctx.fi.key if ctx.fi else "", pc_len=len(st.pc)))
            v = ("sym", f"{I.describe(obj, st)}.{nm}", "any")
            return ite(("hasattr", ("sym", I.describe(obj, st), "any"), args[1]), v, args[2])
    if name in CLOCK_READS and len(args) <= CLOCK_READS[name] and not any(k in kwargs for k in ("tz",)):
        # reading the clock: every evaluation is a distinct occurrence
        occ = ("occ", st.fresh("clock"))
        r = ("app", name) + tuple(args) + kwitems(kwargs) + (occ,)
        if name == "time.strftime":
            return text_of(r)
        return r
    if name == "datetime.time" and args and not any(k in kwargs for k in ("hour", "minute", "second", "microsecond")[:len(args)]) and len(args) <= 4:
        # positional and keyword spelling of the same constructor call: one canonical (keyword) form
        kwargs = {**dict(zip(("hour", "minute", "second", "microsecond"), args)), **kwargs}
        args = []
    if name in ("binascii.crc_hqx",) and len(args) == 2 and not kwargs and isinstance(args[1], tuple) and args[1][:2] == ("app", "binascii.crc_hqx") and len(args[1]) == 4:
        # crc_hqx(B, crc_hqx(A, init)) == crc_hqx(A + B, init): the CRC register is carried over
        def _raw(v: Term) -> Optional[Term]:
            q = T.to_seq(v) if _textlike(v) else None
            if q is not None and q[1] == "b" and all(a[0] == "L" for a in q[2]):
                return ("seq", "raw", (("L", "".join(a[1] for a in q[2]).encode("latin-1").hex()),))
            return q
        sa_, sb_ = _raw(args[1][2]), _raw(args[0])
        if sa_ is not None and sb_ is not None and sa_[1] == sb_[1] == "raw":
            return app(name, [T.concat(sa_, sb_), args[1][3]])
    if name in PURE_APPS:
        if name in MAY_RAISE_APPS:
            st.may_raise(MAY_RAISE_APPS[name], ("invalid", name, tuple(args) + kwitems(kwargs)), where)
        r = app(name, args, kwargs)
        if name in ("time.strftime",):
            return text_of(r)
        return r
    if name == "dataclasses.field":
        return app("field", args, kwargs)
    # unknown external callable: observable event, opaque result
    return I.external_call(name, args, kwargs, st, ctx, node, awaited, opaque=True)


# ---------------------------------------------------------------------------
def hexlify(I: Any, v: Term, st: Any, ctx: Any, node: ast.AST) -> Term:
    s = T.to_seq(v)
    if s is None:
        return ("seq", "b", (("hexof", v),))
    if s[1] == "raw":
        return ("seq", "b", T.lower_atoms(s[2]))
    # bytes/str holding text: hex of each character
    out = []
    for a in s[2]:
        if a[0] == "L":
            out.append(("L", a[1].encode("utf-8").hex()))
        else:
            out.append(("hexof", ("ascii", a)))
    return T.seq("b", out)


def unhexlify(I: Any, v: Term, st: Any, ctx: Any, node: ast.AST) -> Term:
    where = ctx.loc(node)
    s = T.to_seq(v)
    if s is None or s[1] == "raw":
        st.may_raise("binascii.Error", ("invalid", "unhexlify", v), where)
        return ("seq", "raw", (("hx", app("unhexlify", [v]), 0, None),))
    bad = [a for a in s[2] if not T.is_hex_atom(a)]
    if bad:
        lit_bad = [a for a in bad if a[0] == "L"]
        st.may_raise("binascii.Error", c(True) if lit_bad else ("nonhex", tuple(bad)), where)
    w = T.seq_width(s)
    if w is None:
        st.may_raise("binascii.Error", ("oddlen?", s), where)
    else:
        odd_terms = {t: k for t, k in w.coef.items() if k % 2 != 0}
        if not odd_terms:
            if int(w.const) % 2 != 0:
                st.may_raise("binascii.Error", c(True), where)
        else:
            st.may_raise("binascii.Error", ("odd", ("lin", w)), where)
    return ("seq", "raw", T.strip_case(s[2]))


def _fmt_parts(fmt: str) -> Optional[Tuple[str, List[Tuple[str, int]]]]:
    m = re.fullmatch(r"([<>!=@]?)((?:\d*[a-zA-Z?])+)", fmt)
    if not m:
        return None
    order = m.group(1) or "@"
    items: List[Tuple[str, int]] = []
    sizes = {"B": 1, "b": 1, "H": 2, "h": 2, "I": 4, "i": 4, "L": 4, "l": 4, "Q": 8, "q": 8}
    for cnt, ch in re.findall(r"(\d*)([a-zA-Z?])", m.group(2)):
        if ch not in sizes:
            return None
        for _ in range(int(cnt) if cnt else 1):
            items.append((ch, sizes[ch]))
    return order, items


def dupfree_collection(I: Any, it: Term, st: Any) -> bool:
    """The collection holds no element twice: a set, or a sequence the path has tested with len(x) == len(set(x))."""
    if it[0] in ("cset", "condset") or (it[0] == "sym" and isinstance(it[2], tuple) and it[2] and it[2][0] == "set"):
        return True
    if it[0] == "obj" and st is not None and st.heap[it[1]].kind == "set":
        return True
    if st is not None:
        from .frames import flat_pc
        ln, ls = ("len", it), ("len", ("app", "set", it))
        have = flat_pc(list(st.pc))
        if ("cmp", "==", ln, ls) in have or ("cmp", "==", ls, ln) in have:
            return True
    return False


def sum_of_distinct_bound(I: Any, x: Term, st: Any) -> Optional[Tuple[int, int]]:
    """Range of sum(f(e) for e in xs) when f takes values from a finite table of non-negative integers and xs holds no
    element twice - and equal elements are the only way to get equal table entries' owners twice: [0, sum of the table]."""
    if x[0] == "app" and x[1] == "int" and len(x) == 3:
        x = x[2]
    if not (x[0] == "app" and x[1] == "sum" and len(x) == 3 and isinstance(x[2], tuple) and x[2][:1] == ("map",)):
        return None
    body, it = x[2][1], x[2][2]
    if not (isinstance(body, tuple) and body[:1] == ("eattr",) and len(body) > 3 and body[3] and all(isinstance(a, int) and not isinstance(a, bool) and a >= 0 for a in body[3])):
        return None
    if len(set(body[3])) != len(body[3]) or not dupfree_collection(I, it, st):
        return None
    return (0, sum(body[3]))


def struct_pack(I: Any, args: List[Term], st: Any, ctx: Any, node: ast.AST) -> Term:
    where = ctx.loc(node)
    if not args or not is_c(args[0]) or not isinstance(args[0][1], (str, bytes)):
        return top("struct.pack with non-constant format")
    fmt = args[0][1] if isinstance(args[0][1], str) else args[0][1].decode()
    parsed = _fmt_parts(fmt)
    if parsed is None or (parsed[0] in ("@", "=") and any(sz != 1 for _, sz in parsed[1])):
        # native order/size: platform dependent -> refuse to guess (single bytes have no order)
        return top(f"struct.pack format {fmt!r} not understood")
    order, items = parsed
    if len(items) != len(args) - 1:
        st.may_raise("struct.error", c(True), where)
        return top("never: struct.pack arity")
    atoms: List[Term] = []
    for (ch, size), val in zip(items, args[1:]):
        val = int_view(val)
        signed = ch.islower()
        rng = T.int_range(val)
        if rng is None or rng[0] is None or rng[1] is None:
            rng = sum_of_distinct_bound(I, val, st) or rng
        lo, hi = (-(1 << (8 * size - 1)), (1 << (8 * size - 1)) - 1) if signed else (0, (1 << (8 * size)) - 1)
        if rng is None or rng[0] is None or rng[1] is None or rng[0] < lo or rng[1] > hi:
            if rng is not None and rng[0] is not None and rng[1] is not None and (rng[1] < lo or rng[0] > hi):
                st.may_raise("struct.error", c(True), where)
            else:
                st.may_raise("struct.error", ("outofrange", val, lo, hi), where)
        ks = range(size) if order == "<" else range(size - 1, -1, -1)
        for k in ks:
            if size == 1 and not signed and not is_c(val) and rng is not None and rng[0] is not None and rng[1] is not None and 0 <= rng[0] and rng[1] <= 255:
                atoms.append(("fmt", "02x", val))        # the one byte of a value known to lie in 0..255 is the value: its hex is '{:02x}'
                continue
            b = T.byte_of_int(val, k, size)
            atoms.extend(b or [("hbi", val, k)])
    return T.seq("raw", atoms)


def struct_unpack(I: Any, args: List[Term], st: Any, ctx: Any, node: ast.AST) -> Term:
    fmt = args[0][1] if is_c(args[0]) else None
    parsed = _fmt_parts(fmt) if isinstance(fmt, str) else None
    s = T.to_seq(args[1])
    if parsed is None or s is None or s[1] != "raw" or len(parsed[1]) != 1 or parsed[0] in ("@", "="):
        return top("struct.unpack not understood")
    order, items = parsed
    st.may_raise("struct.error", ("cmp", "!=", length(I, args[1], st, ctx, node), c(items[0][1])), ctx.loc(node))
    u_ = int_from_bytes(args[1], c("little" if order == "<" else "big"), st, ctx, node)
    if items[0][0] in "bhilq":
        return signed_view(u_, 8 * items[0][1])
    return u_


def signed_view(u: Term, bits: int) -> Term:
    """Two's-complement reading of an unsigned value of `bits` bits: u when it is below 2**(bits-1), else u - 2**bits."""
    if is_c(u) and isinstance(u[1], int):
        return c(u[1] - (1 << bits) if u[1] >= (1 << (bits - 1)) else u[1])
    r = T.int_range(u)
    if r is not None and r[1] is not None and r[1] < (1 << (bits - 1)) and r[0] is not None and r[0] >= 0:
        return u
    return app("signed", [u, c(bits)])


def int_from_bytes(v: Term, order: Term, st: Any, ctx: Any, node: ast.AST) -> Term:
    s = T.to_seq(v)
    if s is None or s[1] != "raw" or not is_c(order):
        return app("int.from_bytes", [v, order])
    if order[1] == "big":
        return T.uint_of(s[2])
    nibs = T.nibbles_of(s[2])
    if nibs is None or len(nibs) % 2:
        return app("int.from_bytes", [v, order])
    pairs = [nibs[i:i + 2] for i in range(0, len(nibs), 2)]
    atoms = []
    for p in reversed(pairs):
        atoms.extend(T.nib_to_atom(n) for n in p)
    return T.uint_of(T.normalise_atoms(tuple(atoms)))


def int_view(v: Term) -> Term:
    """Strip int() around values that already are ints."""
    if v[0] == "app" and v[1] == "int" and len(v) == 3 and is_int_term(v[2]):
        return v[2]
    return v


def is_int_term(v: Term) -> bool:
    if is_c(v):
        return isinstance(v[1], int) and not isinstance(v[1], bool)
    if v[0] in ("uint", "len", "dec"):
        return True
    if v[0] == "sym":
        return v[2] == "int" or (isinstance(v[2], tuple) and v[2] and v[2][0] == "int")
    if v[0] == "lin":
        return all(is_int_term(t) and isinstance(k, int) for t, k in v[1].coef.items()) and isinstance(v[1].const, int)
    if v[0] == "app":
        if v[1] == "sum" and len(v) == 3 and isinstance(v[2], tuple) and v[2][:1] == ("map",) and is_int_term(v[2][1]):
            return True   # a sum of integers
        if v[1] in ("and", "or", "xor", "mod", "floordiv", "lshift", "rshift") and len(v) == 4 and is_int_term(v[2]) and is_int_term(v[3]):
            return True
        return v[1] in ("int", "crc_hqx", "binascii.crc_hqx", "floordiv_int", "sum_int")
    if v[0] == "eattr":
        return bool(len(v) > 3 and v[3] and all(isinstance(a, int) for a in v[3]))
    return False


def to_int(I: Any, args: List[Term], kwargs: Dict[str, Term], st: Any, ctx: Any, node: ast.AST) -> Term:
    where = ctx.loc(node)
    if not args:
        return c(0)
    v = args[0]
    base = args[1] if len(args) > 1 else kwargs.get("base")
    s = T.to_seq(v) if (T.is_seq(v) or (is_c(v) and isinstance(v[1], (str, bytes))) or v[0] == "sym" and v[2] in ("hex", "str") or (v[0] == "sym" and isinstance(v[2], tuple) and v[2] and v[2][0] in ("hexw", "hexbw"))) else None
    if s is not None:
        if s[1] == "raw":
            st.may_raise("ValueError", ("invalid", "int(raw bytes)", v), where)
            return app("int", args)
        b = as_const_int(base) if base is not None else 10
        if all(a[0] == "L" for a in s[2]):
            txt = "".join(a[1] for a in s[2])
            try:
                return c(int(txt, b if isinstance(b, int) else 10))
            except ValueError:
                st.may_raise("ValueError", c(True), where)
                return top("never: int() of invalid literal")
        # empty / short text: sources without a guaranteed length may yield '' -> ValueError
        short = short_condition(s, st)
        if b == 16:
            nonhex = [a for a in s[2] if not T.is_hex_atom(a)]
            if nonhex:
                st.may_raise("ValueError", ("nonhex", tuple(nonhex)), where)
            if short is not None:
                st.may_raise("ValueError", short, where)
            w = T.seq_width(s)
            if w is not None and w.is_const() and w.const == 0:
                st.may_raise("ValueError", c(True), where)
            return T.uint_of(s[2])
        if b == 10:
            st.may_raise("ValueError", ("nondecimal", s), where)
            return ("dec", s[2])
        st.may_raise("ValueError", ("invalid", "int", v, base), where)
        return app("int", args)
    if is_c(v) and isinstance(v[1], (int, float)):
        return c(int(v[1]))
    if is_int_term(v):
        return v
    if v[0] == "app" and v[1] == "truediv" and len(v) == 4 and is_c(v[3]) and isinstance(v[3][1], int) and v[3][1] > 0:
        a, k = v[2], v[3][1]
        if a[0] in ("lin", "len", "c") or is_int_term(a):
            la = Lin.of(a)
            if all(isinstance(q, int) and q % k == 0 for q in la.coef.values()) and isinstance(la.const, int) and la.const % k == 0:
                # exact: every coefficient divisible, so int(a / k) == a // k == a/k
                return Lin({t: q // k for t, q in la.coef.items()}, la.const // k).term()
    return app("int", [v])


def short_condition(s: Term, st: Any) -> Optional[Term]:
    """Condition under which a hex slice of a bytes source is shorter than written."""
    conds = []
    for a in s[2]:
        if a[0] in ("hx", "HX") and a[3] is not None and a[3] >= 0:
            src = a[1]
            need = (a[3] + 1) // 2
            if st.minlen.get(src, 0) < need:
                from .frames import int_bounds_from_guard
                lo_, _hi = int_bounds_from_guard(list(st.pc), ("len", src))
                if lo_ is None or lo_ < need:        # (not already excluded by the path's own length guards)
                    conds.append(("cmp", "<", ("len", src), c(need)))
        if a[0] == "sub" and a[3] is not None and a[3] >= 0:
            src = a[1]
            w = T.sym_width(src) if isinstance(src, tuple) else None
            if w is None or w < a[3]:
                conds.append(("cmp", "<", ("len", src), c(a[3])))
    if not conds:
        return None
    from .interp import disj
    return disj(conds)


def length(I: Any, v: Term, st: Any, ctx: Any, node: ast.AST) -> Term:
    if isinstance(v, tuple) and v[:1] == ("obj",) and st is not None and v[1] in st.heap and st.heap[v[1]].name == "bytearray":
        return length(I, st.heap[v[1]].fields["buf"], st, ctx, node)
    s = T.to_seq(v)
    if s is not None:
        w = T.seq_width(s)
        if w is None:
            return ("len", v)
        if st is not None and w.is_const():
            # a slice of a byte source that is not known to reach the slice's end has its written width only when
            # the source is long enough (a truncated reply gives a shorter text)
            sc = short_condition(s, st)
            if sc is not None:
                from .interp import ite, decided_by
                if decided_by(list(st.pc), sc) is not False:
                    return ite(sc, ("len", v), length(I, v, None, ctx, node))
        if s[1] == "raw":
            from fractions import Fraction

            def half(k: Any) -> Any:
                f = Fraction(k) / 2
                return int(f) if f.denominator == 1 else f

            w = Lin({t: half(k) for t, k in w.coef.items()}, half(w.const))
        return w.term()
    if v[0] == "obj":
        ho = st.heap[v[1]]
        if ho.kind in ("list", "set", "dict") and not ho.symbolic:
            return c(len(ho.items))
        return ("len", ("sym", I.describe(v, st), "any"))
    if v[0] in ("tuple", "clist", "cset", "cdict"):
        return c(len(v[1]))
    if v[0] == "splitlist":
        return ("nparts", v)
    if v[0] == "splitrest":
        return (Lin.of(("nparts", v[1])) - v[2]).term()     # the parts after the first k
    return ("len", v)


def arith(op: str, a: Term, b: Term) -> Term:
    if is_c(a) and is_c(b) and isinstance(a[1], (int, float)) and isinstance(b[1], (int, float)) and not isinstance(a[1], bool):
        try:
            return c({"add": lambda x, y: x + y, "sub": lambda x, y: x - y, "mul": lambda x, y: x * y,
                      "truediv": lambda x, y: x / y, "floordiv": lambda x, y: x // y, "mod": lambda x, y: x % y,
                      "and": lambda x, y: x & y, "or": lambda x, y: x | y, "xor": lambda x, y: x ^ y,
                      "lshift": lambda x, y: x << y, "rshift": lambda x, y: x >> y, "pow": lambda x, y: x ** y}[op](a[1], b[1]))
        except Exception:  # noqa: BLE001
            return app(op, [a, b])
    # the low / high hex digits of a number read from w digits: uint(d1..dw) % 16**k == uint(d(w-k+1)..dw), // gives the rest
    if op in ("mod", "floordiv") and a[0] == "uint" and is_c(b) and isinstance(b[1], int) and not isinstance(b[1], bool) and b[1] > 1 and (b[1] & (b[1] - 1)) == 0 and (b[1].bit_length() - 1) % 4 == 0:
        k_ = (b[1].bit_length() - 1) // 4
        w_ = T.const_width(("seq", "s", a[1]))
        if w_ is not None and int(w_) > k_:
            part = T.slice_seq(("seq", "s", a[1]), int(w_) - k_, int(w_)) if op == "mod" else T.slice_seq(("seq", "s", a[1]), 0, int(w_) - k_)
            if not is_top(part):
                return T.uint_of(part[2])
    # a remainder / quotient by a bound the value never reaches
    if op in ("mod", "floordiv") and is_c(b) and isinstance(b[1], int) and not isinstance(b[1], bool) and b[1] > 0 and is_int_term(a) and not is_c(a):
        ra_ = T.int_range(a)
        if ra_ is not None and ra_[0] is not None and ra_[1] is not None and 0 <= ra_[0] and ra_[1] < b[1]:
            return a if op == "mod" else c(0)
    # a left shift of an integer by a constant is a multiplication by a power of two
    if op == "lshift" and is_c(b) and isinstance(b[1], int) and not isinstance(b[1], bool) and 0 <= b[1] <= 64 and is_int_term(a) and not is_c(a):
        return arith("mul", a, c(1 << b[1]))
    # a | b of non-negative integers with no bit in common is a + b: one a multiple of 2**k, the other below 2**k
    if op == "or" and is_int_term(a) and is_int_term(b) and not is_c(a) and not is_c(b):
        for hi_, lo_ in ((a, b), (b, a)):
            rl_, rh_ = T.int_range(lo_), T.int_range(hi_)
            if rl_ is None or rh_ is None or rl_[0] is None or rl_[1] is None or rl_[0] < 0 or rh_[0] is None or rh_[0] < 0:
                continue
            m_ = 1 << max(rl_[1], 0).bit_length()
            lh_ = Lin.of(hi_) if hi_[0] in ("lin",) else None
            if lh_ is not None and isinstance(lh_.const, int) and lh_.const % m_ == 0 and lh_.const >= 0 and all(isinstance(q, int) and q > 0 and q % m_ == 0 for q in lh_.coef.values()) \
                    and all((T.int_range(t_) or (None, None))[0] is not None and T.int_range(t_)[0] >= 0 for t_ in lh_.coef):
                return arith("add", hi_, lo_)
    # quotient / remainder of a sum whose terms are multiples of k plus a rest within [0, k): the multiples / the rest
    if op in ("floordiv", "mod") and is_c(b) and isinstance(b[1], int) and not isinstance(b[1], bool) and b[1] > 1 and a[0] == "lin":
        la_ = Lin.of(a)
        k_ = b[1]
        if isinstance(la_.const, int) and all(isinstance(q, int) for q in la_.coef.values()):
            div_ = Lin({t_: q for t_, q in la_.coef.items() if q % k_ == 0}, la_.const - la_.const % k_)
            rest_ = Lin({t_: q for t_, q in la_.coef.items() if q % k_ != 0}, la_.const % k_)
            rt_ = rest_.term()
            rr_ = (rt_[1], rt_[1]) if is_c(rt_) else T.int_range(rt_)
            if div_.coef and rr_ is not None and rr_[0] is not None and rr_[1] is not None and 0 <= rr_[0] and rr_[1] < k_:
                if op == "mod":
                    return rt_
                return Lin({t_: q // k_ for t_, q in div_.coef.items()}, div_.const // k_).term()
    # identities with 0 on integers: 0 | x, x | 0, 0 ^ x, x ^ 0 are x
    if op in ("or", "xor"):
        for k_, x_ in ((a, b), (b, a)):
            if is_c(k_) and k_[1] == 0 and not isinstance(k_[1], bool) and isinstance(k_[1], int) and is_int_term(x_):
                return x_
    lin_ok = lambda v: v[0] in ("c", "lin", "sym", "len", "uint", "app", "dec", "eattr", "attr", "item", "elemof", "argmin", "argmax")  # noqa: E731
    if op in ("add", "sub") and lin_ok(a) and lin_ok(b) and not _is_datetime_like(a) and not _is_datetime_like(b):
        la, lb = Lin.of(a), Lin.of(b)
        return _recombine(la + lb if op == "add" else la - lb).term()
    if op == "mul" and lin_ok(a) and lin_ok(b):
        if is_c(a) and isinstance(a[1], (int, float)):
            return Lin.of(b).scale(a[1]).term()
        if is_c(b) and isinstance(b[1], (int, float)):
            return Lin.of(a).scale(b[1]).term()
    if op == "and" and ((is_c(a) and isinstance(a[1], int) and not isinstance(a[1], bool)) != (is_c(b) and isinstance(b[1], int) and not isinstance(b[1], bool))):
        k_, x_ = (a, b) if is_c(a) else (b, a)
        if x_[0] == "app" and x_[1] == "and" and len(x_) == 4:
            # nested constant masks fold: (M & y) & k == (M & k) & y
            for m_, y_ in ((x_[2], x_[3]), (x_[3], x_[2])):
                if is_c(m_) and isinstance(m_[1], int) and not isinstance(m_[1], bool):
                    return arith("and", c(m_[1] & k_[1]), y_)
        if k_[1] == 0:
            return c(0)
    # masks and shifts of non-negative integers are remainders and quotients by powers of two
    if op in ("and", "rshift") and is_c(b) and isinstance(b[1], int) and not isinstance(b[1], bool) and is_int_term(a):
        ra = T.int_range(a)
        if ra is not None and ra[0] is not None and ra[0] >= 0:
            if op == "and" and b[1] > 0 and (b[1] & (b[1] + 1)) == 0:
                return arith("mod", a, c(b[1] + 1))
            if op == "rshift" and 0 <= b[1] <= 64:
                return arith("floordiv", a, c(1 << b[1]))
    # digit extraction with positive constant moduli, valid for every integer x (floor semantics):
    #   (x // a) // b == x // (a*b);   (x % (a*b)) // a == (x // a) % b;   (x % (a*b)) % a == x % a
    if op in ("floordiv", "mod") and is_c(b) and isinstance(b[1], int) and not isinstance(b[1], bool) and b[1] > 0 and a[0] == "app" and len(a) == 4 and is_c(a[3]) and isinstance(a[3][1], int) and a[3][1] > 0 and is_int_term(a[2]):
        k, inner_op, x, m = b[1], a[1], a[2], a[3][1]
        if op == "floordiv" and inner_op == "floordiv":
            return arith("floordiv", x, c(m * k))
        if op == "floordiv" and inner_op == "mod" and m % k == 0:
            return arith("mod", arith("floordiv", x, c(k)), c(m // k)) if m // k > 1 else c(0)
        if op == "mod" and inner_op == "mod" and m % k == 0:
            return arith("mod", x, c(k))
    if op == "floordiv" and is_c(b) and isinstance(b[1], int) and b[1] > 0 and a[0] in ("lin", "len"):
        la = Lin.of(a)
        if all(isinstance(q, int) and q % b[1] == 0 for q in la.coef.values()) and isinstance(la.const, int) and la.const % b[1] == 0:
            return Lin({t: q // b[1] for t, q in la.coef.items()}, la.const // b[1]).term()
    if op == "truediv" and is_c(b) and isinstance(b[1], (int, float)) and lin_ok(a) and a[0] in ("lin", "len") :
        la = Lin.of(a)
        if all(k % b[1] == 0 for k in la.coef.values()) and la.const % b[1] == 0 and isinstance(b[1], int):
            # exact division of every coefficient: value is integral *as a float*; keep as marked term
            return ("app", "truediv", a, b)
    return app(op, [a, b])


def _merge_uints(l: Lin) -> Lin:
    """16**(w2+..+wn)*uint(D1) + ... + 16**wn*uint(Dn-1) + uint(Dn), each Di a run of wi hex digits, is the number read
    from the digits D1 ++ ... ++ Dn."""
    if l.const != 0 or len(l.coef) < 2:
        return l
    parts = []
    for t_, q in l.coef.items():
        if not (isinstance(t_, tuple) and t_[:1] == ("uint",) and isinstance(q, int) and q > 0):
            return l
        w_ = T.const_width(("seq", "s", t_[1]))
        if w_ is None:
            return l
        parts.append((q, int(w_), t_))
    parts.sort(key=lambda p_: -p_[0])
    shift = 0
    for q, w_, _t in reversed(parts):
        if q != 16 ** shift:
            return l
        shift += w_
    atoms: Tuple[Any, ...] = ()
    for _q, _w, t_ in parts:
        atoms = atoms + tuple(t_[1])
    return Lin({T.uint_of(T.normalise_atoms(atoms)): 1}, 0)


def _recombine(l: Lin) -> Lin:
    """q*k*(x // k) + q*(x % k) is q*x (every integer x, k > 0)."""
    l = _merge_uints(l)
    for t_, q in list(l.coef.items()):
        if isinstance(t_, tuple) and t_[:2] == ("app", "mod") and len(t_) == 4 and is_c(t_[3]) and isinstance(t_[3][1], int) and t_[3][1] > 0 and isinstance(q, int):
            d_ = ("app", "floordiv", t_[2], t_[3])
            if l.coef.get(d_) == q * t_[3][1] and is_int_term(t_[2]):
                co = dict(l.coef)
                del co[t_], co[d_]
                return _recombine(Lin(co, l.const) + Lin.of(t_[2]).scale(q))
    return l


def _is_datetime_like(v: Term) -> bool:
    if v[0] != "app":
        return False
    if v[1] in (".weekday", ".isoweekday", ".toordinal", ".timestamp", ".total_seconds", "time.time", "time.mktime"):
        return False  # plain numbers
    return str(v[1]).startswith(("datetime.", "time.", ".")) or v[1] in ("add", "sub") and any(_is_datetime_like(x) for x in v[2:] if isinstance(x, tuple))


def binop(I: Any, op: ast.operator, a: Term, b: Term, st: Any, ctx: Any, node: ast.AST) -> Term:
    if isinstance(op, ast.Add):
        a, b = buffer_content(a, st), buffer_content(b, st)     # bytearray + bytes: a new value with the contents of both
    sa = T.to_seq(a) if _textlike(a) else None
    sb = T.to_seq(b) if _textlike(b) else None
    if isinstance(op, ast.Add) and a[0] in ("obj", "tuple", "clist") and b[0] in ("obj", "tuple", "clist"):
        # list + list / tuple + tuple of known items: a new sequence with the items of both
        def _kind(v: Term) -> Optional[str]:
            if v[0] == "tuple":
                return "tuple"
            if v[0] == "clist":
                return "list"
            ho_ = st.heap.get(v[1]) if st is not None else None
            return "list" if ho_ is not None and ho_.kind == "list" and not ho_.symbolic and not ho_.name.startswith(("gen:", "iter:")) else None
        ka, kb = _kind(a), _kind(b)
        if ka is not None and ka == kb:
            ia, ib = I.iter_items(a, st, ctx, node), I.iter_items(b, st, ctx, node)
            if ia is not None and ib is not None:
                if ka == "tuple":
                    return ("tuple", tuple(ia + ib))
                from .interp import HeapObj
                return st.alloc(HeapObj("list", None, {}, list(ia + ib)))
    if isinstance(op, ast.Add):
        if sa is not None and sb is not None:
            if is_c(a) and is_c(b) and type(a[1]) is type(b[1]):
                return c(a[1] + b[1])
            return merge_strftime(T.concat(sa, sb))
        if sa is not None or sb is not None:
            # text + opaque text term
            other = b if sa is not None else a
            if other[0] in ("app", "item", "attr", "sym", "ite", "lookup", "extmeth"):
                o = ("seq", (sa or sb)[1], (("txt", other),))
                return T.concat(sa, o) if sa is not None else T.concat(o, sb)
        return arith("add", a, b)
    if isinstance(op, ast.Mult):
        if sa is not None and not _textlike(b):
            return repeat(sa, b)
        if sb is not None and not _textlike(a):
            return repeat(sb, a)
        return arith("mul", a, b)
    name = {
        ast.Sub: "sub", ast.Div: "truediv", ast.FloorDiv: "floordiv", ast.Mod: "mod", ast.BitAnd: "and",
        ast.BitOr: "or", ast.BitXor: "xor", ast.LShift: "lshift", ast.RShift: "rshift", ast.Pow: "pow",
    }.get(type(op))
    if name is None:
        raise AnalysisError(f"unsupported operator at {ctx.loc(node)}")
    if name == "mod" and sa is not None:
        return percent_format(I, sa, b, st, ctx, node)
    if name == "or" and (_condlike(a) or _condlike(b)):
        from .interp import disj
        return disj([I.truth(a, st), I.truth(b, st)])
    return arith(name, a, b)


def _condlike(v: Term) -> bool:
    from .interp import _is_cond
    return _is_cond(v)


def _textlike(v: Term) -> bool:
    if T.is_seq(v):
        return True
    if v[0] == "lookup" and all(is_c(x) and isinstance(x[1], str) for _, x in v[1]):
        return True
    if is_c(v) and isinstance(v[1], (str, bytes)):
        return True
    if v[0] == "sym" and (v[2] in ("str", "hex", "bytes", "hexbytes") or (isinstance(v[2], tuple) and v[2] and v[2][0] in ("hexw", "hexbw", "bytesr"))):
        return True
    if v[0] == "eattr" and len(v) > 3 and v[3] and all(isinstance(x, str) for x in v[3]):
        return True
    return False


def repeat(s: Term, n: Term) -> Term:
    if is_c(n) and isinstance(n[1], int):
        return T.seq(s[1], s[2] * max(0, n[1]))
    if len(s[2]) == 1 and s[2][0][0] == "L":
        return T.seq(s[1], (("rep", s[2][0][1], n),))
    return top("repeat of symbolic text by symbolic count")


# ---------------------------------------------------------------------------
def slice_value(I: Any, base: Term, lo: Optional[Term], hi: Optional[Term], st: Any, ctx: Any, node: ast.AST) -> Term:
    l, h = as_const_int(lo), as_const_int(hi)
    if l == "?" or h == "?":
        return app("slice", [base, lo or c(None), hi or c(None)])
    s = T.to_seq(base) if _textlike(base) else None
    if s is not None:
        return T.slice_seq(s, l, h)
    if base[0] in ("tuple", "clist"):
        return (base[0], base[1][l:h])
    if base[0] == "app" and base[1] in ("time.localtime", "time.gmtime", "time.strptime"):
        its = I.iter_items(base, st, ctx, node)
        if its is not None:
            return ("tuple", tuple(its[l:h]))      # a slice of a struct_time is a tuple of its fields
    if base[0] == "obj" and st.heap[base[1]].kind == "list" and not st.heap[base[1]].symbolic:
        from .interp import HeapObj
        return st.alloc(HeapObj("list", None, {}, st.heap[base[1]].items[l:h]))
    if base[0] == "sym" and isinstance(base[2], tuple) and base[2] and base[2][0] == "list" and (l is None or l >= 0) and (h is None or h >= 0):
        return ("slicelist", base, l or 0, h)
    return app("slice", [base, lo or c(None), hi or c(None)])


def reverse_value(I: Any, base: Term, st: Any, ctx: Any, node: ast.AST) -> Term:
    """x[::-1] for byte strings / text of constant width and for concrete lists."""
    s = T.to_seq(base) if _textlike(base) else None
    if s is not None:
        unit = 2 if s[1] == "raw" else 1
        w = T.const_width(s)
        if w is None or w % unit:
            return top("reversal of a sequence of non-constant width")
        parts = []
        for k in range(w // unit - 1, -1, -1):
            piece = T.slice_seq(("seq", "s", s[2]), k * unit, (k + 1) * unit)
            if is_top(piece):
                return piece
            parts.extend(piece[2])
        return T.seq(s[1], parts)
    if base[0] == "obj" and st.heap[base[1]].kind == "list" and not st.heap[base[1]].symbolic:
        from .interp import HeapObj
        return st.alloc(HeapObj("list", None, {}, list(reversed(st.heap[base[1]].items))))
    if base[0] in ("tuple", "clist"):
        return (base[0], tuple(reversed(base[1])))
    return top("reversal of a symbolic collection")


def index_value(I: Any, base: Term, idx: Term, st: Any, ctx: Any, node: ast.AST) -> Term:
    where = ctx.loc(node)
    i = as_const_int(idx)
    if base[0] == "app" and base[1] in ("range", "builtins.range") and 3 <= len(base) <= 5 and all(is_c(x) and isinstance(x[1], int) for x in base[2:]) and isinstance(i, int):
        r_ = range(*[x[1] for x in base[2:]])
        if -len(r_) <= i < len(r_):
            return c(r_[i])
        st.may_raise("IndexError", c(True), where)
        return top("never: range index out of range")
    if base[0] == "mapobj" and len(base) == 4 and base[3] == "list":
        # list built by a comprehension over a symbolic collection: an element of it
        st.may_raise("IndexError", ("emptyindex", base, idx), where)
        return ("elemof", base, idx)
    if base[0] == "app" and base[1] == "list" and len(base) == 3 and isinstance(base[2], tuple) and base[2][0] == "filterobj":
        fo = base[2]
        st.may_raise("IndexError", ("nomatch", fo[1], fo[2], idx), where)
        return ("elemof", fo[2], ("where", fo[1], idx))
    if base[0] in ("tuple", "clist"):
        if isinstance(i, int):
            if -len(base[1]) <= i < len(base[1]):
                return base[1][i]
            st.may_raise("IndexError", c(True), where)
            return top("never: index out of range")
        if is_int_term(idx) and base[1]:
            # constant table indexed by a symbolic position: a lookup by position (negative indices excluded by the guard)
            st.may_raise("IndexError", ("indexrange", idx, c(len(base[1]))), where)
            return ("lookup", tuple((c(k), v) for k, v in enumerate(base[1])), idx)
    if base[0] == "cdict":
        return dict_lookup(I, list(base[1]), idx, st, where, "const-dict")
    if base[0] == "obj":
        ho = st.heap[base[1]]
        if ho.kind == "list" and not ho.symbolic:
            if isinstance(i, int):
                if -len(ho.items) <= i < len(ho.items):
                    return ho.items[i]
                st.may_raise("IndexError", c(True), where)
                return top("never: index out of range")
            st.may_raise("IndexError", ("indexrange", idx, c(len(ho.items))), where)
            return ("item", ("tuple", tuple(ho.items)), idx)
        if ho.kind == "dict" and not ho.symbolic:
            return dict_lookup(I, ho.items, idx, st, where, I.describe(base, st))
        if (ho.kind == "obj" and ho.symbolic) or (ho.kind == "dict" and ho.symbolic):
            st.may_raise("KeyError", ("cmp", "not in", I.canon_cmp_operand(idx, st), ("keysof", ("sym", ho.name, "any"))), where)
            return ("item", ("sym", ho.name, "any"), I.canon_cmp_operand(idx, st))
    if base[0] == "splitrest" and isinstance(i, int) and i >= 0:
        st.may_raise("IndexError", ("cmp", "<=", ("nparts", base[1]), c(i + base[2])), where)
        return ("seq", "s", (("txt", ("part", base[1], i + base[2])),))
    if base[0] == "splitlist":
        if isinstance(i, int) and i >= 0:
            st.may_raise("IndexError", ("cmp", "<=", ("nparts", base), c(i)), where)
            return ("seq", "s", (("txt", ("part", base, i)),))
    if base[0] == "chunks" and isinstance(i, int) and i >= 0:
        return T.slice_seq(base[1], i * base[2], (i + 1) * base[2])
    s = T.to_seq(base) if _textlike(base) else None
    if s is not None and isinstance(i, int) and i >= 0:
        st.may_raise("IndexError", ("cmp", "<=", length(I, s, st, ctx, node), c(i)), where)
        r = T.slice_seq(s, i, i + 1)
        if s[1] == "raw":
            return T.uint_of(r[2]) if not is_top(r) else r
        return r
    if base[0] in ("sym", "item", "attr", "app", "lookup"):
        typ = base[2] if base[0] == "sym" else None
        idx = I.canon_cmp_operand(idx, st)
        st.may_raise("KeyError" if typ in ("json", "dict", "any", None) else "IndexError",
                     ("cmp", "not in", idx, ("keysof", base)), where)
        return ("item", base, idx)
    if base[0] == "mapobj" and len(base) == 4 and base[3] == "list":
        # a list built by a comprehension over a symbolic collection: element idx is the body applied to that element
        st.may_raise("IndexError", ("cmp", "not in", idx, ("keysof", base)), where)
        return ("item", base, idx)
    if base[0] in ("mapobj", "filterobj", "map") and len(base) == 3:
        st.may_raise("TypeError", c(True), where)
        return top("never: subscript of iterator")
    return top(f"subscript of {T.show(base)}")


def dict_lookup(I: Any, items: List[Tuple[Term, Term]], key: Term, st: Any, where: str, desc: str) -> Term:
    from .interp import fold_cmp, _is_cond, ite as _ite
    if isinstance(key, tuple) and key and _is_cond(key) and not is_c(key):
        # a table keyed by a truth value: {True: a, False: b}[p] is a if p else b (KeyError only for a missing entry)
        byb = {k_[1]: v_ for k_, v_ in items if is_c(k_) and isinstance(k_[1], bool)}
        if True in byb and False in byb:
            return _ite(key, byb[True], byb[False])
    key2 = I.canon_cmp_operand(key, st)
    maybe: List[Tuple[Term, Term]] = []
    for k, v in items:
        k2 = I.canon_cmp_operand(k, st)
        r = fold_cmp("==", key2, k2)
        if r is True:
            return v
        if r is None:
            maybe.append((k2, v))
    if not maybe:
        st.may_raise("KeyError", c(True), where)
        return top(f"never: key {T.show(key)} not in {desc}")
    keys = tuple(k for k, _ in maybe)
    cond = key_missing_cond(I, key2, keys)
    st.may_raise("KeyError", cond, where)
    if len(maybe) == 1:
        return maybe[0][1]   # a one-entry table: wherever the lookup succeeds the key is that entry's
    return ("lookup", tuple(maybe), key2)


def dict_get(I: Any, items: List[Tuple[Term, Term]], key: Term, default: Term, st: Any, where: str, desc: str) -> Term:
    """d.get(key, default) for a table with known entries.  A key that is a choice gives the choice of the results; a key
    that is itself read from a table of constants gives the composed table (k -> d.get(t[k], default))."""
    from .interp import ite as _ite
    if isinstance(key, tuple) and len(key) == 4 and key[0] == "ite":
        return _ite(key[1], dict_get(I, items, key[2], default, st, where, desc), dict_get(I, items, key[3], default, st, where, desc))
    if isinstance(key, tuple) and len(key) == 3 and key[0] == "lookup" and key[1] and all(_const_key(v_) for _, v_ in key[1]):
        comp = tuple((k_, dict_get(I, items, v_, default, st, where, desc)) for k_, v_ in key[1])
        if len({repr(v_) for _, v_ in comp}) == 1:
            return comp[0][1]
        return ("lookup", comp, key[2])
    p0 = len(st.pending)
    v = dict_lookup(I, items, key, st, where, desc)
    # .get never raises: turn the KeyError guard into a default
    conds = [cnd for (e, cnd, w, nev) in st.pending[p0:] if e == "KeyError"]
    del st.pending[p0:]
    if not conds:
        return v
    if is_c(conds[0]) and conds[0][1] is True:
        return default
    return ite_pos(conds[0], default, v)


def _const_key(v: Term) -> bool:
    return isinstance(v, tuple) and bool(v) and (v[0] in ("c", "enum") or (v[0] == "seq" and len(v) == 3 and all(isinstance(a, tuple) and a[:1] == ("L",) for a in v[2])))


def key_missing_cond(I: Any, key: Term, keys: Tuple[Term, ...]) -> Term:
    """Condition `key not in keys`, folded when the key's type is covered by the keys."""
    if key[0] == "sym" and isinstance(key[2], tuple) and key[2] and key[2][0] == "enum":
        ci = I.prog.cls(key[2][1])
        members = {("enum", EnumRef(ci.key, m)) for m in ci.enum.members}
        if members <= set(keys):
            return c(False)
    if key[0] == "eattr" and len(key) > 3 and key[3]:
        alts = {I.canon_cmp_operand(I.lift(a), None) for a in key[3]}
        if alts <= set(keys):
            return c(False)
    if len(keys) == 1:
        from .interp import mkcmp
        return mkcmp("!=", key, keys[0])
    return ("cmp", "not in", key, ("tuple", keys))


def conj_all(parts: List[Term]) -> Term:
    from .interp import conj
    return conj(parts)


def neg_(cnd: Term) -> Term:
    from .interp import neg
    return neg(cnd)


def ite_pos(cond: Term, a: Term, b: Term) -> Term:
    """ite with a positive test: ite(x != k, a, b) is written ite(x == k, b, a)."""
    from .interp import ite, neg
    if isinstance(cond, tuple) and cond and ((cond[0] == "cmp" and cond[1] in ("!=", "not in", "is not")) or cond[0] == "not"):
        return ite(neg(cond), b, a)
    return ite(cond, a, b)


def _flag_value(I: Any, v: Term) -> Optional[Tuple[str, int]]:
    """(class key, integer value) of a member of an enum.Flag / IntFlag class with plain int values."""
    if v[0] != "enum":
        return None
    ci = I.prog.cls(v[1].cls)
    if not any(ci.is_subclass_of_ext(b_) for b_ in ("enum.Flag", "enum.IntFlag")):
        return None
    val = ci.enum.members.get(v[1].member) if ci.enum is not None else None
    return (ci.key, val) if isinstance(val, int) and not isinstance(val, bool) else None


def membership(I: Any, x: Term, coll: Term, st: Any, ctx: Any, node: ast.AST) -> Optional[Term]:
    from .interp import fold_cmp
    fx, fc = _flag_value(I, x), _flag_value(I, coll)
    if fx is not None and fc is not None and fx[0] == fc[0]:
        return c(fx[1] & fc[1] == fx[1])      # Flag containment: every bit of x is set in coll
    if fx is not None and coll[0] == "lookup" and coll[1] and all(_flag_value(I, v_) is not None and _flag_value(I, v_)[0] == fx[0] for _, v_ in coll[1]):
        return ("lookup", tuple((k_, c(fx[1] & _flag_value(I, v_)[1] == fx[1])) for k_, v_ in coll[1]), coll[2])
    items: Optional[List[Term]] = None
    if coll[0] in ("tuple", "clist", "cset"):
        items = list(coll[1])
    elif coll[0] == "cdict":
        items = [k for k, _ in coll[1]]
    elif coll[0] == "obj":
        ho = st.heap[coll[1]]
        if ho.kind in ("list", "set") and not ho.symbolic:
            items = list(ho.items)
        elif ho.kind == "dict" and not ho.symbolic:
            items = [k for k, _ in ho.items]
        else:
            return ("cmp", "in", x, ("keysof", ("sym", I.describe(coll, st), "any")))
    if items is None:
        if coll[0] == "mapobj" and len(coll) == 4:
            return ("cmp", "in", x, coll)
        return None
    maybe = []
    for it in items:
        r = fold_cmp("==", x, I.canon_cmp_operand(it, st))
        if r is True:
            return c(True)
        if r is None:
            maybe.append(I.canon_cmp_operand(it, st))
    if not maybe:
        return c(False)
    missing = key_missing_cond(I, x, tuple(maybe))
    if is_c(missing):
        return c(not missing[1])
    if len(maybe) == 1:
        from .interp import mkcmp
        return mkcmp("==", x, maybe[0])
    return ("cmp", "in", x, ("tuple", tuple(maybe)))


def _builtin_type_of(v: Term, st: Any) -> Optional[str]:
    if is_c(v):
        return type(v[1]).__name__
    t = v[0]
    if t in ("tuple",):
        return "tuple"
    if t in ("clist", "splitlist", "splitrest") or (t == "mapobj" and len(v) == 4 and v[3] == "list"):
        return "list"
    if t in ("cset", "condset"):
        return "set"
    if t == "cdict":
        return "dict"
    if t == "seq":
        return "str" if v[1] == "s" else "bytes"
    if t in ("uint", "len", "dec") or (t in ("lin", "app") and is_int_term(v)):
        return "int"
    if t == "obj" and st is not None and st.heap[v[1]].cls is None and st.heap[v[1]].kind in ("list", "set", "dict") and not st.heap[v[1]].name.startswith(("gen:", "iter:")):
        return st.heap[v[1]].kind
    if t == "sym":
        if v[2] in ("str", "bytes", "int", "float", "bool"):
            return v[2]
        if v[2] == "hex" or (isinstance(v[2], tuple) and v[2] and v[2][0] == "hexw"):
            return "str"
        if isinstance(v[2], tuple) and v[2] and v[2][0] in ("set", "list", "int"):
            return v[2][0]
    return None


def isinstance_cond(I: Any, v: Term, cls: Term, st: Any) -> Term:
    bnames = None
    if cls[0] == "builtin":
        bnames = [cls[1]]
    elif cls[0] == "tuple" and cls[1] and all(x[0] == "builtin" for x in cls[1]):
        bnames = [x[1] for x in cls[1]]
    if bnames is not None and all(b in ("list", "tuple", "set", "dict", "str", "bytes", "int", "float", "bool", "frozenset", "bytearray") for b in bnames):
        bt = _builtin_type_of(v, st)
        if bt is not None:
            return c(bt in bnames or (bt == "bool" and "int" in bnames))
    if v[0] == "obj" and cls[0] == "class":
        ho = st.heap[v[1]]
        if ho.cls is not None:
            return c(cls[1] in ho.cls.mro())
    if v[0] == "enum" and cls[0] == "class":
        return c(I.prog.cls(v[1].cls) is cls[1])
    if is_c(v) and cls[0] == "class":
        return c(False)     # None / a number / a string is not an instance of a repository class
    if v[0] == "sym" and isinstance(v[2], tuple) and v[2] and v[2][0] == "enum" and cls[0] == "class":
        return c(I.prog.cls(v[2][1]) is cls[1])
    if cls[0] == "class" and ((v[0] == "sym" and (v[2] in ("str", "bytes", "int", "float", "bool", "hex") or (isinstance(v[2], tuple) and v[2] and v[2][0] in ("set", "list", "int", "hexw", "hexbw"))))
                              or v[0] in ("seq", "tuple", "clist", "cset", "cdict", "uint", "lin", "len")
                              or (v[0] == "obj" and st is not None and st.heap[v[1]].cls is None and st.heap[v[1]].kind in ("list", "set", "dict") and not st.heap[v[1]].symbolic)):
        return c(False)     # a builtin container / number / text is not an instance of a repository class
    if v[0] == "lookup" and cls[0] == "class" and v[1] and all(x[0] == "enum" for _, x in v[1]):
        rs = {I.prog.cls(x[1].cls) is cls[1] for _, x in v[1]}
        if len(rs) == 1:
            return c(rs.pop())
    if v[0] == "ite" and len(v) == 4:
        from .interp import ite
        a, b = isinstance_cond(I, v[2], cls, st), isinstance_cond(I, v[3], cls, st)
        if is_c(a) and is_c(b):
            if a[1] and not b[1]:
                return v[1]
            if b[1] and not a[1]:
                from .interp import neg
                return neg(v[1])
            return c(a[1])
        return ite(v[1], a, b)
    return ("isinstance", v, cls)


def enum_by_value(I: Any, ci: ClassInfo, args: List[Term], st: Any, ctx: Any, node: ast.AST) -> Term:
    en = ci.enum
    if en is not None and len(args) == 1 and en.members and all(isinstance(v, (int, str)) and not isinstance(v, bool) for v in en.members.values()) and len(set(en.members.values())) == len(en.members) \
            and not ci.find_method("_missing_") and not ci.find_method("__new__"):
        # Enum(value) over plain distinct int / str values: the member whose value it is, ValueError when there is none
        from .interp import EnumRef, fold_cmp
        x = I.canon_cmp_operand(args[0], st)
        vals = [(I.canon_cmp_operand(c(v), st), ("enum", EnumRef(ci.key, m))) for m, v in en.members.items()]
        for k_, mem_ in vals:
            if fold_cmp("==", x, k_) is True:
                return mem_
        st.may_raise("ValueError", ("cmp", "not in", x, ("tuple", tuple(k_ for k_, _ in vals))), ctx.loc(node))
        return ("lookup", tuple(vals), x)
    st.may_raise("ValueError", ("invalid", "enum value", ci.key, tuple(args)), ctx.loc(node))
    return app("enum_by_value", [c(ci.key)] + list(args))


# ---------------------------------------------------------------------------
def lambda_norm(I: Any, f: Term, it: Term, st: Any, ctx: Any, node: ast.AST) -> Term:
    """Body of a unary callable applied to the canonical element symbol of `it`."""
    et: Any = ("elemof", it)
    if it[0] == "sym" and isinstance(it[2], tuple) and it[2] and it[2][0] in ("set", "list"):
        et = it[2][1]
    if it[0] == "class" and it[1].enum is not None:
        et = ("enum", it[1].key)
    elem = ("sym", "$e", et)
    return I.call(f, [elem], {}, st, ctx, node)


def make_map(I: Any, f: Term, it: Term, st: Any, ctx: Any, node: ast.AST) -> Term:
    if I.iter_items(it, st, ctx, node) is not None:
        return ("mapobj", f, it)
    if f[0] in ("extmeth", "bound", "func", "partialobj", "biometh") and not (f[0] == "extmeth" and _textlike(f[1])):
        # a method of an object / a repository function mapped over a collection of unknown length: applied to each
        # element when the map is iterated (its effects belong to that element), not once to a placeholder
        return ("lazymap", f, it)
    return ("map", lambda_norm(I, f, it, st, ctx, node), it)


# ---------------------------------------------------------------------------
def format_value(I: Any, x: Term, spec: str, st: Any, ctx: Any, node: ast.AST) -> Term:
    where = ctx.loc(node)
    if spec != "" and isinstance(x, tuple) and len(x) == 4 and x[0] == "ite":
        # the formatted text of a choice is the choice of the formatted texts
        from .interp import decided_by as _dec
        d_ = _dec(st.pc, x[1]) if st is not None else None
        if d_ is not None:
            return format_value(I, x[2] if d_ else x[3], spec, st, ctx, node)
        fa_, fb_ = format_value(I, x[2], spec, st, ctx, node), format_value(I, x[3], spec, st, ctx, node)
        if T.is_seq(fa_) and T.is_seq(fb_) and fa_[1] == fb_[1]:
            return fa_ if fa_ == fb_ else ("seq", fa_[1], (("alt", x[1], fa_, fb_),))
    if spec == "" and isinstance(x, tuple) and x[:2] == ("app", "ipaddress.IPv4Address") and len(x) == 3:
        return text_of(app("inet_ntoa", [x[2]]))
    if spec == "%H:%M:%S" and isinstance(x, tuple) and x[:2] == ("app", "datetime.time") and all(isinstance(a, tuple) and a[:1] == ("kw",) and a[1] in ("hour", "minute", "second") for a in x[2:]):
        # format(t, "%H:%M:%S") (= t.strftime) of a naive time without microseconds is t.isoformat()
        return text_of(app(".isoformat", [x]))
    if spec == "":
        s = T.to_seq(x) if _textlike(x) else None
        if s is not None:
            if s[1] == "s":
                return s
            # str(bytes) is the repr b'..'; the repository never relies on it
            return ("seq", "s", (("txt", app("repr", [x])),))
        if is_c(x):
            return c(str(x[1]))
        if x[0] == "enum":
            return c(f"{x[1].cls.split(':')[1]}.{x[1].member}")
        if x[0] == "ite":
            a = format_value(I, x[2], spec, st, ctx, node)
            b = format_value(I, x[3], spec, st, ctx, node)
            return ("seq", "s", (("alt", x[1], a, b),))
        if is_int_term(x):
            return ("seq", "s", (("fmt", "d", x),))
        if x[0] == "obj" and st is not None and x[1] in st.heap and st.heap[x[1]].cls is not None:
            # str() / format() of a repository instance is its own __str__ (the dataclass / object repr otherwise: not modelled)
            m_ = st.heap[x[1]].cls.find_method("__str__")
            if m_ is not None:
                return I.call_user_nested(("bound", x, m_), [], {}, st, ctx, node)
            return top(f"text of an instance of {st.heap[x[1]].cls.name} (its repr) is not modelled")
        return text_of(app("str", [x]))
    tmf = tm_field_text(x, spec)
    if tmf is not None:
        return tmf
    if isinstance(x, tuple) and x[:1] == ("uint",) and re.fullmatch(r"0(\d+)x", spec):
        # the zero-padded hex text of a number read from exactly that many hex digits is those digits
        wq = T.const_width(("seq", "s", x[1]))
        if wq is not None and int(wq) == int(spec[1:-1]):
            return ("seq", "s", T.lower_atoms(x[1]))
    ba = byte_atom_of(x)
    if ba is not None and spec in ("02x", "02X"):
        return ("seq", "s", (ba if spec == "02x" else ("upper", ba),))
    if spec in ("04x", "06x", "08x") and x[0] == "lin" and is_int_term(x):
        # the zero-padded hex text of a sum of bytes at their positions (256*hi + lo, ...) is the hex of those bytes, high first
        n_ = int(spec[1]) // 2
        rx_ = T.int_range(x)
        if rx_ is not None and rx_[0] is not None and rx_[1] is not None and 0 <= rx_[0] and rx_[1] < 256 ** n_:
            parts_ = []
            for k_ in range(n_ - 1, -1, -1):
                q_ = arith("mod", arith("floordiv", x, c(256 ** k_)) if k_ else x, c(256))
                ba_ = byte_atom_of(q_)
                if ba_ is None:
                    rq_ = T.int_range(q_)
                    if not is_c(q_) and rq_ is not None and rq_[0] is not None and rq_[1] is not None and 0 <= rq_[0] and rq_[1] <= 255:
                        ba_ = byte_atom_of(arith("mod", q_, c(256))) if q_[:2] != ("app", "mod") else None
                parts_.append(("L", "%02x" % q_[1]) if is_c(q_) else ba_)
            if all(p_ is not None for p_ in parts_):
                return T.seq("s", tuple(parts_))
    # numeric presentation
    x = int_view(x)
    if is_c(x):
        try:
            return c(format(x[1], spec))
        except Exception:  # noqa: BLE001
            st.may_raise("ValueError", c(True), where)
            return top("never: bad format spec")
    if _textlike(x) and re.fullmatch(r"0?\d*[xXdb]", spec):
        st.may_raise("ValueError", c(True), where)
        return top("never: numeric format of text")
    return ("seq", "s", (("fmt", spec, x),))


_TM_DIRECTIVE = {"tm_hour": "%H", "tm_min": "%M", "tm_sec": "%S", "tm_mday": "%d", "tm_mon": "%m"}


def tm_field_text(x: Term, spec: str) -> Optional[Term]:
    """f"{t.tm_hour:02d}" for a struct_time t is time.strftime("%H", t) (two zero-padded digits, 0..23/59/..)."""
    if spec == "02d" and isinstance(x, tuple) and x and x[0] == "extmeth" and x[2] in _TM_DIRECTIVE:
        X = x[1]
        if isinstance(X, tuple) and X[:1] == ("app",) and X[1] in ("time.localtime", "time.gmtime", "time.strptime"):
            return ("seq", "s", (("txt", ("app", "time.strftime", c(_TM_DIRECTIVE[x[2]]), X)),))
    return None


def merge_strftime(v: Term) -> Term:
    """strftime(f1, t) ++ lit ++ strftime(f2, t) == strftime(f1 ++ lit ++ f2, t): one canonical (coarsest) form."""
    if not T.is_seq(v) or v[1] != "s":
        return v
    atoms = list(v[2])

    def sf(a: Any) -> Optional[Tuple[str, Term]]:
        if a[0] == "txt" and isinstance(a[1], tuple) and a[1][:2] == ("app", "time.strftime") and len(a[1]) == 4 and is_c(a[1][2]) and isinstance(a[1][2][1], str):
            return a[1][2][1], a[1][3]
        return None

    changed = True
    while changed:
        changed = False
        for i in range(len(atoms)):
            x = sf(atoms[i])
            if x is None:
                continue
            j = i + 1
            lit = ""
            if j < len(atoms) and atoms[j][0] == "L":
                lit = atoms[j][1]
                j += 1
            if j < len(atoms):
                y = sf(atoms[j])
                if y is not None and y[1] == x[1]:
                    fmt = x[0] + lit.replace("%", "%%") + y[0]
                    atoms[i:j + 1] = [("txt", ("app", "time.strftime", c(fmt), x[1]))]
                    changed = True
                    break
    return ("seq", "s", tuple(atoms)) if len(atoms) != len(v[2]) else v


def byte_atom_of(x: Term) -> Optional[Term]:
    """x % 256 and (x // 256) of a 16-bit x, (x // 256**k) % 256 ...: the k-th little-endian byte of x, as the
    same ("hbi", x, k) atom that hexlify(pack("<H"/"<I", x)) yields."""
    if not (isinstance(x, tuple) and x and x[0] == "app" and len(x) == 4 and is_c(x[3]) and isinstance(x[3][1], int)):
        return None
    if x[1] == "mod" and x[3][1] == 256:
        inner = x[2]
        if isinstance(inner, tuple) and inner[:2] == ("app", "floordiv") and len(inner) == 4 and is_c(inner[3]) and inner[3][1] in (256, 65536, 16777216) and is_int_term(inner[2]):
            r = T.int_range(inner[2])
            if r is not None and r[0] is not None and r[0] >= 0:
                return ("hbi", inner[2], {256: 1, 65536: 2, 16777216: 3}[inner[3][1]])
        if is_int_term(inner):
            r = T.int_range(inner)
            if r is not None and r[0] is not None and r[0] >= 0:
                return ("hbi", inner, 0)
    if x[1] == "floordiv" and x[3][1] in (256, 65536, 16777216) and is_int_term(x[2]):
        r = T.int_range(x[2])
        k = {256: 1, 65536: 2, 16777216: 3}[x[3][1]]
        if r is not None and r[0] is not None and r[0] >= 0 and r[1] is not None and r[1] < 256 ** (k + 1):
            return ("hbi", x[2], k)
    return None


def str_format(I: Any, tmpl: str, args: List[Term], kwargs: Dict[str, Term], st: Any, ctx: Any, node: ast.AST) -> Term:
    where = ctx.loc(node)
    out: Term = ("seq", "s", ())
    auto = 0
    try:
        parsed = list(string.Formatter().parse(tmpl))
    except ValueError:
        st.may_raise("ValueError", c(True), where)
        return top("never: malformed format template")
    for lit, fname, spec, conv in parsed:
        if lit:
            out = T.concat(out, c(lit))
        if fname is None:
            continue
        if conv:
            return top("format conversion not modelled")
        # field name: (index | keyword) followed by .attr / [key] accessors
        import _string
        try:
            first_, rest_ = _string.formatter_field_name_split(fname)
            rest_ = list(rest_)
        except ValueError:
            return top("format field name not understood")
        if first_ == "":
            idx: Any = auto
            auto += 1
        elif isinstance(first_, int):
            idx = first_
        else:
            idx = first_
        if isinstance(idx, int):
            if idx >= len(args):
                st.may_raise("IndexError", c(True), where)
                return top("never: format argument missing")
            val = args[idx]
        else:
            if idx not in kwargs:
                st.may_raise("KeyError", c(True), where)
                return top("never: format keyword missing")
            val = kwargs[idx]
        for is_attr_, key_ in rest_:
            if is_attr_:
                val = I.getattr(val, key_, st, ctx, node)
            else:
                val = index_value(I, val, c(key_), st, ctx, node)
            if is_top(val):
                return val
        spec = spec or ""
        if "{" in spec:
            # nested replacement fields inside the spec: {0:0{1}x}
            def rep(m: "re.Match[str]") -> str:
                nonlocal auto
                nm = m.group(1)
                if nm == "":
                    j = auto
                    auto += 1
                else:
                    j = int(nm)
                v = args[j]
                if not is_c(v):
                    raise AnalysisError(f"non-constant nested format spec at {where}")
                return str(v[1])
            spec = re.sub(r"\{(\d*)\}", rep, spec)
        out = T.concat(out, format_value(I, val, spec, st, ctx, node))
        if is_top(out):
            return out
    return merge_strftime(out)


def percent_format(I: Any, tmpl: Term, arg: Term, st: Any, ctx: Any, node: ast.AST) -> Term:
    """printf-style formatting with a literal template: %s %d %x %X with optional 0-flag and width, %%."""
    if not all(a[0] == "L" for a in tmpl[2]) or tmpl[1] != "s":
        return top("%-formatting with a symbolic template")
    text = "".join(a[1] for a in tmpl[2])
    if arg[0] == "tuple":
        vals = list(arg[1])
    else:
        vals = [arg]
    out: Term = ("seq", "s", ())
    pos = 0
    for m in re.finditer(r"%(?:(%)|(0?)(\d*)([sdxX]))", text):
        if m.start() > pos:
            out = T.concat(out, c(text[pos:m.start()]))
        pos = m.end()
        if m.group(1):
            out = T.concat(out, c("%"))
            continue
        if not vals:
            st.may_raise("TypeError", c(True), ctx.loc(node))
            return top("never: not enough arguments for format string")
        v = vals.pop(0)
        zero, width, conv = m.group(2), m.group(3), m.group(4)
        if conv == "s":
            if zero or width:
                return top("%s with width not modelled")
            piece = format_value(I, v, "", st, ctx, node)
        else:
            piece = format_value(I, v, f"{zero}{width}{conv}", st, ctx, node)
        out = T.concat(out, piece)
        if is_top(out):
            return out
    if "%" in re.sub(r"%(?:%|0?\d*[sdxX])", "", text):
        return top("%-formatting directive not modelled")
    if vals:
        st.may_raise("TypeError", c(True), ctx.loc(node))
        return top("never: not all arguments converted")
    if pos < len(text):
        out = T.concat(out, c(text[pos:]))
    return merge_strftime(out)


def pad(s: Term, width: Term, fill: Term, side: str, I: Any = None, st: Any = None, ctx: Any = None, node: Any = None) -> Term:
    w = as_const_int(width)
    f = fill[1] if is_c(fill) and isinstance(fill[1], str) else None
    if not isinstance(w, int) and I is not None and st is not None and is_c(fill) and isinstance(fill[1], (str, bytes)) and len(fill[1]) == 1:
        # x.ljust(len(x) - k, fill) with k >= 0 leaves x as it is
        try:
            d = (Lin.of(width) - Lin.of(length(I, s, st, ctx, node))).term()
        except Exception:
            d = None
        if d is not None and is_c(d) and isinstance(d[1], int) and d[1] <= 0:
            return s
    if s[1] in ("raw", "b") and is_c(fill) and isinstance(fill[1], bytes) and len(fill[1]) == 1 and isinstance(w, int):
        # bytes.ljust / rjust: width counts bytes
        if s[1] == "b" and fill[1].isascii():
            f = fill[1].decode()
        elif s[1] == "raw":
            fh = fill[1].hex()
            cwn = T.const_width(s)
            if cwn is not None:
                if cwn >= 2 * w:
                    return s
                padatoms = (("L", fh * (w - cwn // 2)),)
                return T.seq("raw", s[2] + padatoms if side == "ljust" else padatoms + s[2])
            if I is not None and st is not None:
                ln = length(I, s, st, ctx, node)
                from .frames import int_bounds_from_guard
                lo_, hi_ = int_bounds_from_guard(list(st.pc), ln)
                if hi_ is not None and hi_ <= w:
                    cnt = (Lin.of(c(w)) - Lin.of(ln)).term()
                    padatoms = (("rep", fh, cnt),)
                    return T.seq("raw", s[2] + padatoms if side == "ljust" else padatoms + s[2])
                if lo_ is not None and lo_ >= w:
                    return s
                # length on both sides of the width: the padded form when it is shorter, unchanged otherwise
                from .interp import mkcmp
                cnt = (Lin.of(c(w)) - Lin.of(ln)).term()
                padatoms = (("rep", fh, cnt),)
                padded = T.seq("raw", s[2] + padatoms if side == "ljust" else padatoms + s[2])
                return ("seq", "raw", (("alt", mkcmp("<", ln, c(w)), padded, s),))
            return top("pad of bytes whose length is not bounded by the path's guards")
    if not isinstance(w, int) or f is None or len(f) != 1:
        return top("pad with non-constant width/fill")
    cw = T.const_width(s)
    if cw is not None:
        if cw >= w:
            return s
        padatom = ("L", f * (w - cw))
        return T.seq(s[1], s[2] + (padatom,) if side == "ljust" else (padatom,) + s[2])
    fixed = None
    if len(s[2]) == 1 and s[2][0][0] == "fmt" and re.fullmatch(r"0?\d*[xXd]?", s[2][0][1]):
        rng = T.int_range(s[2][0][2])
        base = 16 if s[2][0][1][-1:] in ("x", "X") else 10
        if rng is not None and rng[0] is not None and rng[1] is not None and 0 <= rng[0] and rng[1] < base ** w:
            fixed = w
    if fixed is not None:
        return ("seq", s[1], (("padded", side, s[2][0], w, f),))
    if I is not None and st is not None and s[1] in ("s", "b"):
        # variable-width text whose length is bounded by the guards of the path (interval reading, no solving)
        wl = T.seq_width(s)
        if wl is not None:
            from .frames import int_bounds_from_guard
            lo_, hi_ = int_bounds_from_guard(list(st.pc), wl.term())
            if hi_ is not None and hi_ <= w:
                padatoms = (("rep", f, (Lin.of(c(w)) - wl).term()),)
                return T.seq(s[1], s[2] + padatoms if side == "ljust" else padatoms + s[2])
            if lo_ is not None and lo_ >= w:
                return s
    return ("seq", s[1], (("txt", ("app", side, s, c(w), c(f))),))


# ---------------------------------------------------------------------------
def call_method(I: Any, recv: Term, name: str, args: List[Term], kwargs: Dict[str, Term], st: Any, ctx: Any, node: ast.AST, awaited: bool) -> Term:
    where = ctx.loc(node)
    from .interp import HeapObj

    if name == "isoformat" and recv[:2] == ("app", "datetime.time") and (args == [c("minutes")] or (not args and kwargs == {"timespec": c("minutes")})):
        # datetime.time(hour=h, minute=m[, ...]).isoformat("minutes") is '%02d:%02d' % (h, m) (no tzinfo given)
        kws = {x[1]: x[2] for x in recv[2:] if isinstance(x, tuple) and x[:1] == ("kw",)}
        if len(kws) == len(recv) - 2 and "hour" in kws and "tzinfo" not in kws and "fold" not in kws:
            out_ = T.concat(T.concat(format_value(I, kws["hour"], "02d", st, ctx, node), c(":")), format_value(I, kws.get("minute", c(0)), "02d", st, ctx, node))
            if not is_top(out_):
                return merge_strftime(out_)

    if recv[:2] == ("app", "re.compile") and len(recv) == 3 and name == "findall" and len(args) == 1 and not kwargs and is_c(recv[2]) and isinstance(recv[2][1], (str, bytes)):
        # compiled '.{1,N}' (greedy, no flags) over text made of hex digits only (no newline for '.' to refuse): the
        # consecutive chunks of N characters, the last one possibly shorter; '' -> []
        pat_ = recv[2][1].decode("latin1") if isinstance(recv[2][1], bytes) else recv[2][1]
        m_ = re.fullmatch(r"\.\{1,(\d+)\}", pat_)
        sq_ = T.to_seq(args[0]) if _textlike(args[0]) else None
        if m_ and int(m_.group(1)) > 0 and sq_ is not None and sq_[2] and all(isinstance(a_, tuple) and a_[:1] == ("hx",) for a_ in sq_[2]) and (sq_[1] == "b") == isinstance(recv[2][1], bytes):
            return ("chunks", sq_, int(m_.group(1)))
        return top(f"regular expression {pat_!r}.findall is not modelled")

    if recv[0] == "ite" and len(recv) == 4 and name in ("format", "decode", "encode", "hex", "upper", "lower", "strip", "rstrip", "lstrip", "ljust", "rjust", "zfill", "join", "split", "get"):
        # a pure method of a two-way choice: the choice of the results (branches the path already decided are dropped)
        from .interp import decided_by, ite
        d = decided_by(st.pc, recv[1])
        if d is True:
            return call_method(I, recv[2], name, args, kwargs, st, ctx, node, awaited)
        if d is False:
            return call_method(I, recv[3], name, args, kwargs, st, ctx, node, awaited)
        ra = call_method(I, recv[2], name, args, kwargs, st, ctx, node, awaited)
        rb = call_method(I, recv[3], name, args, kwargs, st, ctx, node, awaited)
        sa_, sb_ = (T.to_seq(ra) if _textlike(ra) else None), (T.to_seq(rb) if _textlike(rb) else None)
        if sa_ is not None and sb_ is not None and sa_[1] == sb_[1]:
            return ("seq", sa_[1], (("alt", recv[1], sa_, sb_),))
        return ite(recv[1], ra, rb)
    # --- super().__post_init__() / super().__init__()
    if recv[0] == "super":
        ci, selfv = recv[1], recv[2]
        if ci is None or selfv is None:
            raise AnalysisError(f"super() outside a method at {where}")
        mro = ci.mro()
        # dynamic MRO of the instance's class decides the next class
        inst_cls = st.heap[selfv[1]].cls if selfv[0] == "obj" else (selfv[1] if selfv[0] == "class" else None)
        dyn = inst_cls.mro() if inst_cls is not None and ci in inst_cls.mro() else mro
        nxt = dyn[dyn.index(ci) + 1:]
        for k in nxt:
            if name in k.methods:
                return I.call(("bound", selfv, k.methods[name]), args, kwargs, st, ctx, node)
        if name in ("__init__", "__post_init__", "__init_subclass__"):
            return c(None)
        raise AnalysisError(f"super().{name} not found at {where}")

    if recv[0] == "obj" and recv[1] in st.heap and st.heap[recv[1]].name == "bytearray":
        ho_b = st.heap[recv[1]]
        if name == "extend" and len(args) == 1 and not kwargs:
            more_ = buffer_content(args[0], st)
            sm_ = T.to_seq(more_) if _textlike(more_) else None
            sb_ = T.to_seq(ho_b.fields["buf"]) if _textlike(ho_b.fields["buf"]) else None
            if sm_ is not None and sb_ is not None and sm_[1] in ("raw", "b") and sb_[1] == "raw":
                ho_b.fields["buf"] = T.concat(sb_, sm_ if sm_[1] == "raw" else sm_)
                return c(None)
            ho_b.fields["buf"] = top("bytearray.extend in a form that is not modelled")
            return c(None)
        if name in ("hex", "decode", "startswith", "endswith", "count", "find", "index", "copy", "ljust", "rjust", "zfill", "join", "split", "strip", "rstrip", "lstrip"):
            return call_method(I, ho_b.fields["buf"], name, [buffer_content(a_, st) for a_ in args], kwargs, st, ctx, node, awaited)
        ho_b.fields["buf"] = top(f"bytearray.{name} is not modelled")
        return top(f"bytearray.{name} is not modelled")
    if _textlike(recv) and name in ("cast", "tobytes", "toreadonly") and (name != "cast" or (len(args) == 1 and is_c(args[0]) and args[0][1] in ("B", "b", "c"))):
        return recv          # (memoryview methods on a view of bytes: the same bytes, in whatever form the analysis holds them)
    s = T.to_seq(recv) if _textlike(recv) else None
    if s is not None:
        r = text_method(I, s, name, args, kwargs, st, ctx, node)
        if r is not None:
            return r
    if recv[0] == "obj":
        ho = st.heap[recv[1]]
        if ho.name.startswith("memo:") and name not in ("get", "keys", "values", "items", "copy", "index", "count", "__contains__", "__getitem__", "__len__", "__iter__",
                                                        "union", "intersection", "difference", "issubset", "issuperset", "isdisjoint"):
            I.frozen_guard(recv, st, f"the receiver of .{name}()", where)
        if ho.kind == "list" and not ho.symbolic:
            if name == "append":
                ho.items.append(args[0])
                return c(None)
            if name == "extend":
                items = I.iter_items(args[0], st, ctx, node)
                if items is None:
                    return top("extend with symbolic iterable")
                ho.items.extend(items)
                return c(None)
            if name == "insert" and isinstance(as_const_int(args[0]), int):
                ho.items.insert(as_const_int(args[0]), args[1])
                return c(None)
            if name == "pop":
                i = as_const_int(args[0]) if args else -1
                if not isinstance(i, int):
                    return top("pop with symbolic index")
                if not ho.items or not (-len(ho.items) <= i < len(ho.items)):
                    st.may_raise("IndexError", c(True), where)
                    return top("never: pop from empty list")
                return ho.items.pop(i)
            if name == "sort":
                if all(is_c(x) for x in ho.items):
                    ho.items.sort(key=lambda x: x[1])
                elif len(ho.items) <= 1:
                    pass          # nothing to reorder
                else:
                    ho.items = [("sorted-elem", tuple(ho.items), i) for i in range(len(ho.items))]
                return c(None)
            if name == "copy":
                return st.alloc(HeapObj("list", None, {}, list(ho.items)))
            if name == "index":
                return app(".index", [recv] + args)
        if ho.kind == "set" and not ho.symbolic:
            if name == "add":
                if args[0] not in ho.items:
                    ho.items.append(args[0])
                return c(None)
            if name in ("discard", "remove"):
                ho.items = [x for x in ho.items if x != args[0]]
                return c(None)
        if ho.kind == "dict" and not ho.symbolic:
            if name == "get":
                return dict_get(I, ho.items, args[0], args[1] if len(args) > 1 else c(None), st, where, I.describe(recv, st))
            if name == "setdefault" and 1 <= len(args) <= 2 and not kwargs:
                # keys that are not syntactically equal are taken to be different (as for set.add: the rules that rely on
                # it state what identity means, e.g. C10 R10.3)
                from .interp import fold_cmp
                k2 = I.canon_cmp_operand(args[0], st)
                for k_, v_ in ho.items:
                    if fold_cmp("==", k2, I.canon_cmp_operand(k_, st)) is True:
                        return v_
                dv = args[1] if len(args) > 1 else c(None)
                ho.items.append((args[0], dv))
                return dv
            if name == "keys":
                return ("tuple", tuple(k for k, _ in ho.items))
            if name == "values":
                return ("tuple", tuple(v for _, v in ho.items))
            if name == "items":
                return ("tuple", tuple(("tuple", (k, v)) for k, v in ho.items))
        if ho.kind == "dict" and ho.symbolic and name in ("keys", "values", "items"):
            return app("." + name, [("sym", ho.name, "dict")])
        # method of symbolic / external object: observable event
        target = f"{I.describe(recv, st)}.{name}"
        return I.external_call(target, args, kwargs, st, ctx, node, awaited)
    if recv[0] == "modvar":
        target = f"{recv[2]}.{name}"
        # (a method of a module-level object the analyser could not evaluate - other than a logger - is not the environment:
        #  what it returns is an unknown of the analysis)
        return I.external_call(target, args, kwargs, st, ctx, node, awaited, c(None) if recv[2] == "logger" else None, opaque=(recv[2] != "logger"))
    if recv[0] == "sym":
        typ = recv[2]
        base = recv[1]
        if typ == "timedelta" or name in ("total_seconds",):
            return app("." + name, [recv] + args, kwargs)
        if typ == "int" or (isinstance(typ, tuple) and typ and typ[0] == "int"):
            if name == "to_bytes":
                return int_to_bytes(I, recv, args, kwargs, st, ctx, node)
        if isinstance(typ, tuple) and typ and typ[0] == "extobj":
            res: Optional[Term] = None
            if name == "read":
                res = ("sym", st.fresh("reply"), "bytes")
            elif name in ("write", "close", "abort"):
                res = c(None)
            elif name == "is_closing":
                res = ("sym", st.fresh(f"{base}.is_closing"), "bool")
            elif name == "create_datagram_endpoint":
                st.may_raise("OSError", ("ext", "bind fails (address in use)", st.fresh("ext")), where)
                # the await can also end in an exception that is not an Exception: the task is cancelled while binding
                st.may_raise("asyncio.CancelledError", ("ext", "cancelled while binding", st.fresh("ext")), where)
                res = ("tuple", (("sym", st.fresh("transport"), ("extobj", "transport")), ("sym", st.fresh("protocol"), ("extobj", "protocol"))))
            elif name == "wait_closed":
                res = c(None)
            return I.external_call(f"{base}.{name}", args, kwargs, st, ctx, node, awaited, res)
        if typ in ("json", "any", "dict") or (isinstance(typ, tuple) and typ and typ[0] in ("elemof", "set", "list")):
            if name == "get" and args:
                return ("item?", recv, args[0], args[1] if len(args) > 1 else c(None))
            if name in ("keys", "values", "items"):
                return app("." + name, [recv])
        return I.external_call(f"{base}.{name}", args, kwargs, st, ctx, node, awaited, opaque=not (isinstance(typ, tuple) and typ and typ[0] == "extobj") and typ not in ("any", "callable"))
    if recv[0] in ("app", "item", "attr", "lookup", "ite", "dec", "uint", "lin", "item?", "eattr", "len"):
        if recv[0] in ("uint", "lin", "len") or is_int_term(recv):
            if name == "to_bytes":
                return int_to_bytes(I, recv, args, kwargs, st, ctx, node)
        if recv[0] == "item" and name == "get":
            return ("item?", recv, args[0], args[1] if len(args) > 1 else c(None))
        if (name == "strftime" and recv[0] == "app" and recv[1] == "datetime.datetime.fromtimestamp" and len(recv) == 3 and len(args) == 1 and not kwargs):
            # naive datetime.fromtimestamp(n) is the LOCAL broken-down time of n: the same text as time.strftime(fmt, time.localtime(n))
            return merge_strftime(text_of(app("time.strftime", [args[0], app("time.localtime", [recv[2]])])))
        r = app("." + name, [recv] + args, kwargs)
        if name in ("strftime", "isoformat", "decode", "rstrip", "strip", "upper", "lower", "hex", "format", "group"):
            return text_of(r)
        if name in ("isdigit", "startswith", "endswith", "isalpha"):
            return ("truthy", r)
        return r
    if recv[0] == "c" and isinstance(recv[1], int) and name == "to_bytes":
        return int_to_bytes(I, recv, args, kwargs, st, ctx, node)
    if recv[0] == "tuple" and name in ("index", "count"):
        return app("." + name, [recv] + args)
    if recv[0] == "ext":
        return call_ext(I, f"{recv[1]}.{name}", args, kwargs, st, ctx, node, awaited)
    if recv[0] == "exc":
        return app("." + name, [recv] + args)
    if recv[0] == "structobj" and name == "pack" and not kwargs:
        return struct_pack(I, [recv[1]] + list(args), st, ctx, node)
    if recv[0] == "structobj" and name in ("unpack", "unpack_from") and len(args) >= 1 and is_c(recv[1]) and isinstance(recv[1][1], str):
        import struct as _struct
        buf = args[0]
        off = args[1] if len(args) > 1 else kwargs.get("offset", c(0))
        try:
            size = _struct.calcsize(recv[1][1])
        except _struct.error:
            size = None
        if size is not None and is_c(off) and isinstance(off[1], int) and off[1] >= 0:
            if name == "unpack_from":
                # needs at least offset+size bytes; reads exactly that window
                st.may_raise("struct.error", ("cmp", "<", length(I, buf, st, ctx, node), c(off[1] + size)), where)
                window = slice_value(I, buf, c(off[1]), c(off[1] + size), st, ctx, node)
                p0 = len(st.pending)
                r = struct_unpack(I, [recv[1], window], st, ctx, node)
                del st.pending[p0:]
            else:
                r = struct_unpack(I, [recv[1], buf], st, ctx, node)
            if not is_top(r):
                return ("tuple", (r,))
            return r
    if recv[0] in ("cdict",):
        if name == "get":
            return dict_get(I, list(recv[1]), args[0], args[1] if len(args) > 1 else c(None), st, where, "const-dict")
        if name == "keys":
            return ("tuple", tuple(k for k, _ in recv[1]))
        if name == "values":
            return ("tuple", tuple(v for _, v in recv[1]))
        if name == "items":
            return ("tuple", tuple(("tuple", kv) for kv in recv[1]))
    if recv[0] == "mapobj" and len(recv) == 4 and recv[3] == "list" and name in ("sort", "reverse"):
        # in-place reordering: membership is unchanged; the call is recorded so that rules can require it
        from .interp import Event
        st.events.append(Event("reorder", name, (recv,) + tuple(args), tuple(sorted(kwargs.items())), where, ctx.fi.key if ctx.fi else "", pc_len=len(st.pc)))
        return c(None)
    if recv[0] in ("map", "mapobj", "filterobj", "chunks"):
        return app("." + name, [recv] + args)
    return I.external_call(f"{T.show(recv)}.{name}", args, kwargs, st, ctx, node, awaited, opaque=True)


def int_to_bytes(I: Any, v: Term, args: List[Term], kwargs: Dict[str, Term], st: Any, ctx: Any, node: ast.AST) -> Term:
    n = as_const_int(args[0] if args else kwargs.get("length", c(1)))
    order = args[1] if len(args) > 1 else kwargs.get("byteorder", c("big"))
    if not isinstance(n, int) and is_c(order) and order[1] in ("little", "big") and (args or "length" in kwargs):
        nt = args[0] if args else kwargs["length"]
        if is_int_term(nt) or (isinstance(nt, tuple) and nt and nt[0] in ("app", "lin")):
            # a length that depends on the value (e.g. (x.bit_length() + 7) // 8): a byte string of VARIABLE width -
            # kept as a precise term, so that rules comparing with a fixed-width reference can see the difference
            return ("seq", "raw", (("txt", ("app", "to_bytes", v, nt, order)),))
    if not isinstance(n, int) or not is_c(order):
        return top("to_bytes with non-constant arguments")
    fmt = {1: "B", 2: "H", 4: "I", 8: "Q"}.get(n)
    if fmt is None:
        return top("to_bytes length not modelled")
    p0 = len(st.pending)
    r = struct_pack(I, [c(("<" if order[1] == "little" else ">") + fmt), v], st, ctx, node)
    st.pending[p0:] = [("OverflowError" if e == "struct.error" else e, cnd, w, nev) for (e, cnd, w, nev) in st.pending[p0:]]
    return r


_FOLDABLE_STR_METHODS = {"replace", "zfill", "rjust", "ljust", "center", "upper", "lower", "strip", "lstrip", "rstrip", "title", "capitalize", "swapcase", "removeprefix",
                         "removesuffix", "count", "find", "rfind", "startswith", "endswith", "isdigit", "isalpha", "isalnum", "partition", "rpartition", "expandtabs", "casefold"}


def text_method(I: Any, s: Term, name: str, args: List[Term], kwargs: Dict[str, Term], st: Any, ctx: Any, node: ast.AST) -> Optional[Term]:
    where = ctx.loc(node)
    kind = s[1]
    if (kind == "s" and name in _FOLDABLE_STR_METHODS and all(a[0] == "L" for a in s[2]) and all(is_c(a) and isinstance(a[1], (str, int, type(None))) and not isinstance(a[1], bool) for a in args)
            and all(is_c(v) and isinstance(v[1], (str, int, type(None))) for v in kwargs.values())):
        # constant folding: a pure str method of a literal with literal arguments
        try:
            r_ = getattr("".join(a[1] for a in s[2]), name)(*[a[1] for a in args], **{k: v[1] for k, v in kwargs.items()})
        except Exception:  # noqa: BLE001  (what it raises is left to the unfolded model below)
            r_ = None
        if isinstance(r_, (str, int, bool)):
            return c(r_)
        if isinstance(r_, (list, tuple)) and all(isinstance(x, str) for x in r_):
            return ("tuple", tuple(c(x) for x in r_)) if isinstance(r_, tuple) else ("clist", tuple(c(x) for x in r_))
    if kind == "s" and name == "splitlines" and not args and not kwargs:
        # the lines of a text: a list of texts of unknown length - EMPTY for the empty text (unlike split), so [0] may raise
        return I.materialise(("sym", st.fresh("lines"), ("list", "str")), st)
    if kind in ("raw", "b") and name in ("cast", "tobytes", "toreadonly") and (name != "cast" or (len(args) == 1 and is_c(args[0]) and args[0][1] in ("B", "b", "c"))):
        return s            # (memoryview methods on a view of bytes: the same bytes)
    if kind in ("raw", "b") and name == "release" and not args:
        return c(None)
    if name == "format":
        if all(a[0] == "L" for a in s[2]):
            return str_format(I, "".join(a[1] for a in s[2]), args, kwargs, st, ctx, node)
        return top("format on symbolic template")
    if name == "decode":
        if kind == "b":
            return ("seq", "s", s[2])
        if kind == "raw":
            # arbitrary bytes -> text: may raise UnicodeDecodeError unless all literal ASCII
            if all(a[0] == "L" for a in s[2]):
                try:
                    return c(bytes.fromhex("".join(a[1] for a in s[2])).decode())
                except Exception:  # noqa: BLE001
                    st.may_raise("UnicodeDecodeError", c(True), where)
                    return top("never: undecodable literal")
            if (not args and not kwargs and len(s[2]) == 1 and s[2][0][0] == "txt" and isinstance(s[2][0][1], tuple) and len(s[2][0][1]) == 4 and s[2][0][1][0] == "app"
                    and s[2][0][1][1] in ("rstrip", "strip", "lstrip") and is_c(s[2][0][1][3]) and isinstance(s[2][0][1][3][1], bytes) and s[2][0][1][3][1]
                    and all(b_ < 0x80 for b_ in s[2][0][1][3][1])):
                # B.rstrip(ascii).decode() is B.decode().rstrip(ascii): in UTF-8 a byte below 0x80 is a character of its own and never
                # part of another one, so the same characters go and the rest decodes (or fails to) the same way
                inner_ = text_method(I, s[2][0][1][2], "decode", [], {}, st, ctx, node)
                if inner_ is not None and not is_top(inner_):
                    r2_ = text_method(I, inner_, s[2][0][1][1], [c(s[2][0][1][3][1].decode("ascii"))], {}, st, ctx, node)
                    if r2_ is not None:
                        return r2_
            st.may_raise("UnicodeDecodeError", ("invalid", "utf-8", s), where)
            return ("seq", "s", (("txt", ("decode", s[2])),))
        return top("decode of str")
    if name == "encode":
        if kind == "s":
            if all(_ascii_atom(a) for a in s[2]):
                return ("seq", "b", s[2])
            out = []
            for a in s[2]:
                if a[0] == "L":
                    out.append(("L", a[1].encode("utf-8").hex()))
                elif _ascii_atom(a):
                    out.append(("hexof", ("ascii", a)))
                else:
                    out.append(("hexof", ("utf8", a)))
            return T.seq("raw", out)
        return top("encode of bytes")
    if name == "hex" and kind == "raw":
        return ("seq", "s", T.lower_atoms(s[2]))
    if name == "upper":
        up = T.upper_atoms(s[2])
        return (s[0], kind, up) if up is not None else None
    if name == "lower":
        return (s[0], kind, T.lower_atoms(s[2]))
    if name in ("ljust", "rjust"):
        return pad(s, args[0], args[1] if len(args) > 1 else (c(b" ") if kind in ("raw", "b") else c(" ")), name, I, st, ctx, node)
    if name == "zfill":
        return pad(s, args[0], c("0"), "rjust", I, st, ctx, node)
    if name in ("rstrip", "strip", "lstrip"):
        if all(a[0] == "L" for a in s[2]) and all(is_c(a) for a in args):
            txt = "".join(a[1] for a in s[2])
            return c(getattr(txt, name)(*[a[1] for a in args]))
        return ("seq", kind, (("txt", ("app", name, s) + tuple(args)),))
    if name == "split":
        return ("splitlist", s, args[0] if args else c(None))
    if name == "join":
        items = I.iter_items(args[0], st, ctx, node)
        a0 = T.to_seq(args[0]) if _textlike(args[0]) else None
        if items is None and a0 is not None and all(x[0] == "L" for x in a0[2]) and all(x[0] == "L" for x in s[2]):
            # joining the characters of a literal string
            return c("".join(x[1] for x in s[2]).join("".join(x[1] for x in a0[2])))
        if items is None:
            return text_of(app("join", [s, args[0]]))
        out: Term = ("seq", kind, ())
        for i, it in enumerate(items):
            if i:
                out = T.concat(out, s)
            its = T.to_seq(it) if _textlike(it) else None
            if its is None:
                its = ("seq", "s", (("txt", it),))
            out = T.concat(out, its)
        return out
    if name in ("isdigit", "isalpha", "isalnum", "startswith", "endswith"):
        if all(a[0] == "L" for a in s[2]) and all(is_c(a) for a in args):
            return c(getattr("".join(a[1] for a in s[2]), name)(*[a[1] for a in args]))
        if name == "startswith" and len(args) == 1 and not kwargs:
            # x.startswith(prefix) with a prefix of known length n is x[:n] == prefix (a shorter x compares unequal)
            ps = T.to_seq(args[0]) if _textlike(args[0]) else None
            n_ = T.const_width(ps) if ps is not None else None
            if ps is not None and n_ is not None and ps[1] == kind:
                n_units = int(n_) // 2 if kind == "raw" else int(n_)
                head = slice_value(I, s, c(0), c(n_units), st, ctx, node)
                if not is_top(head):
                    return I.compare(ast.Eq(), head, ps if kind == "raw" else args[0], st, ctx, node)
        return ("truthy", app("." + name, [s] + args))
    if name == "replace":
        return ("seq", kind, (("txt", ("app", "replace", s) + tuple(args)),))
    return None


def _ascii_atom(a: Term) -> bool:
    if a[0] == "L":
        return all(ord(ch) < 128 for ch in a[1])
    if a[0] in ("hx", "HX", "hbi", "hni", "hexof", "fmt", "rep", "sig", "padded"):
        return True
    if a[0] in ("upper", "lower"):
        return _ascii_atom(a[1])
    if a[0] in ("sub", "whole"):
        return T.is_hex_atom(a)
    if a[0] == "txt":
        x = a[1]
        if isinstance(x, tuple) and x and x[0] in ("eattr", "lookup"):
            return True
        if isinstance(x, tuple) and x and x[0] == "app" and x[1] in ("ljust", "rjust", "inet_ntoa", "time.strftime"):
            return True
    if a[0] == "alt":
        return True
    return False
