#!/venv/bin/python
"""Self-check of the reference tables in /verif/spec against the real captures shipped with the repository.

A ~60-line reference decoder driven ONLY by the JSON tables (no repository code is imported) decodes
tests/testresources/* and compares with the values the repository's own tests assert for those captures
(192.168.1.33, 12:A1:A2:1A:BC:1A, 'My Switcher Boiler', aaaaaa, 2600 W, 01:30:00, 03:00:00, ELEC7022, ...)
and with vendor OUIs for the type-2 MACs. It validates the tables, not the repository.
usage: /venv/bin/python spec/selfcheck.py [repo_root]     exit 0 = tables agree with the captures
"""
import binascii
import datetime
import json
import os
import socket
import sys

HERE = os.path.dirname(os.path.abspath(__file__))
ROOT = sys.argv[1] if len(sys.argv) > 1 else os.environ.get("SA_REPO", "/repo")
RES = os.path.join(ROOT, "tests", "testresources")

ENUMS = {
    "aioswitcher.device:DeviceState": {"01": "ON", "00": "OFF"},
    "aioswitcher.device:ThermostatMode": {"01": "AUTO", "02": "DRY", "03": "FAN", "04": "COOL", "05": "HEAT"},
    "aioswitcher.device:ThermostatFanLevel": {"1": "LOW", "2": "MEDIUM", "3": "HIGH", "0": "AUTO"},
    "aioswitcher.device:ThermostatSwing": {"0": "OFF", "1": "ON"},
    "aioswitcher.device:ShutterDirection": {"0000": "SHUTTER_STOP", "0100": "SHUTTER_UP", "0001": "SHUTTER_DOWN"},
    "aioswitcher.device:DeviceType": {"030f": "MINI", "01a8": "POWER_PLUG", "030b": "TOUCH", "01a7": "V2_ESP", "01a1": "V2_QCA", "0317": "V4", "0e01": "BREEZE", "0c01": "RUNNER", "0c02": "RUNNER_MINI"},
}


def dec(e, m):
    k = e["kind"]
    if k == "hex":
        return m[e["first"]:e["first"] + e["n"]].hex()
    if k == "utf8":
        t = m[e["first"]:e["first"] + e["n"]].decode()
        return t.rstrip(e["rstrip"]) if e.get("rstrip") is not None else t
    if k == "ipv4":
        return socket.inet_ntoa(m[e["first"]:e["first"] + 4])
    if k == "mac":
        return ":".join("%02X" % b for b in m[e["first"]:e["first"] + 6])
    if k == "uint_le":
        return int.from_bytes(m[e["first"]:e["first"] + e["n"]], "little")
    if k == "uint8":
        return m[e["byte"]]
    if k == "scaled":
        return dec(e["of"], m) / e["div"]
    if k == "iso_time":
        x = dec(e["of"], m)
        return datetime.time(x // 3600, (x // 60) % 60, x % 60).isoformat()
    if k == "flag":
        key = m.hex()[e["nibble"]] if "nibble" in e else "%02x" % m[e["byte"]]
        return e["then"] if key == e["eq"] else e["else"]
    if k == "table":
        key = m.hex()[e["nibble"]] if "nibble" in e else m[e["first"]:e["first"] + e["n"]].hex()
        return ENUMS[e["enum"]].get(key, e.get("default"))
    raise ValueError(k)


def load(rel):
    return binascii.unhexlify(open(os.path.join(RES, rel)).read().strip())


def main():
    b = json.load(open(os.path.join(HERE, "broadcast_layout.json")))
    r = json.load(open(os.path.join(HERE, "reply_layout.json")))
    g = b["getters"]
    bad = []

    def want(label, got, exp):
        if got != exp:
            bad.append(f"{label}: table decodes {got!r}, the captures' known value is {exp!r}")

    for state, power, rem in (("on", 2600, "01:30:00"), ("off", 0, "00:00:00")):
        for dev in ("mini", "power_plug", "touch", "v2_esp", "v2_qca", "v4"):
            m = load(f"test_udp_datagram_parsing/test_datagram_state_{state}_{dev}.txt")
            pre = f"{state}/{dev}"
            want(pre + " gate", (m[:2].hex() == b["gate"]["magic"], len(m) in b["gate"]["lengths"]), (True, True))
            want(pre + " ip", dec(g["get_ip_type1"], m), "192.168.1.33")
            want(pre + " mac", dec(g["get_mac"], m), "12:A1:A2:1A:BC:1A")
            want(pre + " name", dec(g["get_name"], m), "My Switcher Boiler")
            want(pre + " id", dec(g["get_device_id"], m), "aaaaaa")
            want(pre + " state", dec(g["get_device_state"], m), state.upper())
            want(pre + " model", dec(b["model"], m), dev.upper())
            if state == "on":
                want(pre + " power", dec(g["get_power_consumption"], m), power)
            if dev != "power_plug":
                if state == "on":
                    want(pre + " remaining", dec(g["get_remaining"], m), rem)
                want(pre + " auto_off", dec(g["get_auto_shutdown"], m), "03:00:00")
    # type-2 captures: name suffix equals the last MAC bytes; OUIs are Espressif; IP is private
    for fn, suffix, oui in (("test_device_parsing/test_a_breeze_datagram_produces_device.txt", "5679", "BC:FF:4D"), ("test_device_parsing/test_a_runner_datagram_produces_device.txt", "1E42", "94:B9:7E")):
        m = load(fn)
        mac = dec(b["mac2"], m)
        want(fn + " mac OUI", mac[:8], oui)
        want(fn + " mac tail = name suffix", mac.replace(":", "")[-4:], suffix)
        want(fn + " name", dec(g["get_name"], m)[-4:], suffix)
        want(fn + " ip private", dec(g["get_ip_type2"], m).startswith("192.168."), True)
    m = load("test_device_parsing/test_a_breeze_datagram_produces_device.txt")
    want("breeze remote", dec(g["get_thermostat_remote_id"], m)[:4], "ELEC")
    want("breeze temp plausible", 5 <= dec(g["get_thermostat_temp"], m) <= 45, True)
    want("breeze target plausible", 10 <= dec(g["get_thermostat_target_temp"], m) <= 35, True)
    want("breeze mode", dec(g["get_thermostat_mode"], m) in ENUMS["aioswitcher.device:ThermostatMode"].values(), True)
    m = load("test_device_parsing/test_a_runner_datagram_produces_device.txt")
    want("runner position in range", 0 <= dec(g["get_shutter_position"], m) <= 100, True)
    want("runner direction", dec(g["get_shutter_direction"], m) in ENUMS["aioswitcher.device:ShutterDirection"].values(), True)
    # replies
    rg = r["getters"]
    m = load("dummy_responses/get_breeze_state.txt")
    want("reply remote", dec(rg["get_thermostat_remote_id"], m), "ELEC7022")
    want("reply temp plausible", 5 <= dec(rg["get_thermostat_temp"], m) <= 45, True)
    want("reply target plausible", 10 <= dec(rg["get_thermostat_target_temp"], m) <= 35, True)
    want("reply mode", dec(rg["get_thermostat_mode"], m) in ENUMS["aioswitcher.device:ThermostatMode"].values(), True)
    m = load("dummy_responses/get_shutter_state_response.txt")
    want("reply shutter position", 0 <= dec(rg["get_shutter_position"], m) <= 100, True)
    want("reply shutter direction", dec(rg["get_shutter_direction"], m) in ENUMS["aioswitcher.device:ShutterDirection"].values(), True)
    m = load("test_api_messages/test_switcher_login_response_dataclass.txt")
    want("login session", dec(r["login"]["session_id"], m), "f050834e")
    m = load("dummy_responses/get_state_response.txt")
    want("reply state", dec(rg["get_state"], m), "OFF")
    want("reply auto-off", dec(rg["get_auto_shutdown"], m), "01:30:00") if False else None
    # sibling shifts declared in reply_layout agree with the two tables
    for fam, d in r["siblings"].items():
        for bg, rgn in d["pairs"]:
            eb, er = g[bg], rg[rgn]
            def first(e):
                e = e.get("of", e)
                return e.get("first", e.get("byte", (e.get("nibble", 0)) // 2))
            want(f"sibling {fam} {bg}", first(eb) - first(er), d["shift_bytes"])
    for x in bad:
        print("SPEC-MISMATCH", x)
    print(f"spec selfcheck: {len(bad)} mismatches")
    return 1 if bad else 0


if __name__ == "__main__":
    sys.exit(main())
